import GopatchModel.Sexp
import GopatchModel.Cli
import GopatchModel.Generated
import GopatchModel.Walk
import GopatchModel.MetaP
import GopatchModel.Finder
import GopatchModel.SplitPatch
import GopatchModel.Loader
import GopatchModel.Spec.RewriteSpec
import GopatchModel.Spec.FinderSpec
import GopatchModel.Intervals
import GopatchModel.AstDiff
import GopatchModel.Spec.RefFile
open Gopatch

def decodeTag : Sx → Tag
  | .atom "pos" => .pos
  | .atom "str" => .str
  | .atom "int" => .int
  | .atom "bool" => .bool
  | .list [.atom "ptr", t] => .ptr t.asStr
  | .list [.atom "iface", t] => .iface t.asStr
  | .list [.atom "slice", t] => .slice t.asStr
  | _ => .str

/-- `(schema (struct "ast.CallExpr" tag ...) ... (elem "ast.Expr" tag) ...)` as dumped by the harness from go/ast -/
def decodeSchema (x : Sx) : Option Schema :=
  match x with
  | .list (.atom "schema" :: items) =>
      let structs := items.filterMap (fun i => match i with
        | .list (.atom "struct" :: n :: tags) => some (n.asStr, tags.map decodeTag)
        | _ => none)
      let elems := items.filterMap (fun i => match i with
        | .list [.atom "elem", n, t] => some (n.asStr, decodeTag t)
        | _ => none)
      some { fields := fun t => structs.lookup t, elem := fun e => (elems.lookup e).getD .str }
  | _ => none

/-- nodes that are instances of the change's pattern but that the engine's matcher rejects; `none` when the
pattern has so many elisions that enumerating every choice is not attempted -/
def missedCount (c : Change) (f : FileM) : Option Nat :=
  if (collectDots c.minus.node).length > 4 then none else some (missedNodes c f).length

def errStr : Err → String
  | .err m => "(err \"" ++ escapeStr m ++ "\")"
  | .panic m => "(panic \"" ++ escapeStr m ++ "\")"

/-- indices (among the non-import top-level declarations) of the declarations that contain a site -/
def touchedDecls (f : FileM) (sites : List Site) : List Nat :=
  match f.tree with
  | .ptr _ fid (_ :: _ :: _ :: .slice _ decls :: _) =>
      let nonImp := decls.filter (fun d => !isImportDecl d)
      let idxOf := fun (i : Nat) => ((decls.take i).filter (fun d => !isImportDecl d)).length
      (List.range nonImp.length).filter (fun j =>
        sites.any (fun s =>
          (s.parent == fid && s.field == 3 && (match s.index with | some i => idxOf i == j && !(decls[i]?.map isImportDecl).getD true | none => false)) ||
          (match nonImp[j]? with | some d => hasId s.parent d | none => false)))
  | _ => []

mutual
def idsV : V → List Nat
  | .iface _ v => idsV v
  | .slice _ vs => idsL vs
  | .ptr _ id fs => id :: idsL fs
  | _ => []
def idsL : List V → List Nat
  | [] => []
  | v :: vs => idsV v ++ idsL vs
end

/-- does a change rewrite a slot inside an import declaration?  The model keeps the imports of a file as a list next
to the tree; a rewrite *inside* an import spec (a bare expression metavariable matches the path literal) changes the
one and not the other.  Such cases are outside the model and are not compared. -/
def siteInImports (f : FileM) (sites : List Site) : Bool :=
  match f.tree with
  | .ptr _ _ (_ :: _ :: _ :: .slice _ decls :: _) =>
      let ids := (decls.filter isImportGenDecl).flatMap idsV
      sites.any (fun s => ids.contains s.parent)
  | _ => false

/-- per-change trace of the CLI-style loop, the declarations containing sites, and the missed instances -/
def runChanges : List Change → FileM → List String → List Nat → Option Nat → FileM × List String × Option Err × List Nat × Option Nat
  | [], f, tr, td, ms => (f, tr, none, td, ms)
  | c :: cs, f, tr, td, ms =>
      let td' := match fileMatch c f with
        | some (_, sites) => if siteInImports f sites then td ++ [1000000] else td ++ touchedDecls f sites
        | none => td
      let ms' := match ms, missedCount c f with
        | some a, some b => some (a + b)
        | _, _ => none
      match applyChange c f with
      | .noMatch => runChanges cs f (tr ++ ["n"]) td ms'
      | .ok f' k => runChanges cs f' (tr ++ [s!"k{k}"]) td' ms'
      | .fail e => (f, tr ++ ["e"], some e, td', ms')

def handleEngine (sc : Option Schema) (id : String) (xs : List Sx) : String :=
  let changes := (Sx.field xs "changes").map decodeChange
  let file := decodeFile (Sx.field xs "file")
  let (f, tr, e, td, ms) := runChanges changes file [] [] (some 0)
  let oom := td.contains 1000000
  let td := td.filter (· != 1000000)
  let tds := " ".intercalate (td.eraseDups.map toString)
  let typed := match sc with
    | some sc => if wtv sc file.tree && nf file.tree then "1" else "0"
    | none => "?"
  let mss := match ms with | some k => toString k | none => "?"
  let kd := if changes.all (fun c => let ks := collectDots (sidePattern c c.minus); ks.all (fun k => ks.count k == 1)) then "1" else "0"
  let extra := s!"(touched {tds}) (missed {mss}) (typed {typed}) (keysdistinct {kd}) (outofmodel {if oom then 1 else 0})"
  match e with
  | some e => s!"(res {id} (trace {" ".intercalate tr}) {extra} {errStr e})"
  | none => s!"(res {id} (trace {" ".intercalate tr}) {extra} (ok) {canonFile f})"

def q (s : String) : String := "\"" ++ escapeStr s ++ "\""

def decodeApply : Sx → Apply
  | .list [.atom "nomatch"] => .noMatch
  | .list [.atom "replaceerr", m] => .replaceErr m.asStr
  | .list [.atom "formaterr", m] => .formatErr m.asStr
  | .list (.atom "ok" :: b :: cs) => .ok b.asStr (cs.map Sx.asStr)
  | _ => .noMatch

def decodeFileIn : Sx → Option FileIn
  | .list [.atom "file", a, p, c, ps, g, ap] =>
      some { abs := a.asStr, provided := p.asStr
             content := (match c with | .list [.atom "unreadable"] => none | x => some x.asStr)
             parses := ps.asStr == "1", generated := g.asStr == "1", apply := decodeApply ap }
  | _ => none

def diffMarker (name a b : String) : String := "\x00DIFF\x00" ++ name ++ "\x00" ++ b

def printOut (o : Opts) : Out → Option String
  | .write p b => some s!"(w {q p} {q b})"
  | .stdout s => some s!"(o {q s})"
  | .stderr s => some s!"(e {q s})"
  | .log s => if o.verbose then some s!"(o {q (s ++ "\n")})" else none
  | .error s => some s!"(err {q s})"
  | .lateError s => some s!"(lerr {q s})"

def handleCli (id : String) (xs : List Sx) : String :=
  let os := (Sx.field xs "opts").map Sx.asStr
  let o : Opts := { diff := os.contains "diff", print := os.contains "print", skipImports := os.contains "si",
                    skipGenerated := os.contains "sg", verbose := os.contains "v" }
  let files := (Sx.field xs "files").filterMap decodeFileIn
  let outs := runFiles o diffMarker files
  s!"(res {id} (exit {exitOf outs}) (outs {" ".intercalate (outs.filterMap (printOut o))}))"

def decodeCmt : Sx → Option Cmt
  | .list [.atom "c", t, b] => some { text := t.asStr, beforePackage := b.asStr == "1" }
  | _ => none

def handleGenerated (id : String) (xs : List Sx) : String :=
  let groups := (Sx.field xs "groups").map (fun g => match g with
    | .list cs => cs.filterMap decodeCmt
    | _ => [])
  let doc := match Sx.field xs "doc" with
    | [] => none
    | cs => some (cs.filterMap decodeCmt)
  s!"(res {id} {if checkGenerated groups doc then 1 else 0})"

partial def decodeFs : Sx → (String × FsNode)
  | .list (.atom "d" :: n :: es) => (n.asStr, .dir (es.map decodeFs))
  | .list [.atom "f", n] => (n.asStr, .file)
  | .list [.atom "l", n] => (n.asStr, .symlink)
  | .list [.atom "o", n] => (n.asStr, .other)
  | _ => ("?", .other)

def handleWalk (id : String) (xs : List Sx) : String :=
  let cwd := (Sx.field xs "cwd").map Sx.asStr
  let args := (Sx.field xs "args").map Sx.asStr
  let root := match Sx.field xs "tree" with
    | [t] => (decodeFs t).2
    | _ => .dir []
  match processed root cwd args with
  | none => s!"(res {id} (error))"
  | some fs => s!"(res {id} (files{String.join (fs.map (fun f => " " ++ q f))}))"

def hexVal (c : Char) : UInt8 :=
  if c.isDigit then (c.toNat - '0'.toNat).toUInt8 else (c.toNat - 'a'.toNat + 10).toUInt8

def unhex : List Char → List UInt8
  | a :: b :: rest => (hexVal a * 16 + hexVal b) :: unhex rest
  | _ => []

def bytesStr (b : List UInt8) : String :=
  (String.fromUTF8? (ByteArray.mk b.toArray)).getD (String.ofList (b.map (fun x => Char.ofNat x.toNat)))

def lcStr (content : Sec.Bytes) (off : Option Nat) : String :=
  match off with
  | none => "none"
  | some o => let p := Sec.position content o; s!"{p.1} {p.2}"

def secKind : Sec.ErrKind → String
  | .badName _ => "badname" | .badHeader => "badheader" | .eofMeta => "eofmeta" | .noChange => "nochange"

def mKind : Sec.MErr → String
  | .scan => "other" | .expectedVar => "expectedVar" | .expectedIdent => "expectedIdent"
  | .expectedSemi => "expectedSemi" | .unknownType => "unknownType" | .duplicate _ => "duplicate"

def decodeTok : Sx → Option Sec.Tok
  | .list (.atom "t" :: o :: k :: t :: es) => some { off := o.asNat, kind := k.asStr, text := t.asStr, errs := es.map Sx.asNat }
  | _ => none

def handleFront (id : String) (xs : List Sx) : String :=
  let content : Sec.Bytes := match Sx.field xs "hex" with
    | [h] => unhex h.asStr.toList
    | _ => []
  let uni : Sec.Uni := { letter := fun cp => ((Sx.field xs "uniletters").map Sx.asNat).contains cp,
                         digit := fun cp => ((Sx.field xs "unidigits").map Sx.asNat).contains cp }
  let (chs, serrs) := Sec.split uni content
  let lineStr := fun (l : Sec.Line) => s!" ({lcStr content (some l.off)} {q (bytesStr l.text)})"
  let chStr := fun (c : Sec.Change) =>
    s!" (ch (hdr {lcStr content c.headerOff}) {q (bytesStr c.name)} (meta{String.join (c.metaL.map lineStr)}) (at {lcStr content c.atOff}) (patch{String.join (c.patch.map lineStr)}) (comments{String.join (c.comments.map (fun b => " " ++ q (bytesStr b)))}))"
  let serrStr := String.join (serrs.map (fun e => s!" ({lcStr content (some e.off)} {secKind e.kind})"))
  -- diagnostics of the stages after sectioning
  let metas : List (List Sec.Tok) := (Sx.field xs "metas").map (fun m => match m with
    | .list (.atom "m" :: ts) => ts.filterMap decodeTok
    | _ => [])
  let perChange := (chs.zip metas).map (fun (c, toks) =>
    let (ds, errs) := Sec.parseMeta toks
    (c, ds, errs))
  let fmtErr := fun (c : Sec.Change) (e : Nat × Sec.MErr) =>
    let p := Sec.mapPos content c.metaL e.1
    match e.2 with
    | .duplicate f => let p0 := Sec.mapPos content c.metaL f; s!" ({p.1} {p.2} duplicate {p0.1} {p0.2})"
    | k => s!" ({p.1} {p.2} {mKind k})"
  let diag :=
    if !serrs.isEmpty then "section" ++ serrStr
    else match perChange.find? (fun (_, _, errs) => !errs.isEmpty) with
      | some (c, _, errs) => "meta" ++ String.join (errs.map (fmtErr c))
      | none =>
          let cerrs := perChange.flatMap (fun (c, ds, _) => (Sec.compileMetaErrs (ds.filterMap (fun x => x)) []).map (fmtErr c))
          if cerrs.isEmpty then "pass" else "compile" ++ String.join cerrs
  s!"(res {id} (serr{serrStr}) (changes{String.join (chs.map chStr)}) (diag {diag}))"

def kindOfStr (k : String) : Fnd.K :=
  match k with
  | "eof" => .eof | "package" => .package_ | "import" => .import_ | "lparen" => .lparen | "rparen" => .rparen
  | "period" => .period | "ident" => .ident | "type" => .type_ | "const" => .const_ | "var" => .var_
  | "func" => .func_ | "lbrace" => .lbrace | "ellipsis" => .ellipsis | "comma" => .comma | _ => .other

def hexDigit (n : Nat) : Char := if n < 10 then Char.ofNat (48 + n) else Char.ofNat (87 + n)
def toHex (bs : List UInt8) : String :=
  String.ofList (bs.flatMap (fun b => [hexDigit (b.toNat / 16), hexDigit (b.toNat % 16)]))

def augStr : Fnd.Aug → String
  | .fakePackage s => s!" (pkg {s})"
  | .fakeFunc s b => s!" (func {s} {if b then 1 else 0})"
  | .dots s e n => s!" (dots {s} {e} {if n then 1 else 0})"

def decodeFndToks (xs : List Sx) : List Fnd.Tok :=
  (Sx.field xs "toks").filterMap (fun t => match t with
    | .list [k, o, l] => some { kind := kindOfStr k.asStr, off := o.asNat, line := l.asNat }
    | _ => none)

def insertLC (a : Nat × Nat) : List (Nat × Nat) → List (Nat × Nat)
  | [] => [a]
  | b :: bs => if a.1 < b.1 || (a.1 == b.1 && a.2 ≤ b.2) then a :: b :: bs else b :: insertLC a bs

def sortLC (l : List (Nat × Nat)) : List (Nat × Nat) := l.foldr insertLC []

def versionStr (content : Sec.Bytes) (tag : String) (v : Sec.Version) : String :=
  let ls := v.lines.map (fun lp => let p := Sec.position content lp.pos; s!" ({lp.off} {p.1} {p.2})")
  s!"({tag} {toHex v.contents} (lines{String.join ls}))"

/-- where the front end records the elisions of one version: the finder and the rewriter on go/scanner's tokens of the
version, `posAdjuster.Pos` back into the version, the registered `LinePos` entries back into the patch file -/
def dotsOfVersion (content : Sec.Bytes) (v : Sec.Version) (side : List Sx) : Option (List (Nat × Nat)) :=
  if (Sx.field side "scanerr").length > 0 then none else
  match Fnd.findTotal (decodeFndToks side) with
  | none => none
  | some augs =>
      let (_, out, adjs) := Fnd.rewrite v.contents augs
      some (sortLC (out.filterMap (fun a => match a with
        | .dots s _ _ => some (v.positionIn content (Fnd.adjust adjs s))
        | _ => none)))

/-- the hypothesis of `elision_recorded_where_its_dots_stand` on the finder's output for one version -/
def augsOKOfVersion (v : Sec.Version) (side : List Sx) : Option Bool :=
  if (Sx.field side "scanerr").length > 0 then none else
  match Fnd.findTotal (decodeFndToks side) with
  | none => none
  | some augs =>
      let sorted := Fnd.sortByStart augs
      -- AugsOK, and every elision lies over three dots of the version (the hypotheses of every_elision_is_recorded_at_its_three_dots)
      some (Fnd.augsOKB v.contents 0 sorted && sorted.all (fun a => match a with
        | .dots s _ _ => v.contents[s]? == some 46 && v.contents[s + 1]? == some 46 && v.contents[s + 2]? == some 46
        | _ => true))

/-- the hypothesis of `every_elision_the_finder_reports_is_recorded_at_its_three_dots` on go/scanner's tokens of one version -/
def scanOKOfVersion (v : Sec.Version) (side : List Sx) : Option Bool :=
  if (Sx.field side "scanerr").length > 0 then none else some (Fnd.scanOKB v.contents (decodeFndToks side))

def dotsStr (tag : String) : Option (List (Nat × Nat)) → String
  | none => s!"({tag} illformed)"
  | some ps => s!"({tag}{String.join (ps.map (fun p => s!" ({p.1} {p.2})"))})"

def handleSplit (id : String) (xs : List Sx) : String :=
  let content : Sec.Bytes := match Sx.field xs "hex" with
    | [h] => unhex h.asStr.toList
    | _ => []
  let uni : Sec.Uni := { letter := fun cp => ((Sx.field xs "uniletters").map Sx.asNat).contains cp,
                         digit := fun cp => ((Sx.field xs "unidigits").map Sx.asNat).contains cp }
  let (chs, serrs) := Sec.split uni content
  if !serrs.isEmpty then s!"(res {id} (sectionerr))" else
  let sides : List (List Sx × List Sx) := (Sx.field xs "sides").map (fun c => match c with
    | .list [.atom "c", .list (.atom "m" :: ms), .list (.atom "p" :: ps)] => (ms, ps)
    | _ => ([], []))
  let vs := chs.map (fun c => Sec.splitPatch c.patch)
  let splitS := vs.map (fun (m, p) => s!" (c {versionStr content "m" m} {versionStr content "p" p})")
  let dotsS := (vs.zip sides).map (fun ((m, p), (ms, ps)) =>
    s!" (c {dotsStr "m" (dotsOfVersion content m ms)} {dotsStr "p" (dotsOfVersion content p ps)})")
  let hyps := (vs.zip sides).flatMap (fun ((m, p), (ms, ps)) => [augsOKOfVersion m ms, augsOKOfVersion p ps])
  let nok := (hyps.filter (· == some true)).length
  let nbad := (hyps.filter (· == some false)).length
  let shyps := (vs.zip sides).flatMap (fun ((m, p), (ms, ps)) => [scanOKOfVersion m ms, scanOKOfVersion p ps])
  let sok := (shyps.filter (· == some true)).length
  let sbad := (shyps.filter (· == some false)).length
  s!"(res {id} (split{String.join splitS}) (dots{String.join dotsS}) (hyp {nok} {nbad} {sok} {sbad}))"

/-- `loadPatches`: which patch sources a run reads and in which order, or where it fails -/
def handleLoad (id : String) (xs : List Sx) : String :=
  let bytesOf := fun (x : Sx) => x.asStr.toUTF8.toList
  let flags := (Sx.field xs "flags").map bytesOf
  let (listPath, listContent) : Load.Bytes × Option Load.Bytes := match Sx.field xs "list" with
    | [p, .atom "none"] => (bytesOf p, none)
    | [p, h] => (bytesOf p, some (unhex h.asStr.toList))
    | _ => ([], none)
  let goodNames := (Sx.field xs "good").map bytesOf
  let good : Load.Src → Bool := fun s => match s with
    | .stdin => (Sx.field xs "stdingood").length > 0
    | .file p => goodNames.contains p
  let show_ := fun (s : Load.Src) => match s with
    | .stdin => " stdin"
    | .file p => " " ++ q (bytesStr p)
  match Load.loadPatches good flags listPath listContent with
  | .loaded l => s!"(res {id} (loaded{String.join (l.map show_)}))"
  | .failed (some s) => s!"(res {id} (failed{show_ s}))"
  | .failed none => s!"(res {id} (failed list))"

def handleAugment (id : String) (xs : List Sx) : String :=
  if (Sx.field xs "scanerr").length > 0 then s!"(res {id} (err))" else
  let src : List UInt8 := match Sx.field xs "hex" with
    | [h] => unhex h.asStr.toList
    | _ => []
  let toks : List Fnd.Tok := (Sx.field xs "toks").filterMap (fun t => match t with
    | .list [k, o, l] => some { kind := kindOfStr k.asStr, off := o.asNat, line := l.asNat }
    | _ => none)
  match Fnd.findTotal toks with
  | none => s!"(res {id} (illformed))"
  | some augs =>
      let (dst, out, adjs) := Fnd.rewrite src augs
      s!"(res {id} (src {toHex dst}) (augs{String.join (out.map augStr)}) (adjs{String.join (adjs.map (fun a => s!" ({a.1} {a.2})"))}))"

def handleComments (id : String) (xs : List Sx) : String :=
  let changes : List (List Iv) := (Sx.field xs "changes").map (fun c => match c with
    | .list (.atom "ivs" :: ivs) => ivs.filterMap (fun i => match i with
        | .list [a, b] => some { s := a.asNat, e := b.asNat }
        | _ => none)
    | _ => [])
  let comments : List Comment := (Sx.field xs "comments").filterMap (fun c => match c with
    | .list [a, b, t] => some { pos := a.asNat, stop := b.asNat, text := t.asStr }
    | _ => none)
  let survivors := changes.foldl (fun cs ivs => filterComments ivs cs) comments
  let texts := (survivors.map (·.text)).foldr insertStr []
  -- declarations in which the engine model rewrote nothing (appended by the check from the engine stream)
  let untouched : List Extent := (Sx.field xs "untouched").filterMap (fun c => match c with
    | .list [a, b] => some { s := a.asNat, e := b.asNat }
    | _ => none)
  let resp := match changes.findSome? (fun ivs => offender ivs untouched) with
    | none => " (respects 1)"
    | some (i, x) => s!" (respects 0 {i.s} {i.e} {x.s} {x.e})"
  s!"(res {id} (survivors{String.join (texts.map (fun t => " " ++ q t))}){resp})"

/-- `(v "type" kind isNode pos end (groups...) isNil "payload" elemNode kids...)` -/
partial def decodeAV : Sx → AD.AV
  | .list (.atom "v" :: ty :: k :: n :: p :: e :: .list groups :: nl :: pl :: en :: kids) =>
      let cms : List AD.CG := groups.map (fun g => match g with
        | .list xs =>
            let rec pairs : List Sx → List (Nat × Nat)
              | a :: b :: rest => (a.asNat, b.asNat) :: pairs rest
              | _ => []
            pairs xs
        | _ => [])
      .mk ty.asStr k.asNat (n.asNat == 1) p.asNat e.asNat cms (nl.asNat == 1) pl.asStr (en.asNat == 1) (kids.map decodeAV)
  | _ => .mk "?" 4 false 0 0 [] true "" false []

/-- one application of `Snapshot.Diff`: the regions the model reports as changed (sorted by start, as the
harness sorts the recorded calls), and whether the comment associations of the new snapshot agree -/
def handleAstdiff (id : String) (xs : List Sx) : String :=
  match Sx.field xs "from", Sx.field xs "to" with
  | [f], [t] =>
      let old := decodeAV f
      let new := decodeAV t
      let w := AD.diff old (AD.strip new)
      let ch := w.ch.toArray.qsort (fun a b => a.pos < b.pos) |>.toList
      let snap := match (AD.cmsDiff w.to new 0).1 with
        | none => " (snap ok)"
        | some k => s!" (snap differs {k})"
      let bad := if w.bad then " (modeltrouble 1)" else ""
      -- the declarations not paired as identical, and the hypothesis of `untouched_neighbours_left_alone` for
      -- every declaration that is: do the others lie, with their regions, on one side of its extent?
      let decls := match AD.declsOf old (AD.strip new) with
        | some (ds, regs, fts, samelen, tw) =>
            let tagged : List (AD.AV × AD.Fate) := ds.zip fts
            let nonid := tagged.filterMap (fun (x : AD.AV × AD.Fate) => match x.2 with
              | AD.Fate.same _ => none
              | _ => some s!" ({x.1.pos} {x.1.stop})")
            let ident := tagged.filter (fun (x : AD.AV × AD.Fate) => match x.2 with | AD.Fate.same _ => true | _ => false)
            let fails := ident.filter (fun (x : AD.AV × AD.Fate) => let (lo, hi) := AD.extentOf x.1; !AD.sepB lo hi ds regs fts)
            s!" (nonid{String.join nonid}) (identical {ident.length}) (samelen {if samelen then 1 else 0}) (twins {tw}) (ndecls {ds.length}) (sepfail {fails.length}{String.join (fails.map (fun (x : AD.AV × AD.Fate) => let (lo, hi) := AD.extentOf x.1; s!" ({lo} {hi})"))})"
        | none => " (nodecls)"
      -- comment groups of the file that no value of the first snapshot is associated with
      let missing := match xs.find? (fun x => match x with | .list (.atom "groups" :: _) => true | _ => false) with
        | some (.list (_ :: gs)) =>
            let held := AD.groupStarts old
            s!" (cmsmissing {(gs.filter (fun (g : Sx) => !held.contains g.asNat)).length})"
        | _ => ""
      -- regions that start at NoPos (the elements of File.Comments are nil in a snapshot): cleanupFilePos skips an interval
      -- that starts there; counted
      let nopos := (w.ch.filter (fun r => r.pos == 0)).length
      s!"(res {id} (changed{String.join (ch.map (fun r => s!" ({r.pos} {r.stop})"))}){snap}{bad}{decls}{missing} (noposregions {nopos}))"
  | _, _ => s!"(res {id} (bad-case))"

def ivsOf (xs : List Sx) : List Iv := xs.filterMap (fun i => match i with
  | .list [a, b] => some { s := a.asNat, e := b.asNat }
  | _ => none)

/-- one changelog: the regions astdiff reported (`plus`), what the replacer recorded as unchanged (`minus`), the intervals
the real `ChangedIntervals` returned (`out`), the extents of the declarations in which nothing was rewritten -/
def handleChangelog (id : String) (xs : List Sx) : String :=
  let plus := ivsOf (Sx.field xs "plus")
  let minus := ivsOf (Sx.field xs "minus")
  let out := ivsOf (Sx.field xs "out")
  let untouched : List Extent := (Sx.field xs "untouched").filterMap (fun c => match c with
    | .list [a, b] => some { s := a.asNat, e := b.asNat }
    | _ => none)
  let model := changedIntervals plus minus
  let sound := soundOutB out plus minus
  let strong := plus.all (fun r => untouched.all (fun x => !(x.s < x.e) || strongClear r x))
  let resp := respects out untouched
  let b (x : Bool) := if x then "1" else "0"
  -- the hypothesis of `header_comments_survive_the_filter` on the intervals the real changelog returned
  let hdr := match Sx.field xs "filepos" with
    | [p] => s!" (hdrclear {b (startsClearB p.asNat out)})"
    | _ => ""
  s!"(res {id} (model{String.join (model.map (fun i => s!" ({i.s} {i.e})"))}) (sound {b sound}) (strongclear {b strong}) (respects {b resp}){hdr})"

def handleLine (sc : Option Schema) (line : String) : String :=
  match Sx.ofString line with
  | .list (.atom "case" :: id :: .atom "engine" :: xs) => handleEngine sc id.asStr xs
  | .list (.atom "case" :: id :: .atom "cli" :: xs) => handleCli id.asStr xs
  | .list (.atom "case" :: id :: .atom "generated" :: xs) => handleGenerated id.asStr xs
  | .list (.atom "case" :: id :: .atom "walk" :: xs) => handleWalk id.asStr xs
  | .list (.atom "case" :: id :: .atom "front" :: xs) => handleFront id.asStr xs
  | .list (.atom "case" :: id :: .atom "augment" :: xs) => handleAugment id.asStr xs
  | .list (.atom "case" :: id :: .atom "split" :: xs) => handleSplit id.asStr xs
  | .list (.atom "case" :: id :: .atom "load" :: xs) => handleLoad id.asStr xs
  | .list (.atom "case" :: id :: .atom "comments" :: xs) => handleComments id.asStr xs
  | .list (.atom "case" :: id :: .atom "astdiff" :: xs) => handleAstdiff id.asStr xs
  | .list (.atom "case" :: id :: .atom "changelog" :: xs) => handleChangelog id.asStr xs
  | .list (.atom "echo" :: [v]) => canonV (decodeV v)
  | _ => "(bad-op)"

partial def loop (sc : Option Schema) (h : IO.FS.Stream) (out : IO.FS.Stream) : IO Unit := do
  let line ← h.getLine
  if line.isEmpty then return ()
  let l := line.trimAscii.toString
  if !l.isEmpty then
    out.putStrLn (handleLine sc l)
  loop sc h out

def main : IO Unit := do
  let stdin ← IO.getStdin
  let stdout ← IO.getStdout
  -- the schema of go/ast, dumped by the harness by reflection on every run (VERIF_SCHEMA names the file)
  let sc ← (do
    match (← IO.getEnv "VERIF_SCHEMA") with
    | some p => (do let t ← IO.FS.readFile p; pure (decodeSchema (Sx.ofString t.trimAscii.toString))) <|> pure none
    | none => pure none)
  loop sc stdin stdout
  stdout.flush
