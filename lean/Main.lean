import GopatchModel.Sexp
import GopatchModel.Cli
import GopatchModel.Generated
import GopatchModel.Walk
open Gopatch

def errStr : Err → String
  | .err m => "(err \"" ++ escapeStr m ++ "\")"
  | .panic m => "(panic \"" ++ escapeStr m ++ "\")"

/-- per-change trace of the CLI-style loop -/
def runChanges : List Change → FileM → List String → FileM × List String × Option Err
  | [], f, tr => (f, tr, none)
  | c :: cs, f, tr =>
      match applyChange c f with
      | .noMatch => runChanges cs f (tr ++ ["n"])
      | .ok f' k => runChanges cs f' (tr ++ [s!"k{k}"])
      | .fail e => (f, tr ++ ["e"], some e)

def handleEngine (id : String) (xs : List Sx) : String :=
  let changes := (Sx.field xs "changes").map decodeChange
  let file := decodeFile (Sx.field xs "file")
  let (f, tr, e) := runChanges changes file []
  match e with
  | some e => s!"(res {id} (trace {" ".intercalate tr}) {errStr e})"
  | none => s!"(res {id} (trace {" ".intercalate tr}) (ok) {canonFile f})"

def q (s : String) : String := "\"" ++ escapeStr s ++ "\""

def decodeApply : Sx → Apply
  | .list [.atom "nomatch"] => .noMatch
  | .list [.atom "replaceerr", m] => .replaceErr m.asStr
  | .list [.atom "formaterr", m] => .formatErr m.asStr
  | .list (.atom "ok" :: b :: cs) => .ok b.asStr (cs.map Sx.asStr)
  | _ => .noMatch

def decodeFileIn : Sx → Option FileIn
  | .list [.atom "file", a, p, c, ps, g, ap] =>
      some { abs := a.asStr, provided := p.asStr
             content := (match c with | .list [.atom "unreadable"] => none | x => some x.asStr)
             parses := ps.asStr == "1", generated := g.asStr == "1", apply := decodeApply ap }
  | _ => none

def diffMarker (name a b : String) : String := "\x00DIFF\x00" ++ name ++ "\x00" ++ b

def printOut (o : Opts) : Out → Option String
  | .write p b => some s!"(w {q p} {q b})"
  | .stdout s => some s!"(o {q s})"
  | .stderr s => some s!"(e {q s})"
  | .log s => if o.verbose then some s!"(o {q (s ++ "\n")})" else none
  | .error s => some s!"(err {q s})"
  | .lateError s => some s!"(lerr {q s})"

def handleCli (id : String) (xs : List Sx) : String :=
  let os := (Sx.field xs "opts").map Sx.asStr
  let o : Opts := { diff := os.contains "diff", print := os.contains "print", skipImports := os.contains "si",
                    skipGenerated := os.contains "sg", verbose := os.contains "v" }
  let files := (Sx.field xs "files").filterMap decodeFileIn
  let outs := runFiles o diffMarker files
  s!"(res {id} (exit {exitOf outs}) (outs {" ".intercalate (outs.filterMap (printOut o))}))"

def decodeCmt : Sx → Option Cmt
  | .list [.atom "c", t, b] => some { text := t.asStr, beforePackage := b.asStr == "1" }
  | _ => none

def handleGenerated (id : String) (xs : List Sx) : String :=
  let groups := (Sx.field xs "groups").map (fun g => match g with
    | .list cs => cs.filterMap decodeCmt
    | _ => [])
  let doc := match Sx.field xs "doc" with
    | [] => none
    | cs => some (cs.filterMap decodeCmt)
  s!"(res {id} {if checkGenerated groups doc then 1 else 0})"

partial def decodeFs : Sx → (String × FsNode)
  | .list (.atom "d" :: n :: es) => (n.asStr, .dir (es.map decodeFs))
  | .list [.atom "f", n] => (n.asStr, .file)
  | .list [.atom "l", n] => (n.asStr, .symlink)
  | .list [.atom "o", n] => (n.asStr, .other)
  | _ => ("?", .other)

def handleWalk (id : String) (xs : List Sx) : String :=
  let cwd := (Sx.field xs "cwd").map Sx.asStr
  let args := (Sx.field xs "args").map Sx.asStr
  let root := match Sx.field xs "tree" with
    | [t] => (decodeFs t).2
    | _ => .dir []
  match processed root cwd args with
  | none => s!"(res {id} (error))"
  | some fs => s!"(res {id} (files{String.join (fs.map (fun f => " " ++ q f))}))"

def handleLine (line : String) : String :=
  match Sx.ofString line with
  | .list (.atom "case" :: id :: .atom "engine" :: xs) => handleEngine id.asStr xs
  | .list (.atom "case" :: id :: .atom "cli" :: xs) => handleCli id.asStr xs
  | .list (.atom "case" :: id :: .atom "generated" :: xs) => handleGenerated id.asStr xs
  | .list (.atom "case" :: id :: .atom "walk" :: xs) => handleWalk id.asStr xs
  | .list (.atom "echo" :: [v]) => canonV (decodeV v)
  | _ => "(bad-op)"

partial def loop (h : IO.FS.Stream) (out : IO.FS.Stream) : IO Unit := do
  let line ← h.getLine
  if line.isEmpty then return ()
  let l := line.trimAscii.toString
  if !l.isEmpty then
    out.putStrLn (handleLine l)
  loop h out

def main : IO Unit := do
  let stdin ← IO.getStdin
  let stdout ← IO.getStdout
  loop stdin stdout
  stdout.flush
