import GopatchModel.Sexp
open Gopatch

def errStr : Err → String
  | .err m => "(err \"" ++ escapeStr m ++ "\")"
  | .panic m => "(panic \"" ++ escapeStr m ++ "\")"

/-- per-change trace of the CLI-style loop -/
def runChanges : List Change → FileM → List String → FileM × List String × Option Err
  | [], f, tr => (f, tr, none)
  | c :: cs, f, tr =>
      match applyChange c f with
      | .noMatch => runChanges cs f (tr ++ ["n"])
      | .ok f' k => runChanges cs f' (tr ++ [s!"k{k}"])
      | .fail e => (f, tr ++ ["e"], some e)

def handleEngine (id : String) (xs : List Sx) : String :=
  let changes := (Sx.field xs "changes").map decodeChange
  let file := decodeFile (Sx.field xs "file")
  let (f, tr, e) := runChanges changes file []
  match e with
  | some e => s!"(res {id} (trace {" ".intercalate tr}) {errStr e})"
  | none => s!"(res {id} (trace {" ".intercalate tr}) (ok) {canonFile f})"

def handleLine (line : String) : String :=
  match Sx.ofString line with
  | .list (.atom "case" :: id :: .atom "engine" :: xs) => handleEngine id.asStr xs
  | .list (.atom "echo" :: [v]) => canonV (decodeV v)
  | _ => "(bad-op)"

partial def loop (h : IO.FS.Stream) (out : IO.FS.Stream) : IO Unit := do
  let line ← h.getLine
  if line.isEmpty then return ()
  let l := line.trimAscii.toString
  if !l.isEmpty then
    out.putStrLn (handleLine l)
  loop h out

def main : IO Unit := do
  let stdin ← IO.getStdin
  let stdout ← IO.getStdout
  loop stdin stdout
  stdout.flush
