import GopatchModel.Tree
import GopatchModel.Data
import GopatchModel.Engine
import GopatchModel.FileM
import GopatchModel.Sexp
