/-
  Walk.lean — model of main.go:findGoFiles / findFiles over an abstract file
  system.  filepath.Walk (lexical order, Lstat semantics), filepath.Join/Clean
  are modelled directly; their real behaviour is validated differentially.
-/
namespace Gopatch

inductive FsNode where
  | file
  | symlink
  | other
  | dir (entries : List (String × FsNode))
  deriving Inhabited

def startsWithChar (s : String) (c : Char) : Bool :=
  match s.toList with
  | [] => false
  | x :: _ => x == c

/-- the prune test of findGoFiles, applied to every directory including the named one -/
def skipDir (name : String) : Bool :=
  name.toList.isEmpty || startsWithChar name '.' || startsWithChar name '_' ||
    name == "testdata" || name == "vendor"

def hasGoSuffix (path : String) : Bool := ".go".toList.isSuffixOf path.toList

mutual
/-- files collected below (and including) `node`, which is at `path` and has base name `name` -/
def walk (path name : String) : FsNode → List String
  | .file => if hasGoSuffix path then [path] else []
  | .symlink => []
  | .other => []
  | .dir es => if skipDir name then [] else walkEntries path es
def walkEntries (path : String) : List (String × FsNode) → List String
  | [] => []
  | e :: es => walk (path ++ "/" ++ e.1) e.1 e.2 ++ walkEntries path es
end

/-- lexical path cleaning of an absolute path given as components -/
def cleanComps : List String → List String → List String
  | acc, [] => acc.reverse
  | acc, c :: cs =>
      if c == "" || c == "." then cleanComps acc cs
      else if c == ".." then cleanComps (acc.drop 1) cs
      else cleanComps (c :: acc) cs

def joinAbs (comps : List String) : String := "/" ++ "/".intercalate comps

def trimDots (s : String) : String :=
  if "...".toList.isSuffixOf s.toList then String.ofList (s.toList.take (s.toList.length - 3)) else s

/-- the absolute, cleaned path a pattern names -/
def resolveArg (cwd : List String) (arg : String) : List String :=
  let a := trimDots arg
  if startsWithChar a '/' then cleanComps [] (a.splitOn "/")
  else cleanComps [] (cwd ++ a.splitOn "/")

def lookupFs : FsNode → List String → Option FsNode
  | n, [] => some n
  | .dir es, c :: cs => match es.find? (fun e => e.1 == c) with
      | some e => lookupFs e.2 cs
      | none => none
  | _, _ :: _ => none

/-- `findGoFiles`: none = the path does not exist (Walk reports the Lstat error) -/
def findGoFiles (root : FsNode) (cwd : List String) (arg : String) : Option (List String) :=
  let comps := resolveArg cwd arg
  match lookupFs root comps with
  | none => none
  | some n => some (walk (joinAbs comps) (comps.getLast?.getD "/") n)

/-- insertion into a strictly ascending list, dropping duplicates -/
def insertUniq {α} (le : α → α → Bool) (x : α) : List α → List α
  | [] => [x]
  | y :: ys =>
      if le x y then (if le y x then y :: ys else x :: y :: ys)
      else y :: insertUniq le x ys

def sortUniq {α} (le : α → α → Bool) (l : List α) : List α := l.foldr (insertUniq le) []

def strLe (a b : String) : Bool := decide (a ≤ b)

/-- `findFiles`: none when some pattern cannot be enumerated (the run stops before processing) -/
def findFiles (root : FsNode) (cwd : List String) : List String → Option (List String)
  | [] => some []
  | a :: as => match findGoFiles root cwd a, findFiles root cwd as with
      | some xs, some ys => some (xs ++ ys)
      | _, _ => none

def processed (root : FsNode) (cwd : List String) (args : List String) : Option (List String) :=
  (findFiles root cwd args).map (sortUniq strLe)

end Gopatch
