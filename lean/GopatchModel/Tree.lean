/-
  Tree.lean — the reflected-AST value datatype shared by every model file.

  A `V` is what `reflect.Value` shows gopatch's engine when it walks a go/ast
  tree: positions (only validity matters to matching; the key identifies a
  patch line/column or a file offset), scalars, typed nil / non-nil pointers to
  structs (with an identity `id` for nodes of the target file, 0 for freshly
  built nodes), typed nil / non-nil interface values and typed nil / non-nil
  slices.  Type tags are the Go type names as printed by `reflect.Type.String`
  without the leading `*` / `[]`.
-/
namespace Gopatch

inductive V where
  | pos   (valid : Bool) (key : Nat)
  | str   (s : String)
  | int   (n : Int)
  | bool  (b : Bool)
  | nilP  (t : String)
  | ptr   (t : String) (id : Nat) (fs : List V)
  | nilI  (i : String)
  | iface (i : String) (v : V)
  | nilS  (e : String)
  | slice (e : String) (vs : List V)
  deriving Inhabited

namespace V

/-- `reflect.Value.IsNil` on the nillable kinds. -/
def isNil : V → Bool
  | .nilP _ | .nilI _ | .nilS _ => true
  | _ => false

/-- Static Go type of the slot value, as a string. -/
def tyOf : V → String
  | .pos _ _ => "token.Pos"
  | .str _ => "string"
  | .int _ => "int"
  | .bool _ => "bool"
  | .nilP t => "*" ++ t
  | .ptr t _ _ => "*" ++ t
  | .nilI i => i
  | .iface i _ => i
  | .nilS e => "[]" ++ e
  | .slice e _ => "[]" ++ e

end V

/-! ## Schema constants (checked against go/ast by the harness `schema` command on every run) -/

/-- Struct types whose pointer implements `ast.Expr` (plus `pgo.Dots`). -/
def exprTypes : List String :=
  ["ast.BadExpr", "ast.Ident", "ast.Ellipsis", "ast.BasicLit", "ast.FuncLit", "ast.CompositeLit",
   "ast.ParenExpr", "ast.SelectorExpr", "ast.IndexExpr", "ast.IndexListExpr", "ast.SliceExpr",
   "ast.TypeAssertExpr", "ast.CallExpr", "ast.StarExpr", "ast.UnaryExpr", "ast.BinaryExpr",
   "ast.KeyValueExpr", "ast.ArrayType", "ast.StructType", "ast.FuncType", "ast.InterfaceType",
   "ast.MapType", "ast.ChanType", "pgo.Dots"]

def stmtTypes : List String :=
  ["ast.BadStmt", "ast.DeclStmt", "ast.EmptyStmt", "ast.LabeledStmt", "ast.ExprStmt", "ast.SendStmt",
   "ast.IncDecStmt", "ast.AssignStmt", "ast.GoStmt", "ast.DeferStmt", "ast.ReturnStmt",
   "ast.BranchStmt", "ast.BlockStmt", "ast.IfStmt", "ast.CaseClause", "ast.SwitchStmt",
   "ast.TypeSwitchStmt", "ast.CommClause", "ast.SelectStmt", "ast.ForStmt", "ast.RangeStmt"]

def declTypes : List String := ["ast.BadDecl", "ast.GenDecl", "ast.FuncDecl"]
def specTypes : List String := ["ast.ImportSpec", "ast.ValueSpec", "ast.TypeSpec"]

def isExprType (t : String) : Bool := exprTypes.contains t

/-- `reflect.Type.Implements` for pointer-to-struct `t` and the go/ast interfaces. -/
def implements (t i : String) : Bool :=
  if i == "ast.Expr" then exprTypes.contains t
  else if i == "ast.Stmt" then stmtTypes.contains t
  else if i == "ast.Decl" then declTypes.contains t
  else if i == "ast.Spec" then specTypes.contains t
  else false

/-- `give.Type().AssignableTo(slot)` where `give` is a pointer-typed value and the
slot type is given as a string (an interface name or `*T`). -/
def assignable (give : V) (slotTy : String) : Bool :=
  match give with
  | .ptr t _ _ => slotTy == "*" ++ t || implements t slotTy
  | .nilP t => slotTy == "*" ++ t || implements t slotTy
  | _ => false

/-- element types for which the engine uses the `...`-aware slice matcher / replacer -/
def dotsElem (e : String) : Bool := e == "ast.Stmt" || e == "ast.Expr" || e == "*ast.Field"

/-- token.IMPORT -/
def tokIMPORT : Int := 75

/-- Field indices (checked by the schema command). -/
def identNameIdx : Nat := 1
def identObjIdx : Nat := 2

end Gopatch
