/-
  Cli.lean — model of main.go:(*mainCmd).Run's per-file loop and of
  patch.File.Apply, parametric in what the engine, go/format, imports.Process
  and pkg/diff do for each file (the per-file `Apply` outcome).
-/
namespace Gopatch

structure Opts where
  diff : Bool := false
  print : Bool := false
  skipImports : Bool := false
  skipGenerated : Bool := false
  verbose : Bool := false
  deriving Repr, Inhabited, DecidableEq

/-- what `patchRunner.Apply` + `format.Node` + `imports.Process` (or the re-parse)
yield for one parsed file -/
inductive Apply where
  | noMatch
  | replaceErr (msg : String)
  | formatErr (msg : String)
  | ok (bytes : String) (comments : List String)
  deriving Repr, Inhabited, DecidableEq

structure FileIn where
  abs : String
  provided : String
  content : Option String       -- none: cannot be read
  parses : Bool
  generated : Bool              -- checkGeneratedCode
  apply : Apply
  deriving Repr, Inhabited

inductive Out where
  | write (path bytes : String)          -- os.WriteFile(path, bytes, 0o644)
  | stdout (s : String)
  | stderr (s : String)
  | log (s : String)                     -- goes to stdout iff --verbose
  | error (s : String)                   -- appended to `errors`
  | lateError (s : String)               -- patchRunner.errors, appended after all files
  deriving Repr, Inhabited, DecidableEq

/-- effects of one iteration of the loop over files -/
def stepFile (o : Opts) (diffText : String → String → String → String) (f : FileIn) : List Out :=
  match f.content with
  | none => [.log s!"{f.abs}: failed", .error s!"could not read {f.abs}"]
  | some content =>
    if !f.parses then [.error s!"could not parse {f.abs}"]
    else if o.skipGenerated && f.generated then [.log s!"generated file {f.abs}: skipped"]
    else match f.apply with
      | .noMatch => (if o.print then [.stdout content] else []) ++ [.log s!"{f.abs}: skipped"]
      | .replaceErr m =>
          [.lateError s!"could not update {f.abs}: {m}"] ++
          (if o.print then [.stdout content] else []) ++ [.log s!"{f.abs}: skipped"]
      | .formatErr m => [.log s!"{f.abs}: failed", .error s!"{f.abs}: {m}"]
      | .ok bytes comments =>
          (if o.diff then
             comments.map (fun c => Out.stderr s!"{f.provided}:{c}") ++ [.stdout (diffText f.provided content bytes)]
           else if o.print then
             comments.map (fun c => Out.stderr s!"{f.provided}:{c}") ++ [.stdout bytes]
           else [.write f.abs bytes]) ++ [.log s!"{f.abs}: patched"]

def runFiles (o : Opts) (diffText : String → String → String → String) (fs : List FileIn) : List Out :=
  fs.flatMap (stepFile o diffText)

def errorsOf (outs : List Out) : List String :=
  outs.filterMap (fun x => match x with | .error s => some s | _ => none) ++
  outs.filterMap (fun x => match x with | .lateError s => some s | _ => none)

def writesOf (outs : List Out) : List (String × String) :=
  outs.filterMap (fun x => match x with | .write p b => some (p, b) | _ => none)

def stdoutOf (o : Opts) (outs : List Out) : List String :=
  outs.filterMap (fun x => match x with
    | .stdout s => some s
    | .log s => if o.verbose then some (s ++ "\n") else none
    | _ => none)

def stderrOf (outs : List Out) : List String :=
  outs.filterMap (fun x => match x with | .stderr s => some s | _ => none)

def exitOf (outs : List Out) : Nat := if (errorsOf outs).isEmpty then 0 else 1

/-- `patch.File.Apply`: bytes or an error -/
def applyApi (src : String) (parses : Bool) (a : Apply) : Except String String :=
  if !parses then .error "could not parse"
  else match a with
    | .noMatch => .ok src
    | .replaceErr m => .error m
    | .formatErr m => .error m
    | .ok bytes _ => .ok bytes

end Gopatch

namespace Gopatch

/-- the tail of the per-file pipeline after a successful Replace: `format.Node`, then
`imports.Process` unless `--skip-import-processing`, in which case the result is re-parsed -/
def finishFile (o : Opts) (formatted : Except String String)
    (process : String → Except String String) (parsesB : String → Bool) : Except String String :=
  match formatted with
  | .error e => .error e
  | .ok bs =>
      if !o.skipImports then process bs
      else if parsesB bs then .ok bs else .error "rewritten file is not valid Go"

/-- per-file outcome assembled from the engine result and the formatting tail -/
def mkApply (o : Opts) (matched : Bool) (replaceErr : Option String) (formatted : Except String String)
    (process : String → Except String String) (parsesB : String → Bool) (comments : List String) : Apply :=
  match replaceErr with
  | some m => .replaceErr m
  | none =>
      if !matched then .noMatch
      else match finishFile o formatted process parsesB with
        | .ok bs => .ok bs comments
        | .error e => .formatErr e

end Gopatch
