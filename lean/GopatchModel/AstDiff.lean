/-
  AstDiff.lean — model of internal/astdiff (snapshot values, changeFinder.Walk /
  walkStruct / walkSlice, alignSlices, nodeComparer) and of internal/diff
  (Difference, path.connect): which source regions a change is attributed to,
  and which comment associations are carried over to the next snapshot.

  A snapshot value (`astdiff.value`) is reflected as `AV`: its type name, its
  kind, whether it is an ast.Node (then with Pos/End and the comment groups
  the comment map associates with it), nil-ness, the printed basic value, and
  the children (the one element of a pointer/interface, the elements of a
  slice, the fields of a struct).  Positions are token.Pos values (0 = NoPos).
-/
namespace Gopatch.AD

/-- `astdiff.Region` -/
structure Rg where
  pos : Nat
  stop : Nat
  deriving Repr, Inhabited, DecidableEq, BEq

/-- a comment group as the snapshot sees it: the (Pos, End) of its comments -/
abbrev CG := List (Nat × Nat)

inductive AV where
  | mk (ty : String) (kind : Nat) (isNode : Bool) (pos stop : Nat) (cms : List CG)
       (isNil : Bool) (payload : String) (elemNode : Bool) (kids : List AV)
  deriving Inhabited

def kPtr : Nat := 0
def kIface : Nat := 1
def kSlice : Nat := 2
def kStruct : Nat := 3
def kOther : Nat := 4

namespace AV
def ty : AV → String | .mk t _ _ _ _ _ _ _ _ _ => t
def kind : AV → Nat | .mk _ k _ _ _ _ _ _ _ _ => k
def isNode : AV → Bool | .mk _ _ n _ _ _ _ _ _ _ => n
def pos : AV → Nat | .mk _ _ _ p _ _ _ _ _ _ => p
def stop : AV → Nat | .mk _ _ _ _ e _ _ _ _ _ => e
def cms : AV → List CG | .mk _ _ _ _ _ c _ _ _ _ => c
def isNil : AV → Bool | .mk _ _ _ _ _ _ n _ _ _ => n
def payload : AV → String | .mk _ _ _ _ _ _ _ p _ _ => p
def elemNode : AV → Bool | .mk _ _ _ _ _ _ _ _ e _ => e
def kids : AV → List AV | .mk _ _ _ _ _ _ _ _ _ k => k
def withCms : AV → List CG → AV | .mk t k n p e _ nl pl en ks, c => .mk t k n p e c nl pl en ks
def withKids : AV → List AV → AV | .mk t k n p e c nl pl en _, ks => .mk t k n p e c nl pl en ks
end AV

def tyObject : String := "*ast.Object"
def tyCommentGroup : String := "*ast.CommentGroup"
def tyPos : String := "token.Pos"

/-- a token.Pos leaf carries its value in `pos`; valid = not NoPos -/
def posValid (v : AV) : Bool := v.pos != 0

/-! ### internal/diff -/

inductive Ed where
  | id | ux | uy | md
  deriving DecidableEq, Repr, Inhabited

structure Res where
  same : Nat := 0
  diff : Nat := 0
  deriving Repr, Inhabited, DecidableEq

def Res.equal (r : Res) : Bool := r.diff == 0
def Res.similar (r : Res) : Bool := r.same + 1 ≥ r.diff

structure Path where
  dir : Int
  x : Int
  y : Int
  es : List Ed          -- latest first
  deriving Inhabited

def Path.app (p : Path) (t : Ed) : Path :=
  match t with
  | .id => { p with x := p.x + p.dir, y := p.y + p.dir, es := t :: p.es }
  | .md => { p with x := p.x + p.dir, y := p.y + p.dir, es := t :: p.es }
  | .ux => { p with x := p.x + p.dir, es := t :: p.es }
  | .uy => { p with y := p.y + p.dir, es := t :: p.es }

/-- `path.connect`, forward direction -/
def connectFwd (f : Int → Int → Res) : Nat → Path → Int → Int → Path
  | 0, p, _, _ => p
  | n + 1, p, dx, dy =>
    if dx > p.x && dy > p.y then
      let r := f p.x p.y
      let t := if r.equal then Ed.id else if r.similar then Ed.md else if dx - p.x ≥ dy - p.y then Ed.ux else Ed.uy
      connectFwd f n (p.app t) dx dy
    else if dx > p.x then connectFwd f n (p.app .ux) dx dy
    else if dy > p.y then connectFwd f n (p.app .uy) dx dy
    else p

/-- `path.connect`, reverse direction -/
def connectRev (f : Int → Int → Res) : Nat → Path → Int → Int → Path
  | 0, p, _, _ => p
  | n + 1, p, dx, dy =>
    if p.x > dx && p.y > dy then
      let r := f (p.x - 1) (p.y - 1)
      let t := if r.equal then Ed.id else if r.similar then Ed.md else if p.y - dy ≥ p.x - dx then Ed.uy else Ed.ux
      connectRev f n (p.app t) dx dy
    else if p.x > dx then connectRev f n (p.app .ux) dx dy
    else if p.y > dy then connectRev f n (p.app .uy) dx dy
    else p

def zigzag (i : Nat) : Int := if i % 2 == 1 then -(((i : Int) + 1) / 2) else (i : Int) / 2

/-- the run of identities that follows a found match, forward -/
def runFwd (f : Int → Int → Res) : Nat → Path → Path → Path
  | 0, fwd, _ => fwd
  | n + 1, fwd, rev =>
    if fwd.x < rev.x && fwd.y < rev.y then
      if (f fwd.x fwd.y).equal then runFwd f n (fwd.app .id) rev else fwd
    else fwd

def runRev (f : Int → Int → Res) : Nat → Path → Path → Path
  | 0, _, rev => rev
  | n + 1, fwd, rev =>
    if fwd.x < rev.x && fwd.y < rev.y then
      if (f (rev.x - 1) (rev.y - 1)).equal then runRev f n fwd (rev.app .id) else rev
    else rev

structure DS where
  fwd : Path
  rev : Path
  ffx : Int
  ffy : Int
  rfx : Int
  rfy : Int
  budget : Nat
  exhausted : Bool := false
  deriving Inhabited

/-- the forward zig-zag search of one round -/
def fwdSearch (f : Int → Int → Res) (big : Nat) : Nat → Bool → Bool → Nat → DS → DS
  | 0, _, _, _, s => { s with exhausted := true }
  | n + 1, stop1, stop2, i, s =>
    if (stop1 && stop2) || s.budget == 0 then s else
    let z := zigzag i
    let px := s.ffx + z
    let py := s.ffy - z
    if px ≥ s.rev.x || py < s.fwd.y then fwdSearch f big n true stop2 (i + 1) s
    else if py ≥ s.rev.y || px < s.fwd.x then fwdSearch f big n stop1 true (i + 1) s
    else if (f px py).equal then
      let fwd := (connectFwd f big s.fwd px py).app .id
      let fwd := runFwd f big fwd s.rev
      { s with fwd := fwd, ffx := fwd.x, ffy := fwd.y }
    else fwdSearch f big n stop1 stop2 (i + 1) { s with budget := s.budget - 1 }

/-- the reverse zig-zag search of one round -/
def revSearch (f : Int → Int → Res) (big : Nat) : Nat → Bool → Bool → Nat → DS → DS
  | 0, _, _, _, s => { s with exhausted := true }
  | n + 1, stop1, stop2, i, s =>
    if (stop1 && stop2) || s.budget == 0 then s else
    let z := zigzag i
    let px := s.rfx - z
    let py := s.rfy + z
    if s.fwd.x ≥ px || s.rev.y < py then revSearch f big n true stop2 (i + 1) s
    else if s.fwd.y ≥ py || s.rev.x < px then revSearch f big n stop1 true (i + 1) s
    else if (f (px - 1) (py - 1)).equal then
      let rev := (connectRev f big s.rev px py).app .id
      let rev := runRev f big s.fwd rev
      { s with rev := rev, rfx := rev.x, rfy := rev.y }
    else revSearch f big n stop1 stop2 (i + 1) { s with budget := s.budget - 1 }

def dsDone (s : DS) : Bool := s.ffx ≥ s.rfx || s.ffy ≥ s.rfy || s.budget == 0

/-- the rounds of `Difference` -/
def rounds (f : Int → Int → Res) (big : Nat) : Nat → DS → DS
  | 0, s => { s with exhausted := true }
  | n + 1, s =>
    if dsDone s then s else
    let s := fwdSearch f big big false false 0 s
    let s := if s.rev.x - s.ffx ≥ s.rev.y - s.ffy then { s with ffx := s.ffx + 1 } else { s with ffy := s.ffy + 1 }
    if dsDone s then s else
    let s := revSearch f big big false false 0 s
    let s := if s.rfx - s.fwd.x ≥ s.rfy - s.fwd.y then { s with rfx := s.rfx - 1 } else { s with rfy := s.rfy - 1 }
    rounds f big n s

/-- `diff.Difference`; the Bool tells that the model ran out of fuel (never expected) -/
def difference (nx ny : Nat) (f : Int → Int → Res) : List Ed × Bool :=
  let big := 8 * (nx + ny) + 32
  let s0 : DS := { fwd := { dir := 1, x := 0, y := 0, es := [] }, rev := { dir := -1, x := nx, y := ny, es := [] },
                   ffx := 0, ffy := 0, rfx := nx, rfy := ny, budget := 4 * (nx + ny) }
  let s := rounds f big big s0
  let fwd := connectFwd f big s.fwd s.rev.x s.rev.y
  let fwd := s.rev.es.foldl (fun p t => p.app t) fwd
  (fwd.es.reverse, s.exhausted)

/-! ### nodeComparer -/

def Res.add (a b : Res) : Res := { same := a.same + b.same, diff := a.diff + b.diff }

def lookup (m : List (List Res)) (i j : Int) : Res :=
  if i < 0 || j < 0 then { diff := 2 } else
  match m[i.toNat]? with
  | some row => (row[j.toNat]?).getD { diff := 2 }
  | none => { diff := 2 }

/-- the accumulation of `nodeComparer.Walk` over the edit script of a slice -/
def accumulate (m : List (List Res)) : List Ed → Nat → Nat → Res → Res
  | [], _, _, acc => acc
  | .id :: es, i, j, acc => accumulate m es (i + 1) (j + 1) (acc.add (lookup m i j))
  | .md :: es, i, j, acc => accumulate m es (i + 1) (j + 1) (acc.add (lookup m i j))
  | .ux :: es, i, j, acc => accumulate m es (i + 1) j (acc.add { diff := 1 })
  | .uy :: es, i, j, acc => accumulate m es i (j + 1) (acc.add { diff := 1 })

mutual
/-- `compareNodes` -/
def cmp : AV → AV → Res
  | .mk ty k _ p _ _ nl pl _ kids, to =>
    if ty != to.ty then { diff := 2 }
    else if ty == tyObject then {}
    else if ty == tyPos then (if (p != 0) != posValid to then { diff := 1 } else { same := 1 })
    else if k == kPtr || k == kIface then
      (if nl || to.isNil then (if nl == to.isNil then { same := 1 } else { diff := 1 })
       else cmpElem kids to.kids)
    else if k == kSlice then
      let m := cmpRows kids to.kids
      let (es, _) := difference kids.length to.kids.length (lookup m)
      accumulate m es 0 0 {}
    else if k == kStruct then cmpFields kids to.kids
    else (if pl == to.payload then { same := 1 } else { diff := 1 })
def cmpElem : List AV → List AV → Res
  | f :: _, t :: _ => cmp f t
  | _, _ => {}
def cmpFields : List AV → List AV → Res
  | f :: fs, t :: ts => (cmp f t).add (cmpFields fs ts)
  | _, _ => {}
def cmpRows : List AV → List AV → List (List Res)
  | [], _ => []
  | f :: fs, ts => ts.map (fun t => cmp f t) :: cmpRows fs ts
end

/-! ### alignSlices -/

def lookahead : Nat := 64

/-- first `k` in `[j, min m (j+lookahead))` with `M[i][k]` equal -/
def findEqual (m : List (List Res)) (i : Nat) (mlen : Nat) : Nat → Nat → Option Nat
  | 0, _ => none
  | n + 1, k => if k < mlen then (if (lookup m i k).equal then some k else findEqual m i mlen n (k + 1)) else none

def gap (m : List (List Res)) (fi fj ti tj : Nat) : List Ed × Bool :=
  difference (fj - fi) (tj - ti) (fun i j => lookup m (fi + i) (ti + j))

/-- the loop of `alignSlices` over the elements of `from` -/
def alignLoop (m : List (List Res)) (n mlen : Nat) : Nat → Nat → Nat → Nat → Nat → List Ed → Bool → List Ed × Bool
  | 0, _, _, fi, ti, es, ex =>
      let (g, x) := gap m fi n ti mlen
      (es ++ g, ex || x)
  | fuel + 1, i, j, fi, ti, es, ex =>
      if i ≥ n then
        let (g, x) := gap m fi n ti mlen
        (es ++ g, ex || x)
      else match findEqual m i mlen lookahead j with
        | some k =>
            let (g, x) := gap m fi i ti k
            alignLoop m n mlen fuel (i + 1) (k + 1) (i + 1) (k + 1) (es ++ g ++ [Ed.id]) (ex || x)
        | none => alignLoop m n mlen fuel (i + 1) j fi ti es ex

def alignSlices (m : List (List Res)) (n mlen : Nat) : List Ed × Bool :=
  alignLoop m n mlen (n + 1) 0 0 0 0 [] false

/-! ### changeFinder -/

/-- `commentsFor`: the comments of the groups lying wholly before / after the node -/
def commentsFor (n : AV) : CG × CG :=
  n.cms.foldl (fun (acc : CG × CG) cg =>
    match cg.head?, cg.getLast? with
    | some first, some last =>
        let b := if last.2 ≤ n.pos then acc.1 ++ cg else acc.1
        let a := if first.1 ≥ n.stop then acc.2 ++ cg else acc.2
        (b, a)
    | _, _ => acc) ([], [])

/-- where the comments of a node stop that begin at or after the node does (at least the node's own end):
the comments that trail it, also when its end, computed from a new name, lies beyond where they begin -/
def trailEnd (n : AV) : Nat :=
  n.cms.foldl (fun acc cg =>
    match cg.head?, cg.getLast? with
    | some first, some last => if first.1 ≥ n.pos then max acc last.2 else acc
    | _, _ => acc) n.stop

/-- `starts` of walkStruct -/
def starts : Nat → List AV → List Nat
  | _, [] => []
  | lastEnd, c :: cs =>
    if c.isNode then
      c.pos :: starts (trailEnd c) cs
    else if c.ty == tyPos then
      (if c.pos != 0 then c.pos else lastEnd) :: starts lastEnd cs
    else lastEnd :: starts lastEnd cs

/-- `ends` of walkStruct, given the children paired with their starts -/
def ends (stop : Nat) : List (AV × Nat) → List Nat
  | [] => []
  | [(c, _)] => [if c.isNode then c.stop else stop]
  | (c, _) :: (c2, s2) :: rest => (if c.isNode then c.stop else s2) :: ends stop ((c2, s2) :: rest)

def fieldRegions (R : Rg) (fs : List AV) : List Rg :=
  let ss := starts R.pos fs
  let es := ends R.stop (fs.zip ss)
  (ss.zip es).map (fun p => { pos := p.1, stop := p.2 })

/-- where the region of element `n` starts before its own comments are looked at -/
def startAfter (R : Rg) (prev : Option AV) (n : AV) : Nat :=
  match prev with
  | none => R.pos
  | some pv => if (commentsFor pv).2.isEmpty then pv.stop else n.pos

/-- where the region of element `n` ends before its own comments are looked at -/
def endBefore (R : Rg) (n : AV) (next : Option AV) : Nat :=
  match next with
  | none => R.stop
  | some nx => if (commentsFor nx).1.isEmpty then nx.pos else n.stop

/-- the region of element `n` of a slice of nodes, between `prev` and `next` -/
def elemRegion (R : Rg) (prev : Option AV) (n : AV) (next : Option AV) : Rg :=
  let p := startAfter R prev n
  let e := endBefore R n next
  let (before, after) := commentsFor n
  let p := match before.getLast? with
    | some l => max p l.2
    | none => p
  let e := match after.head? with
    | some a => min e a.1
    | none => e
  { pos := p, stop := e }

def elemRegions (R : Rg) : Option AV → List AV → List Rg
  | _, [] => []
  | prev, n :: rest => elemRegion R prev n rest.head? :: elemRegions R (some n) rest

inductive Fate where
  | same (j : Nat)
  | modified (j : Nat)
  | deleted
  deriving Repr, Inhabited

def fates : List Ed → Nat → List Fate
  | [], _ => []
  | .id :: es, j => .same j :: fates es (j + 1)
  | .md :: es, j => .modified j :: fates es (j + 1)
  | .ux :: es, j => .deleted :: fates es j
  | .uy :: es, j => fates es (j + 1)

def setAt (l : List AV) (j : Nat) (v : AV) : List AV := l.set j v

/-- result of a walk: equal?, the regions reported as changed, the new snapshot value, model trouble -/
structure W where
  eq : Bool
  ch : List Rg
  to : AV
  bad : Bool := false

/-- two pointer values that point to one and the same object (the harness numbers the objects) -/
def ptrSame (k : Nat) (pl : String) (t : AV) : Bool :=
  k == kPtr && t.kind == kPtr && pl != "" && pl == t.payload

/-- `sameNode`: both values are nodes and, below the interface if there is one, the same object: a node
that was edited in place.  (The value inside an interface is never itself an interface.) -/
def sameNodeB (isn : Bool) (k : Nat) (pl : String) (kids : List AV) (t : AV) : Bool :=
  isn && t.isNode &&
  (if k == kIface && t.kind == kIface then
     match kids, t.kids with
     | a :: _, b :: _ => ptrSame a.kind a.payload b
     | _, _ => false
   else ptrSame k pl t)

mutual
/-- `changeFinder.Walk` -/
def walk (R : Rg) (src : AV) (to : AV) : W :=
  match src with
  | .mk ty k isn p _ cms nl pl en kids =>
    if ty != to.ty then { eq := false, ch := [R], to := to }
    else if ty == tyObject then { eq := true, ch := [], to := to }
    else if ty == tyCommentGroup then { eq := true, ch := [], to := to }
    else if ty == tyPos then
      (if (p != 0) != posValid to then { eq := false, ch := [R], to := to }
       else { eq := true, ch := [], to := to.withCms cms })
    else if k == kPtr || k == kIface then
      (if nl then { eq := false, ch := [], to := to }
       else if to.isNil then { eq := false, ch := [R], to := to }
       else
        let (eq, ch, ks, bad) := walkElem R kids to.kids
        let to' := to.withKids ks
        -- unchanged, or changed but one and the same node edited in place: it keeps the comments around it
        { eq := eq, ch := ch, to := if eq || sameNodeB isn k pl kids to then to'.withCms cms else to', bad := bad })
    else if k == kSlice then
      (if !en then
        (if kids.length != to.kids.length then { eq := false, ch := [R], to := to }
         else
          let (eq, ch, ks, bad) := walkPlain R kids to.kids
          let to' := to.withKids ks
          { eq := eq, ch := ch, to := if eq then to'.withCms cms else to', bad := bad })
       else
        let m := cmpRows kids to.kids
        let (es, ex) := alignSlices m kids.length to.kids.length
        let regs := elemRegions R none kids
        let (ch, ks, bad) := walkFates regs (fates es 0) kids to.kids
        let eq := es.all (· == Ed.id)
        let to' := to.withKids ks
        { eq := eq, ch := ch, to := if eq then to'.withCms cms else to', bad := bad || ex })
    else if k == kStruct then
      let (eq, ch, ks, bad) := walkFields (fieldRegions R kids) kids to.kids
      let to' := to.withKids ks
      { eq := eq, ch := ch, to := if eq then to'.withCms cms else to', bad := bad }
    else
      (if pl == to.payload then { eq := true, ch := [], to := to.withCms cms }
       else { eq := false, ch := [R], to := to })
termination_by structural src
/-- the element of a pointer or interface -/
def walkElem (R : Rg) (fs : List AV) (tl : List AV) : Bool × List Rg × List AV × Bool :=
  match fs, tl with
  | f :: _, t :: ts => let w := walk R f t; (w.eq, w.ch, w.to :: ts, w.bad)
  | _, ts => (false, [], ts, true)
termination_by structural fs
/-- the elements of a slice that does not hold nodes, pairwise under the same region -/
def walkPlain (R : Rg) (fl : List AV) (tl : List AV) : Bool × List Rg × List AV × Bool :=
  match fl, tl with
  | f :: fs, t :: ts =>
      let w := walk R f t
      let (eq, ch, ks, bad) := walkPlain R fs ts
      (w.eq && eq, w.ch ++ ch, w.to :: ks, w.bad || bad)
  | [], ts => (true, [], ts, false)
  | _ :: _, [] => (false, [], [], true)
termination_by structural fl
/-- the fields of a struct, each under its own region -/
def walkFields (rl : List Rg) (fl : List AV) (tl : List AV) : Bool × List Rg × List AV × Bool :=
  match rl, fl, tl with
  | r :: rs, f :: fs, t :: ts =>
      let w := walk r f t
      let (eq, ch, ks, bad) := walkFields rs fs ts
      (w.eq && eq, w.ch ++ ch, w.to :: ks, w.bad || bad)
  | _, [], ts => (true, [], ts, false)
  | _, _ :: _, ts => (false, [], ts, true)
termination_by structural fl
/-- the elements of a slice of nodes, each with its region and its fate in the edit script -/
def walkFates (rl : List Rg) (ftl : List Fate) (fl : List AV) (ts : List AV) : List Rg × List AV × Bool :=
  match rl, ftl, fl with
  | r :: rs, ft :: fts, f :: fs =>
      match ft with
      | .same j =>
          let ts' := match ts[j]? with
            | some t => setAt ts j (t.withCms f.cms)
            | none => ts
          let (ch, ks, bad) := walkFates rs fts fs ts'
          (ch, ks, bad || (ts[j]?).isNone)
      | .modified j =>
          (match ts[j]? with
           | some t =>
              let w := walk r f t
              let (ch, ks, bad) := walkFates rs fts fs (setAt ts j w.to)
              (w.ch ++ ch, ks, bad || w.bad)
           | none => let (ch, ks, _) := walkFates rs fts fs ts; (ch, ks, true))
      | .deleted =>
          let (ch, ks, bad) := walkFates rs fts fs ts
          (r :: ch, ks, bad)
  | _, _, [] => ([], ts, false)
  | _, _, _ :: _ => ([], ts, true)
termination_by structural fl
end

/-- `Snapshot.Diff`: walk from the root under the region of the old snapshot -/
def diff (old new : AV) : W := walk { pos := old.pos, stop := old.stop } old new

mutual
/-- the value as `snapshot(v, nil)` builds it: no comment associations -/
def strip : AV → AV
  | .mk t k n p e _ nl pl en ks => .mk t k n p e [] nl pl en (stripL ks)
def stripL : List AV → List AV
  | [] => []
  | v :: vs => strip v :: stripL vs
end

mutual
/-- number of the first value (pre-order) whose comment associations differ, if any -/
def cmsDiff : AV → AV → Nat → Option Nat × Nat
  | .mk _ _ _ _ _ c _ _ _ ks, b, n =>
    if c != b.cms then (some n, n) else cmsDiffL ks b.kids (n + 1)
def cmsDiffL : List AV → List AV → Nat → Option Nat × Nat
  | a :: as, b :: bs, n =>
      match cmsDiff a b n with
      | (some k, m) => (some k, m)
      | (none, m) => cmsDiffL as bs m
  | _, _, n => (none, n)
end

/-! ### the hypotheses of the theorems of Spec/AstDiffSpec, evaluated on real snapshots by the driver -/

def cgAllB (q : Nat → Bool) (cms : List CG) : Bool := cms.all (fun cg => cg.all (fun c => q c.1 && q c.2))

mutual
/-- `AllPos` of Spec/AstDiffSpec as a test: `a` for what can start a region, `c` for comments -/
def allPosB (a c : Nat → Bool) : AV → Bool
  | .mk ty _ isn p e cms _ _ en kids =>
      (!isn || (a p && a e)) && (!(ty == tyPos && p != 0) || a p) && cgAllB c cms &&
      (!en || kids.all (fun v => a v.pos && a v.stop)) && allPosLB a c kids
def allPosLB (a c : Nat → Bool) : List AV → Bool
  | [] => true
  | v :: vs => allPosB a c v && allPosLB a c vs
end

def leftOfB (lo : Nat) (p : Nat) : Bool := p ≤ lo
def atOrAfterB (hi : Nat) (p : Nat) : Bool := hi ≤ p

/-- `OneSide` of Spec/AstDiffSpec as a test -/
def oneSideB (lo hi : Nat) (r : Rg) (f : AV) : Bool :=
  (leftOfB lo r.pos && leftOfB lo r.stop && allPosB (leftOfB lo) (leftOfB lo) f) ||
  (atOrAfterB hi r.pos && allPosB (atOrAfterB hi) (fun _ => true) f)

/-- `Sep` of Spec/AstDiffSpec as a test -/
def sepB (lo hi : Nat) : List AV → List Rg → List Fate → Bool
  | f :: fs, r :: rs, ft :: fts =>
      (match ft with
       | .same _ => true
       | _ => oneSideB lo hi r f) && sepB lo hi fs rs fts
  | _, _, _ => true

/-- the extent of a node with the comments associated with it -/
def extentOf (n : AV) : Nat × Nat :=
  n.cms.foldl (fun acc cg => cg.foldl (fun a c => (min a.1 c.1, max a.2 c.2)) acc) (n.pos, n.stop)

/-- identical twins: cells off the diagonal of the comparison matrix that compare equal (the hypothesis `htwins` of
`untouched_elements_paired_with_themselves` asks for none) -/
def twins (m : List (List Res)) : Nat :=
  let rows := m.zipIdx
  rows.foldl (fun acc (row, i) => acc + ((row.zipIdx.filter (fun (r, k) => k != i && r.equal)).length)) 0

/-- the declarations of a file snapshot with their regions and fates, whether the two lists have the same length, and the
number of identical twins: `(decls, regions, fates, sameLength, twins)` -/
def declsOf (old new : AV) : Option (List AV × List Rg × List Fate × Bool × Nat) :=
  match old.kids, new.kids with
  | [fo], [fn] =>
      let regs := fieldRegions { pos := old.pos, stop := old.stop } fo.kids
      let trip := (fo.kids.zip regs).zip fn.kids
      match trip.find? (fun x => x.1.1.ty == "[]ast.Decl") with
      | some ((d, R), dn) =>
          let m := cmpRows d.kids dn.kids
          let es := (alignSlices m d.kids.length dn.kids.length).1
          some (d.kids, elemRegions R none d.kids, fates es 0, d.kids.length == dn.kids.length, twins m)
      | none => none
  | _, _ => none

mutual
/-- the start of every comment group associated with some value of the snapshot -/
def groupStarts : AV → List Nat
  | .mk _ _ _ _ _ cms _ _ _ ks => cms.filterMap (fun cg => cg.head?.map (·.1)) ++ groupStartsL ks
def groupStartsL : List AV → List Nat
  | [] => []
  | v :: vs => groupStarts v ++ groupStartsL vs
end

end Gopatch.AD
