/-
  Loader.lean — model of `loadPatches` (main.go) and `patchLoader` (loader.go): which patch
  sources a run reads, in which order, and where it stops.  The file system and the patch
  front end are parameters: `listContent` is what the `-P` file holds (none: it cannot be
  opened), `good` says whether a source opens, parses and compiles.
-/
namespace Gopatch.Load

abbrev Bytes := List UInt8

/-- `bufio.ScanLines` drops one trailing carriage return of a line -/
def dropCR (l : Bytes) : Bytes :=
  match l.getLast? with
  | some 13 => l.dropLast
  | _ => l

/-- the tokens of `bufio.Scanner` with `ScanLines` (lines longer than the scanner's buffer aside): the text between
newlines, a last unterminated line if it is not empty -/
def scanFrom : Bytes → Bytes → List Bytes
  | acc, [] => if acc.isEmpty then [] else [dropCR acc.reverse]
  | acc, b :: bs => if b == 10 then dropCR acc.reverse :: scanFrom [] bs else scanFrom (b :: acc) bs

def scanLines (content : Bytes) : List Bytes := scanFrom [] content

inductive Src where
  | stdin
  | file (path : Bytes)
  deriving DecidableEq, Repr, Inhabited

/-- the sources `loadPatches` goes through: standard input when neither `-p` nor `-P` is given, then the `-p` files in
the order of the command line, then the non-empty lines of the `-P` file in their order (paths as written: blanks are
part of them, nothing is a comment) -/
def plan (patches : List Bytes) (listPath : Bytes) (listContent : Option Bytes) : List Src × Bool :=
  let head := if patches.isEmpty && listPath.isEmpty then [Src.stdin] else []
  let flags := patches.map Src.file
  if listPath.isEmpty then (head ++ flags, true)
  else match listContent with
    | none => (head ++ flags, false)            -- the list itself cannot be opened: an error after the `-p` files
    | some c => (head ++ flags ++ ((scanLines c).filter (fun l => !l.isEmpty)).map Src.file, true)

/-- loading stops at the first source that does not load: what was loaded before it, and the source that failed -/
def loadAll (good : Src → Bool) : List Src → List Src × Option Src
  | [] => ([], none)
  | s :: ss =>
      if good s then
        let (l, e) := loadAll good ss
        (s :: l, e)
      else ([], some s)

/-- `loadPatches`: the programs in order, or the error (the failing source, or the list file itself) -/
inductive Outcome where
  | loaded (srcs : List Src)
  | failed (at_ : Option Src)       -- none: the `-P` file cannot be opened
  deriving DecidableEq, Repr, Inhabited

def loadPatches (good : Src → Bool) (patches : List Bytes) (listPath : Bytes) (listContent : Option Bytes) : Outcome :=
  let (srcs, listOk) := plan patches listPath listContent
  match loadAll good srcs with
  | (_, some s) => .failed (some s)
  | (l, none) => if listOk then .loaded l else .failed none

end Gopatch.Load
