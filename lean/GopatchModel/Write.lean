/-
  Write.lean — the byte-level contract of how main.go stores a patched file:
  `writeFileAtomic` = create a temporary file in the same directory, write the
  data in chunks, chmod, close, rename over the target.  A fault or a crash
  may occur before every step.  File contents are modelled as the list of
  chunks written so far.  The kernel's semantics of write/rename are the
  model's assumptions (rename replaces the target atomically).
-/
namespace Gopatch

structure Disk where
  target : List String
  tmp : Option (List String)
  deriving Repr, DecidableEq, Inhabited

inductive WStep where
  | create
  | write (chunk : String)
  | chmod
  | close
  | rename
  deriving Repr, Inhabited, DecidableEq

def wstep (d : Disk) : WStep → Disk
  | .create => { d with tmp := some [] }
  | .write c => { d with tmp := d.tmp.map (· ++ [c]) }
  | .chmod => d
  | .close => d
  | .rename => match d.tmp with
      | some t => { target := t, tmp := none }
      | none => d

def preSteps (chunks : List String) : List WStep :=
  .create :: (chunks.map .write ++ [.chmod, .close])

def atomicSteps (chunks : List String) : List WStep := preSteps chunks ++ [.rename]

def runSteps (d : Disk) (steps : List WStep) : Disk := steps.foldl wstep d

/-- the error path of writeFileAtomic: the temporary file is removed -/
def cleanup (d : Disk) : Disk := { d with tmp := none }

/-- the former behaviour (os.WriteFile): truncate the target, then write it in place -/
inductive IStep where
  | truncate
  | write (chunk : String)
  deriving Repr, Inhabited, DecidableEq

def istep (t : List String) : IStep → List String
  | .truncate => []
  | .write c => t ++ [c]

def inplaceSteps (chunks : List String) : List IStep := .truncate :: chunks.map .write

end Gopatch
