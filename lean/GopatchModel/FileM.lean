import GopatchModel.Engine
/-
  FileM.lean — model of internal/engine/file.go, import.go, change.go
  (connectDots) and of the per-file loop that applies a sequence of changes.
-/
namespace Gopatch

/-- one side of a change: `pgo.File` -/
structure PFile where
  pkg : String
  imports : List (Option String × String)       -- (name?, path) in source order
  kind : String                                  -- "expr" | "gendecl" | "funcdecl" | "stmts"
  node : V                                       -- for "stmts": `.slice "ast.Stmt" list`
  deriving Inhabited

structure Change where
  mt : Meta
  minus : PFile
  plus : PFile
  startKey : Nat
  endKey : Nat
  deriving Inhabited

/-- the target file -/
structure FileM where
  pkg : String
  imports : List (Option String × String)        -- `f.Imports` order
  tree : V                                       -- the `*ast.File` node
  nextId : Nat
  deriving Inhabited

/-! ### dots discovered by compilation, and their association -/
mutual
def collectDots : V → List Nat
  | .iface _ v => collectDots v
  | .slice e vs => if dotsElem e then collectSeq e vs else collectDotsL vs
  | .ptr t _ fs =>
      if ignoredPtr t then []
      else match forDotsKeyOf t fs with
        | some k => k :: collectNth fs 4
        | none => collectDotsL fs
  | _ => []
def collectDotsL : List V → List Nat
  | [] => []
  | v :: vs => collectDots v ++ collectDotsL vs
def collectSeq (e : String) : List V → List Nat
  | [] => []
  | v :: vs => match dotsKeyOf e v with
      | some k => k :: collectSeq e vs
      | none => collectDots v ++ collectSeq e vs
def collectNth : List V → Nat → List Nat
  | [], _ => []
  | v :: _, 0 => collectDots v
  | _ :: vs, i+1 => collectNth vs i
end

def mkDotsStmt (k : Nat) : V :=
  .iface "ast.Stmt" (.ptr "ast.ExprStmt" 0 [.iface "ast.Expr" (.ptr "pgo.Dots" 0 [.nilI "ast.Expr", .pos true k])])

/-- the list compiled for a top-level statement pattern -/
def stmtPattern (c : Change) (side : PFile) : V :=
  match side.node with
  | .slice e l => if l.isEmpty then .nilS e else .slice e (mkDotsStmt c.startKey :: l ++ [mkDotsStmt c.endKey])
  | v => v

def sidePattern (c : Change) (side : PFile) : V :=
  if side.kind == "stmts" then stmtPattern c side else side.node

def insertAsc (x : Nat) : List Nat → List Nat
  | [] => [x]
  | y :: ys => if x ≤ y then x :: y :: ys else y :: insertAsc x ys
def sortAsc (l : List Nat) : List Nat := l.foldr insertAsc []

def nbStep (r : Nat) (acc : Option Nat) (l : Nat) : Option Nat :=
  if l ≤ r then (match acc with | some a => if a ≤ l then some l else some a | none => some l) else acc

/-- greatest element of `lhs` that is ≤ `r` -/
def nearestBefore (lhs : List Nat) (r : Nat) : Option Nat := lhs.foldl (nbStep r) none

/-- `connectDots`: walk the '+' dots in ascending patch order; stop at the first one that
has no '-' dots at or before it, or that is already associated. -/
def connectDotsGo (lhs : List Nat) : List Nat → List (Nat × Nat) → List (Nat × Nat)
  | [], conns => conns
  | r :: rs, conns =>
      match nearestBefore lhs r with
      | none => conns
      | some l => if (conns.lookup r).isSome then conns else connectDotsGo lhs rs ((r, l) :: conns)

def connectDots (lhs rhs : List Nat) : List (Nat × Nat) := connectDotsGo lhs (sortAsc rhs) []

def Change.assoc (c : Change) : List (Nat × Nat) :=
  connectDots (collectDots (sidePattern c c.minus)) (collectDots (sidePattern c c.plus))

/-! ### imports -/

def mkIdent (name : String) : V := .ptr "ast.Ident" 0 [.pos true 0, .str name, .nilP "ast.Object"]

/-- the names under which the file imports `path`, in `f.Imports` order -/
def importCandidates (imps : List (Option String × String)) (path : String) : List (Option String) :=
  (imps.filter (fun p => p.2 == path)).map (·.1)

/-- `ImportMatcher.matchSpec`: one import of the patch against one import of the same path -/
def matchSpec (mt : Meta) (pat : Option String × String) (fname : Option String) (d : Data) : Option Data :=
  match pat.1 with
  | none => if fname.isNone then some d else none
  | some nameS =>
    match fname with
    | none =>
        if mt.look nameS != some Kind.ident then none
        else
          let d := { d with impMv := (nameS, true) :: d.impMv }
          let d := { d with imp := (pat.2, { name := nameS, mvKey := some nameS }) :: d.imp }
          matchMetavar .ident nameS (mkIdent nameS) d
    | some fn =>
        let d := { d with imp := (pat.2, { name := fn, mvKey := none }) :: d.imp }
        match mt.look nameS with
        | some k => matchMetavar k nameS (mkIdent fn) d
        | none => if nameS == fn then some d else none

/-- `ImportMatcher.Match` (after the `fix:` that tries every import of the path) -/
def matchImport (mt : Meta) (pat : Option String × String) (f : FileM) (d : Data) : Option Data :=
  firstSome (importCandidates f.imports pat.2) (fun fname => matchSpec mt pat fname d)

def matchImports (mt : Meta) : List (Option String × String) → FileM → Data → Option Data
  | [], _, d => some d
  | p :: ps, f, d => (matchImport mt p f d).bind (matchImports mt ps f)

/-- `filepath.Base` for slash-separated import paths -/
def pathBase (p : String) : String :=
  let cs := p.toList
  let cs := (cs.reverse.dropWhile (· == '/')).reverse
  if cs.isEmpty then (if p.isEmpty then "." else "/")
  else String.ofList ((cs.reverse.takeWhile (· != '/')).reverse)

/-! ### traversal (astutil.Apply pre-order) and sites -/

structure Site where
  parent : Nat
  field : Nat
  index : Option Nat
  slotTy : String
  data : Data
  deriving Inhabited

def skipNode (t : String) : Bool := t == "ast.Object" || t == "ast.Scope" || t == "ast.CommentGroup"

mutual
def sitesV (nm : V → Option Data) (pid fld : Nat) (idx : Option Nat) (slotTy : String) : V → List Site
  | .iface _ x => sitesV nm pid fld idx slotTy x
  | .ptr t id fs =>
      if skipNode t then []
      else
        (match nm (.ptr t id fs) with
         | some d => [{ parent := pid, field := fld, index := idx, slotTy := slotTy, data := d }]
         | none => []) ++ sitesFields nm id 0 fs
  | .slice _ vs => sitesElems nm pid fld 0 vs
  | _ => []
def sitesFields (nm : V → Option Data) (id k : Nat) : List V → List Site
  | [] => []
  | f :: fs => sitesV nm id k none f.tyOf f ++ sitesFields nm id (k+1) fs
def sitesElems (nm : V → Option Data) (pid fld i : Nat) : List V → List Site
  | [] => []
  | v :: vs => sitesV nm pid fld (some i) v.tyOf v ++ sitesElems nm pid fld (i+1) vs
end

def stmtFieldIdx (t : String) : Option Nat :=
  if t == "ast.BlockStmt" then some 1
  else if t == "ast.CaseClause" || t == "ast.CommClause" then some 3
  else none

/-- the node matcher of a change (`FileMatcher.NodeMatcher`) applied with incoming data `d` -/
def nodeMatch (c : Change) (d : Data) (n : V) : Option Data :=
  if c.minus.kind == "stmts" then
    match n with
    | .ptr t _ fs =>
        (match stmtFieldIdx t with
         | some si =>
             (match fs[si]? with
              | some sv => matchV c.mt (stmtPattern c c.minus) sv
                             { d with stmt := some { ty := t, stmtIdx := si, fields := fs } }
              | none => none)
         | none => none)
    | _ => none
  else matchV c.mt c.minus.node n d

/-- `FileMatcher.Match` -/
def fileMatch (c : Change) (f : FileM) : Option (Data × List Site) :=
  if c.minus.pkg != "" && c.minus.pkg != f.pkg then none
  else match matchImports c.mt c.minus.imports f Data.empty with
    | none => none
    | some d =>
        let d := { d with matched := some (c.minus.imports.map (·.2)) }
        let sites := match f.tree with
          | .ptr _ id fs => sitesFields (nodeMatch c d) id 0 fs
          | _ => []
        if sites.isEmpty then none else some (d, sites)

/-- `NodeReplacer.Replace(m.data, cl, m.region.Pos)` -/
def nodeReplace (c : Change) (assoc : List (Nat × Nat)) (d : Data) : R V :=
  if c.plus.kind == "stmts" then
    match d.stmt with
    | none => throw (.err "no statement matches found")
    | some sd => do
        let stmts ← replaceV c.mt assoc (stmtPattern c c.plus) d true
        pure (.ptr sd.ty 0 (sd.fields.set sd.stmtIdx stmts))
  else replaceV c.mt assoc c.plus.node d true

def modifyAt {α} (f : α → α) : List α → Nat → List α
  | [], _ => []
  | a :: as, 0 => f a :: as
  | a :: as, i+1 => a :: modifyAt f as i

/-- store `nv` in a slot currently holding `old` (interface slots wrap the pointer) -/
def wrapFor (old nv : V) : V :=
  match old with
  | .iface i _ => .iface i nv
  | .nilI i => .iface i nv
  | _ => nv

def setField (fs : List V) (fld : Nat) (idx : Option Nat) (nv : V) : List V :=
  modifyAt (fun slot =>
    match idx with
    | none => wrapFor slot nv
    | some i => match slot with
        | .slice e vs => .slice e (modifyAt (fun o => wrapFor o nv) vs i)
        | s => s) fs fld

mutual
/-- `parent.field[index] = nv` for every occurrence of the node with identity `pid` -/
def setV (pid fld : Nat) (idx : Option Nat) (nv : V) : V → V
  | .iface i v => .iface i (setV pid fld idx nv v)
  | .slice e vs => .slice e (setVs pid fld idx nv vs)
  | .ptr t id fs =>
      let fs' := setVs pid fld idx nv fs
      if id == pid then .ptr t id (setField fs' fld idx nv) else .ptr t id fs'
  | v => v
def setVs (pid fld : Nat) (idx : Option Nat) (nv : V) : List V → List V
  | [] => []
  | v :: vs => setV pid fld idx nv v :: setVs pid fld idx nv vs
end

mutual
/-- does the tree contain a node with identity `pid`? -/
def hasId (pid : Nat) : V → Bool
  | .iface _ v => hasId pid v
  | .slice _ vs => hasIdL pid vs
  | .ptr _ id fs => id == pid || hasIdL pid fs
  | _ => false
def hasIdL (pid : Nat) : List V → Bool
  | [] => false
  | v :: vs => hasId pid v || hasIdL pid vs
end

/- `usesNameAsTopLevel` -/
mutual
def usesName (name : String) : V → Bool
  | .iface _ v => usesName name v
  | .slice _ vs => usesNameL name vs
  | .ptr t _ fs =>
      if skipNode t then false
      else if t == "ast.SelectorExpr" then
        (match fs with
         | [.iface _ (.ptr tx _ [_, .str n, obj]), _] =>
             if tx == "ast.Ident" then n == name && obj.isNil else usesNameL name fs
         | _ => usesNameL name fs)
      else usesNameL name fs
  | _ => false
def usesNameL (name : String) : List V → Bool
  | [] => false
  | v :: vs => usesName name v || usesNameL name vs
end

/- give fresh identities to the nodes built by a replacement -/
mutual
def renumV : V → Nat → V × Nat
  | .iface i v, n => let (v', n') := renumV v n; (.iface i v', n')
  | .slice e vs, n => let (vs', n') := renumVs vs n; (.slice e vs', n')
  | .ptr t id fs, n =>
      if id == 0 then let (fs', n') := renumVs fs (n+1); (.ptr t n fs', n')
      else let (fs', n') := renumVs fs n; (.ptr t id fs', n')
  | v, n => (v, n)
def renumVs : List V → Nat → List V × Nat
  | [], n => ([], n)
  | v :: vs, n => let (v', n1) := renumV v n; let (vs', n2) := renumVs vs n1; (v' :: vs', n2)
end

def applySites (c : Change) (assoc : List (Nat × Nat)) : List Site → V → R V
  | [], tree => pure tree
  | s :: ss, tree => do
      let give ← nodeReplace c assoc s.data
      let tree' := if assignable give s.slotTy then setV s.parent s.field s.index give tree else tree
      applySites c assoc ss tree'

/-- the (name, pkgName) pair `ImportReplacer.Replace` computes -/
def importNames (c : Change) (d : Data) (imp : Option String × String) : R (Option String × String) :=
  match imp.1 with
  | none => .ok (none, pathBase imp.2)
  | some nameS =>
      let isMv := c.mt.look nameS == some Kind.ident
      let unnamed := isMv && (d.impMv.lookup nameS == some true)
      if unnamed then .ok (none, nameS)
      else if (c.mt.look nameS).isSome then
        (match d.lookMv nameS with
         | some (.ptr t _ fs) =>
             if t == "ast.Ident" then .ok (some (identName fs), identName fs)
             else .error (.err "import name is not an identifier")
         | some _ => .error (.err "import name is not an identifier")
         | none => .error (.err s!"could not find value for metavariable {nameS}"))
      else .ok (some nameS, nameS)

def normName : Option String → Option String
  | some "" => none
  | n => n

/-- `ImportReplacer.Replace`: returns the new import list and the package name added, if any -/
def addImport (c : Change) (d : Data) (imp : Option String × String)
    (imps : List (Option String × String)) : R (List (Option String × String) × Option String) :=
  (importNames c d imp).bind (fun np =>
    if imps.contains (normName np.1, imp.2) then .ok (imps, none)
    else .ok (imps ++ [(normName np.1, imp.2)], if np.2.isEmpty then none else some np.2))

def addImports (c : Change) (d : Data) : List (Option String × String) →
    List (Option String × String) → List String → R (List (Option String × String) × List String)
  | [], imps, names => pure (imps, names)
  | i :: is, imps, names => do
      let (imps', n) ← addImport c d i imps
      addImports c d is imps' (match n with | some x => names ++ [x] | none => names)

/-- names under which `Cleanup` looks at one matched import: (pkgName, importName) -/
def cleanupNames (d : Data) (path : String) : String × Option String :=
  let (pkgName, importName) : String × String :=
    match d.imp.lookup path with
    | some idata =>
        let unnamed := match idata.mvKey with
          | some k => d.impMv.lookup k == some true
          | none => false
        (idata.name, if unnamed then "" else idata.name)
    | none => ("", "")
  (if pkgName.isEmpty then pathBase path else pkgName, if importName.isEmpty then none else some importName)

/-- one iteration of the loop of `Cleanup`: delete the matched import if it was replaced by
name or its package name is no longer referred to -/
def cleanupStep (d : Data) (tree : V) (newNames : List String) (path : String)
    (imps : List (Option String × String)) : List (Option String × String) :=
  let nm := cleanupNames d path
  if newNames.contains nm.1 || !usesName nm.1 tree
  then imps.filter (fun p => !(p.1 == nm.2 && p.2 == path)) else imps

/-- `ImportsReplacer.Cleanup` -/
def cleanupImports (d : Data) (tree : V) (newNames : List String) :
    List String → List (Option String × String) → List (Option String × String)
  | [], imps => imps
  | path :: ps, imps => cleanupImports d tree newNames ps (cleanupStep d tree newNames path imps)

/-- `file.Name.Name = r.Package` -/
def renamePkg (tree : V) (pkg : String) : V :=
  match tree with
  | .ptr t id (doc :: pk :: .ptr ti iid [p, _, o] :: rest) => .ptr t id (doc :: pk :: .ptr ti iid [p, .str pkg, o] :: rest)
  | v => v

/-! ### the import declarations inside the tree

`astutil.AddNamedImport` puts a new `ImportSpec` into the first import declaration and merges every other
import declaration into it; `DeleteNamedImport` removes the spec (and a declaration that becomes empty).  Later
changes of the same run see those nodes (a bare expression metavariable matches the path literal of an import),
so the tree has to follow the list `f.imports`.  Placement inside the declaration does not matter to any
observation (sites are replaced independently; import declarations are compared as a multiset). -/

def isImportGenDecl : V → Bool
  | .iface _ (.ptr t _ (_ :: _ :: .int tok :: _)) => t == "ast.GenDecl" && tok == tokIMPORT
  | _ => false

/-- (name?, path) of an `ImportSpec` element of `GenDecl.Specs` -/
def specKey : V → Option (Option String × String)
  | .iface _ (.ptr t _ [_, nm, .ptr _ _ [_, _, .str lit], _, _]) =>
      if t == "ast.ImportSpec" then
        let name := match nm with
          | .ptr _ _ [_, .str n, _] => some n
          | _ => none
        let cs := lit.toList
        some (name, String.ofList ((cs.drop 1).take (cs.length - 2)))
      else none
  | _ => none

def specsOf : V → List V
  | .iface _ (.ptr _ _ (_ :: _ :: _ :: _ :: .slice _ specs :: _)) => specs
  | _ => []

def mkImportSpec (imp : Option String × String) : V :=
  .iface "ast.Spec" (.ptr "ast.ImportSpec" 0 [.nilP "ast.CommentGroup",
    (match imp.1 with
     | some n => .ptr "ast.Ident" 0 [.pos true 0, .str n, .nilP "ast.Object"]
     | none => .nilP "ast.Ident"),
    .ptr "ast.BasicLit" 0 [.pos true 0, .int 9, .str ("\"" ++ imp.2 ++ "\"")],
    .nilP "ast.CommentGroup", .pos true 0])

/-- remove the first element whose key is `k` -/
def eraseSpec (k : Option String × String) : List V → List V
  | [] => []
  | s :: ss => if specKey s == some k then ss else s :: eraseSpec k ss

def withSpecs (decl : V) (specs : List V) : V :=
  match decl with
  | .iface i (.ptr t id (doc :: tp :: tok :: lp :: .slice e _ :: rest)) =>
      .iface i (.ptr t id (doc :: tp :: tok :: (if specs.length > 1 then .pos true 0 else lp) :: .slice e specs :: rest))
  | v => v

def newImportDecl (specs : List V) : V :=
  .iface "ast.Decl" (.ptr "ast.GenDecl" 0 [.nilP "ast.CommentGroup", .pos true 0, .int tokIMPORT,
    .pos (decide (specs.length > 1)) 0, .slice "ast.Spec" specs, .pos false 0])

/-- delete the specs of the imports in `gone` (one each) from the declarations; drop declarations left empty -/
def deleteSpecs (gone : List (Option String × String)) (decls : List V) : List V :=
  let step := fun (ds : List V) (k : Option String × String) =>
    -- the first import declaration that has such a spec loses it
    let rec go : List V → Bool → List V
      | [], _ => []
      | d :: rest, done =>
          if !done && isImportGenDecl d && (specsOf d).any (fun s => specKey s == some k) then
            withSpecs d (eraseSpec k (specsOf d)) :: go rest true
          else d :: go rest done
    go ds false
  (gone.foldl step decls).filter (fun d => !(isImportGenDecl d && (specsOf d).isEmpty))

/-- add specs for the imports in `added`: every import declaration is merged into the first one (a new one at the
front if there is none), the new specs are appended to it -/
def addSpecs (added : List (Option String × String)) (decls : List V) : List V :=
  if added.isEmpty then decls else
  let allSpecs := (decls.filter isImportGenDecl).flatMap specsOf ++ added.map mkImportSpec
  match decls.find? isImportGenDecl with
  | none => newImportDecl allSpecs :: decls
  | some first =>
      let merged := withSpecs first allSpecs
      let rec go : List V → Bool → List V
        | [], _ => []
        | d :: rest, seen =>
            if isImportGenDecl d then (if seen then go rest true else merged :: go rest true)
            else d :: go rest seen
      go decls false

def diffImports (a b : List (Option String × String)) : List (Option String × String) :=
  a.filter (fun x => !b.contains x)

/-- make the import declarations of the tree follow the change of the import list from `old` to `new` -/
def syncImports (tree : V) (old new : List (Option String × String)) : V :=
  match tree with
  | .ptr t id (doc :: pk :: nm :: .slice e decls :: rest) =>
      let decls1 := addSpecs (diffImports new old) decls
      let decls2 := deleteSpecs (diffImports old new) decls1
      .ptr t id (doc :: pk :: nm :: .slice e decls2 :: rest)
  | v => v

inductive Outcome where
  | noMatch
  | ok (f : FileM) (nsites : Nat)
  | fail (e : Err)
  deriving Inhabited

/-- one change on one file: `Change.Match` then `Change.Replace` -/
def applyChange (c : Change) (f : FileM) : Outcome :=
  match fileMatch c f with
  | none => .noMatch
  | some (d, sites) =>
      let assoc := c.assoc
      let pkg := if c.plus.pkg != "" then c.plus.pkg else f.pkg
      let tree0 := if c.plus.pkg != "" then renamePkg f.tree pkg else f.tree
      match applySites c assoc sites tree0 with
      | .error e => .fail e
      | .ok tree =>
          match addImports c d c.plus.imports f.imports [] with
          | .error e => .fail e
          | .ok (imps, names) =>
              let imps' := cleanupImports d tree names (d.matched.getD []) imps
              let (tree', n') := renumV (syncImports tree f.imports imps') f.nextId
              .ok { pkg := pkg, imports := imps', tree := tree', nextId := n' } sites.length

/-- `patchRunner.Apply` (CLI): all changes in order on the same tree; the first failing
Replace aborts with the file reported unmatched. Returns (result, matched?, error?). -/
def applyChangesCli : List Change → FileM → Bool → FileM × Bool × Option Err
  | [], f, m => (f, m, none)
  | c :: cs, f, m =>
      match applyChange c f with
      | .noMatch => applyChangesCli cs f m
      | .ok f' _ => applyChangesCli cs f' true
      | .fail e => (f, false, some e)

/-- `patch.File.Apply` (library): the same loop, except that a refused change does not end it - its error is recorded
(`errors.Join`) and the next change is tried on the tree as the refused one left it. What that tree is the model does not
say (`Replace` edits in place and undoes nothing): `dmg` stands for it, and what is proved about the loop holds for every
`dmg`. In the end any recorded error makes `Apply` return the errors and no bytes. -/
def applyChangesApi (dmg : Change → FileM → FileM) : List Change → FileM → Bool → List Err → FileM × Bool × List Err
  | [], f, m, es => (f, m, es)
  | c :: cs, f, m, es =>
      match applyChange c f with
      | .noMatch => applyChangesApi dmg cs f m es
      | .ok f' _ => applyChangesApi dmg cs f' true es
      | .fail e => applyChangesApi dmg cs (dmg c f) m (es ++ [e])

end Gopatch
