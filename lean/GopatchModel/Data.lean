import GopatchModel.Tree
/-
  Data.lean — model of `internal/data` as used by the engine: a persistent,
  newest-first association store.  The Go code uses one untyped store with
  distinct key *types*; the model keeps one association list per key type,
  which is equivalent because Go map/equality on keys of different dynamic
  types never collide.
-/
namespace Gopatch

inductive Kind where
  | expr | ident
  deriving DecidableEq, Repr, Inhabited

abbrev Meta := List (String × Kind)

def Meta.look (m : Meta) (n : String) : Option Kind := m.lookup n

/-- what `ForDotsMatcher` records -/
structure ForData where
  ty : String
  bodyIdx : Nat
  fields : List V
  deriving Inhabited

/-- what `stmtSliceContainerMatcher` records -/
structure StmtData where
  ty : String
  stmtIdx : Nat
  fields : List V
  deriving Inhabited

/-- `importData` -/
structure ImpData where
  name : String
  mvKey : Option String
  deriving Inhabited

structure Data where
  mv      : List (String × V) := []             -- metavarKey ↦ captured value
  dots    : List (Nat × List V) := []           -- sliceDotsKey ↦ skipped run
  fors    : List (Nat × ForData) := []          -- forDotsKey ↦ header
  stmt    : Option StmtData := none             -- stmtListKey
  posm    : List Nat := []                      -- posMatchKey (patch line/col) that were matched
  impMv   : List (String × Bool) := []          -- importMetavarKey ↦ Unnamed
  imp     : List (String × ImpData) := []       -- importKey(path)
  matched : Option (List String) := none        -- importsKey
  deriving Inhabited

namespace Data
def empty : Data := {}
def pushMv (d : Data) (n : String) (v : V) : Data := { d with mv := (n, v) :: d.mv }
def pushDots (d : Data) (k : Nat) (run : List V) : Data := { d with dots := (k, run) :: d.dots }
def pushFor (d : Data) (k : Nat) (f : ForData) : Data := { d with fors := (k, f) :: d.fors }
def pushPos (d : Data) (k : Nat) : Data := { d with posm := k :: d.posm }
def lookMv (d : Data) (n : String) : Option V := d.mv.lookup n
def lookDots (d : Data) (k : Nat) : Option (List V) := d.dots.lookup k
def lookFor (d : Data) (k : Nat) : Option ForData := d.fors.lookup k
end Data

end Gopatch
