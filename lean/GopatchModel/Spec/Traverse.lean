import GopatchModel.FileM
/-
  Spec/Traverse.lean — the sites found in a file are exactly the nodes (in
  astutil.Apply pre-order) at which the change's node matcher succeeds, each
  tried with the same incoming data.
-/
namespace Gopatch

mutual
/-- the nodes `astutil.Apply` visits below (and including) the slot value `v`, in pre-order -/
def nodesV : V → List V
  | .iface _ x => nodesV x
  | .ptr t id fs => if skipNode t then [] else .ptr t id fs :: nodesL fs
  | .slice _ vs => nodesL vs
  | _ => []
def nodesL : List V → List V
  | [] => []
  | v :: vs => nodesV v ++ nodesL vs
end

mutual
theorem sitesV_data (nm : V → Option Data) : ∀ (v : V) (pid fld : Nat) (idx : Option Nat) (ty : String),
    (sitesV nm pid fld idx ty v).map (·.data) = (nodesV v).filterMap nm
  | .iface _ x, pid, fld, idx, ty => by
      rw [sitesV.eq_def, nodesV.eq_def]; simp only
      exact sitesV_data nm x pid fld idx ty
  | .ptr t id fs, pid, fld, idx, ty => by
      rw [sitesV.eq_def, nodesV.eq_def]; simp only
      by_cases hs : skipNode t = true
      · simp [hs]
      · simp only [hs, Bool.false_eq_true, ↓reduceIte, List.map_append, List.filterMap_cons]
        rw [sitesFields_data nm fs id 0]
        cases nm (.ptr t id fs) <;> simp
  | .slice _ vs, pid, fld, idx, ty => by
      rw [sitesV.eq_def, nodesV.eq_def]; simp only
      exact sitesElems_data nm vs pid fld 0
  | .pos _ _, _, _, _, _ => by rw [sitesV.eq_def, nodesV.eq_def]; simp
  | .str _, _, _, _, _ => by rw [sitesV.eq_def, nodesV.eq_def]; simp
  | .int _, _, _, _, _ => by rw [sitesV.eq_def, nodesV.eq_def]; simp
  | .bool _, _, _, _, _ => by rw [sitesV.eq_def, nodesV.eq_def]; simp
  | .nilP _, _, _, _, _ => by rw [sitesV.eq_def, nodesV.eq_def]; simp
  | .nilI _, _, _, _, _ => by rw [sitesV.eq_def, nodesV.eq_def]; simp
  | .nilS _, _, _, _, _ => by rw [sitesV.eq_def, nodesV.eq_def]; simp
theorem sitesFields_data (nm : V → Option Data) : ∀ (fs : List V) (id k : Nat),
    (sitesFields nm id k fs).map (·.data) = (nodesL fs).filterMap nm
  | [], _, _ => by rw [sitesFields.eq_def, nodesL.eq_def]; simp
  | f :: fs, id, k => by
      rw [sitesFields.eq_def, nodesL.eq_def]
      simp only [List.map_append, List.filterMap_append]
      rw [sitesV_data nm f id k none f.tyOf, sitesFields_data nm fs id (k + 1)]
theorem sitesElems_data (nm : V → Option Data) : ∀ (vs : List V) (pid fld i : Nat),
    (sitesElems nm pid fld i vs).map (·.data) = (nodesL vs).filterMap nm
  | [], _, _, _ => by rw [sitesElems.eq_def, nodesL.eq_def]; simp
  | v :: vs, pid, fld, i => by
      rw [sitesElems.eq_def, nodesL.eq_def]
      simp only [List.map_append, List.filterMap_append]
      rw [sitesV_data nm v pid fld (some i) v.tyOf, sitesElems_data nm vs pid fld (i + 1)]
end

end Gopatch
