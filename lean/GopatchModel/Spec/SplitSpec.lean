import GopatchModel.SplitPatch
/-
  Spec/SplitSpec.lean — what `splitPatch` guarantees about the two versions of a change:
  every line entry of a version points, in the patch file, at the very bytes that the version
  holds at the entry's offset (followed, in the version, by a newline); the lines that
  `Sec.split` hands over are slices of the patch file, so this holds for every change of every
  patch; a context line is recorded at one and the same place of the patch file in both versions.
-/
namespace Gopatch.Sec

/-- the text of the line is what the file holds at the line's offset -/
def Slice (content : Bytes) (l : Line) : Prop :=
  ∀ k, k < l.text.length → content[l.off + k]? = l.text[k]?

/-- the bytes `build` writes for a list of lines -/
def flat : List Line → Bytes
  | [] => []
  | l :: ls => l.text ++ [nl] ++ flat ls

/-- the entries `build` records, the first line starting at offset `o` of the version -/
def lps : Nat → List Line → List LinePos
  | _, [] => []
  | o, l :: ls => ⟨o, l.off⟩ :: lps (o + l.text.length + 1) ls

theorem flat_append : ∀ (xs ys : List Line), flat (xs ++ ys) = flat xs ++ flat ys
  | [], _ => rfl
  | x :: xs, ys => by simp [flat, flat_append xs ys]

theorem foldl_add (ls : List Line) : ∀ (v : Version),
    ls.foldl Version.add v = { contents := v.contents ++ flat ls, lines := v.lines ++ lps v.contents.length ls } := by
  induction ls with
  | nil => intro v; simp [flat, lps]
  | cons l ls ih =>
    intro v
    simp only [List.foldl_cons, ih, Version.add, flat, lps, List.length_append, List.length_cons, List.length_nil,
      List.append_assoc, List.cons_append, List.nil_append, Nat.zero_add, Nat.add_assoc]

theorem build_eq (ls : List Line) : build ls = { contents := flat ls, lines := lps 0 ls } := by
  unfold build
  rw [foldl_add]
  simp

/-- every entry of a version points at bytes of the file that the version repeats, newline-terminated -/
def MapsBack (content : Bytes) (v : Version) : Prop :=
  ∀ lp ∈ v.lines, ∃ n, (∀ k, k < n → v.contents[lp.off + k]? = content[lp.pos + k]? ∧ (content[lp.pos + k]?).isSome) ∧
    v.contents[lp.off + n]? = some nl

theorem lps_maps_back (content : Bytes) : ∀ (ls : List Line) (pre : Bytes), (∀ l ∈ ls, Slice content l) →
    ∀ lp ∈ lps pre.length ls, ∃ n, (∀ k, k < n → (pre ++ flat ls)[lp.off + k]? = content[lp.pos + k]? ∧ (content[lp.pos + k]?).isSome) ∧
      (pre ++ flat ls)[lp.off + n]? = some nl
  | [], _, _, lp, h => by simp [lps] at h
  | l :: ls, pre, hs, lp, h => by
    simp only [lps, List.mem_cons] at h
    rcases h with rfl | h
    · refine ⟨l.text.length, ?_, ?_⟩
      · intro k hk
        have hsl := hs l (List.mem_cons_self ..) k hk
        have : (pre ++ flat (l :: ls))[pre.length + k]? = l.text[k]? := by
          simp only [flat, List.append_assoc]
          rw [List.getElem?_append_right (by omega)]
          simp only [Nat.add_sub_cancel_left]
          rw [List.getElem?_append_left hk]
        simp only [this, hsl, true_and]
        rw [List.getElem?_eq_getElem hk]; rfl
      · simp only [flat, List.append_assoc]
        rw [List.getElem?_append_right (by omega)]
        simp only [Nat.add_sub_cancel_left]
        rw [List.getElem?_append_right (by omega)]
        simp [nl]
    · have hlen : (pre ++ (l.text ++ [nl])).length = pre.length + l.text.length + 1 := by
        simp [Nat.add_assoc]
      have ih := lps_maps_back content ls (pre ++ (l.text ++ [nl])) (fun x hx => hs x (List.mem_cons_of_mem _ hx)) lp
        (by rw [hlen]; exact h)
      simpa only [flat, List.append_assoc] using ih

/-- `build` of lines that are slices of the file maps back -/
theorem build_maps_back (content : Bytes) (ls : List Line) (hs : ∀ l ∈ ls, Slice content l) :
    MapsBack content (build ls) := by
  rw [build_eq]
  intro lp hlp
  have := lps_maps_back content ls [] hs lp (by simpa using hlp)
  simpa using this

/-- the text a line gives to a version is a slice of the file if the line is -/
theorem sideLine_slice (content : Bytes) (m : Bool) (l l' : Line) (hs : Slice content l) (h : sideLine m l = some l') :
    Slice content l' := by
  unfold sideLine at h
  cases hl : l.text with
  | nil => simp only [hl, Option.some.injEq] at h; subst h; exact hs
  | cons b rest =>
    simp only [hl] at h
    have hstrip : Slice content ⟨l.off + 1, rest⟩ := by
      intro k hk
      have := hs (k + 1) (by simp only [hl, List.length_cons]; simpa using hk)
      simp only [hl, List.getElem?_cons_succ] at this
      have e : l.off + 1 + k = l.off + (k + 1) := by omega
      simpa only [e] using this
    split at h
    · split at h
      · simp only [Option.some.injEq] at h; subst h; exact hstrip
      · exact absurd h (by simp)
    · split at h
      · split at h
        · exact absurd h (by simp)
        · simp only [Option.some.injEq] at h; subst h; exact hstrip
      · simp only [Option.some.injEq] at h; subst h; exact hs

theorem filterMap_sideLine_slice (content : Bytes) (m : Bool) (ls : List Line) (hs : ∀ l ∈ ls, Slice content l) :
    ∀ l' ∈ ls.filterMap (sideLine m), Slice content l' := by
  intro l' h
  obtain ⟨l, hl, hl'⟩ := List.mem_filterMap.1 h
  exact sideLine_slice content m l l' (hs l hl) hl'

/-- **`splitPatch` maps back.** Both versions of a body whose lines are slices of the patch file point, entry by entry,
at the bytes of the file that they repeat. -/
theorem splitPatch_maps_back (content : Bytes) (ls : List Line) (hs : ∀ l ∈ ls, Slice content l) :
    MapsBack content (splitPatch ls).1 ∧ MapsBack content (splitPatch ls).2 :=
  ⟨build_maps_back content _ (filterMap_sideLine_slice content true ls hs),
   build_maps_back content _ (filterMap_sideLine_slice content false ls hs)⟩

/-! ### the lines `Sec.split` hands over are slices of the patch file -/

theorem slice_of_pre (content pre txt post : Bytes) (h : content = pre ++ txt ++ post) :
    Slice content ⟨pre.length, txt⟩ := by
  intro k hk
  subst h
  simp only [List.append_assoc]
  rw [List.getElem?_append_right (by omega)]
  simp only [Nat.add_sub_cancel_left]
  rw [List.getElem?_append_left hk]

theorem linesFrom_slice (content : Bytes) : ∀ (rest acc : Bytes) (off : Nat) (pre : Bytes),
    content = pre ++ acc.reverse ++ rest → off = pre.length + acc.length →
    ∀ l ∈ linesFrom off acc rest, Slice content l
  | [], acc, off, pre, hc, ho, l, hl => by
    simp only [linesFrom, List.mem_singleton] at hl
    subst hl
    have : off - acc.length = pre.length := by omega
    rw [this]
    exact slice_of_pre content pre acc.reverse [] (by simpa using hc)
  | b :: bs, acc, off, pre, hc, ho, l, hl => by
    simp only [linesFrom] at hl
    split at hl
    · rcases List.mem_cons.1 hl with rfl | hl
      · have : off - acc.length = pre.length := by omega
        rw [this]
        exact slice_of_pre content pre acc.reverse (b :: bs) hc
      · refine linesFrom_slice content bs [] (off + 1) (pre ++ acc.reverse ++ [b]) ?_ ?_ l hl
        · simp only [List.reverse_nil, List.append_nil, List.append_assoc, List.cons_append, List.nil_append] at hc ⊢
          exact hc
        · simp only [List.length_append, List.length_reverse, List.length_cons, List.length_nil]; omega
    · refine linesFrom_slice content bs (b :: acc) (off + 1) pre ?_ ?_ l hl
      · simp only [List.reverse_cons, List.append_assoc, List.cons_append, List.nil_append] at hc ⊢
        exact hc
      · simp only [List.length_cons]; omega

theorem rawLines_slice (content : Bytes) : ∀ l ∈ rawLines content, Slice content l := by
  intro l hl
  have hall := linesFrom_slice content content [] 0 [] (by simp) (by simp)
  unfold rawLines at hl
  split at hl
  · split at hl
    · exact hall l (List.dropLast_subset _ hl)
    · exact hall l hl
  · simp at hl

theorem attachComments_P (P : Line → Prop) : ∀ (ls : List Line) (acc : List Bytes), (∀ l ∈ ls, P l) →
    ∀ x ∈ attachComments ls acc, P x.1
  | [], _, _, x, hx => by simp [attachComments] at hx
  | l :: ls, acc, h, x, hx => by
    simp only [attachComments] at hx
    split at hx
    · exact attachComments_P P ls _ (fun y hy => h y (List.mem_cons_of_mem _ hy)) x hx
    · rcases List.mem_cons.1 hx with rfl | hx
      · exact h l (List.mem_cons_self ..)
      · exact attachComments_P P ls _ (fun y hy => h y (List.mem_cons_of_mem _ hy)) x hx

theorem readMeta_P (P : Line → Prop) : ∀ (rest : List (Line × List Bytes)) (acc : List Line),
    (∀ x ∈ rest, P x.1) → (∀ l ∈ acc, P l) → ∀ m atl rest', readMeta rest acc = some (m, atl, rest') →
    (∀ l ∈ m, P l) ∧ (∀ x ∈ rest', P x.1)
  | [], _, _, _, _, _, _, h => by simp [readMeta] at h
  | (l, c) :: rest, acc, hr, ha, m, atl, rest', h => by
    simp only [readMeta] at h
    split at h
    · simp only [Option.some.injEq, Prod.mk.injEq] at h
      obtain ⟨rfl, _, rfl⟩ := h
      exact ⟨fun x hx => ha x (by simpa using hx), fun x hx => hr x (List.mem_cons_of_mem _ hx)⟩
    · exact readMeta_P P rest (l :: acc) (fun x hx => hr x (List.mem_cons_of_mem _ hx))
        (fun x hx => by
          rcases List.mem_cons.1 hx with rfl | hx
          · exact hr (x, c) (List.mem_cons_self ..)
          · exact ha x hx) m atl rest' h

theorem readPatch_P (P : Line → Prop) : ∀ (rest : List (Line × List Bytes)) (acc : List Line),
    (∀ x ∈ rest, P x.1) → (∀ l ∈ acc, P l) →
    (∀ l ∈ (readPatch rest acc).1, P l) ∧ (∀ x ∈ (readPatch rest acc).2, P x.1)
  | [], acc, _, ha => by
    simp only [readPatch]
    exact ⟨fun x hx => ha x (by simpa using hx), by simp⟩
  | (l, c) :: rest, acc, hr, ha => by
    simp only [readPatch]
    split
    · exact ⟨fun x hx => ha x (by simpa using hx), hr⟩
    · exact readPatch_P P rest (l :: acc) (fun x hx => hr x (List.mem_cons_of_mem _ hx))
        (fun x hx => by
          rcases List.mem_cons.1 hx with rfl | hx
          · exact hr (x, c) (List.mem_cons_self ..)
          · exact ha x hx)

theorem readProgram_P (P : Line → Prop) (u : Uni) (eofOff : Nat) : ∀ (fuel : Nat) (ls : List (Line × List Bytes)),
    (∀ x ∈ ls, P x.1) → ∀ c ∈ (readProgram u eofOff fuel ls).1, (∀ l ∈ c.patch, P l) ∧ (∀ l ∈ c.metaL, P l)
  | 0, _, _, c, hc => by simp [readProgram] at hc
  | _ + 1, [], _, c, hc => by simp [readProgram] at hc
  | fuel + 1, (h, cs) :: rest, hls, c, hc => by
    simp only [readProgram] at hc
    have hrest : ∀ x ∈ rest, P x.1 := fun x hx => hls x (List.mem_cons_of_mem _ hx)
    cases hm : readMeta rest [] with
    | none =>
      simp only [hm, List.mem_singleton] at hc
      subst hc
      exact ⟨by simp, by simp⟩
    | some t =>
      obtain ⟨m, atl, rest'⟩ := t
      simp only [hm] at hc
      obtain ⟨hmP, hrest'⟩ := readMeta_P P rest [] hrest (by simp) m atl rest' hm
      obtain ⟨hpP, hrest''⟩ := readPatch_P P rest' [] hrest' (by simp)
      rcases List.mem_cons.1 hc with rfl | hc
      · exact ⟨hpP, hmP⟩
      · exact readProgram_P P u eofOff fuel _ hrest'' c hc

/-- every patch line and every metavariable line of every change `Sec.split` returns is a line of the file -/
theorem split_lines_slices (u : Uni) (content : Bytes) :
    ∀ c ∈ (split u content).1, (∀ l ∈ c.patch, Slice content l) ∧ (∀ l ∈ c.metaL, Slice content l) := by
  intro c hc
  have hatt := attachComments_P (Slice content) (rawLines content) [] (rawLines_slice content)
  have hprog := readProgram_P (Slice content) u content.length ((attachComments (rawLines content) []).length + 1) _ hatt
  unfold split at hc
  simp only at hc
  split at hc
  · exact hprog c hc
  · exact hprog c hc

/-- **From the bytes of the patch to the two versions of every change.** Whatever the patch file holds: for every change
that sectioning finds in it, each entry of the '-' version and of the '+' version of its body points at the bytes of the
patch file which the version repeats at the entry's offset, up to the newline that ends the line in the version. A
position inside a version is therefore reported at the line and column of the same byte of the user's file. -/
theorem versions_of_every_change_map_back (u : Uni) (content : Bytes) :
    ∀ c ∈ (split u content).1, MapsBack content (splitPatch c.patch).1 ∧ MapsBack content (splitPatch c.patch).2 :=
  fun c hc => splitPatch_maps_back content c.patch (split_lines_slices u content c hc).1

/-! ### where a byte of a version is reported to stand -/

/-- the number of bytes `build` writes for the lines -/
def size : List Line → Nat
  | [] => 0
  | l :: ls => l.text.length + 1 + size ls

theorem lps_append : ∀ (xs ys : List Line) (b : Nat), lps b (xs ++ ys) = lps b xs ++ lps (b + size xs) ys
  | [], ys, b => by simp [lps, size]
  | x :: xs, ys, b => by
    simp only [List.cons_append, lps, size, lps_append xs ys]
    congr 3
    omega

theorem lps_off_ge : ∀ (xs : List Line) (b : Nat), ∀ lp ∈ lps b xs, b ≤ lp.off
  | [], _, lp, h => by simp [lps] at h
  | x :: xs, b, lp, h => by
    simp only [lps, List.mem_cons] at h
    rcases h with rfl | h
    · exact Nat.le_refl _
    · have := lps_off_ge xs _ lp h; omega

theorem lps_off_lt : ∀ (xs : List Line) (b : Nat), ∀ lp ∈ lps b xs, lp.off < b + size xs
  | [], _, lp, h => by simp [lps] at h
  | x :: xs, b, lp, h => by
    simp only [lps, List.mem_cons] at h
    rcases h with rfl | h
    · simp only [size]; omega
    · have := lps_off_lt xs _ lp h; simp only [size]; omega

/-- **A byte of a line of a version is reported where the line's text stands in the patch file, moved on by its index.**
(`AddLineColumnInfo` at the start of every line: the entry of the line itself is the last one at or before the byte.) -/
theorem positionIn_line (content : Bytes) (l1 l2 : List Line) (l : Line) (k : Nat) (hk : k ≤ l.text.length) :
    (build (l1 ++ l :: l2)).positionIn content (size l1 + k) =
      ((position content l.off).1, (position content l.off).2 + k) := by
  rw [build_eq]
  unfold Version.positionIn
  simp only [lps_append, lps, Nat.zero_add]
  have h1 : (lps 0 l1).filter (fun lp => decide (lp.off ≤ size l1 + k)) = lps 0 l1 := by
    rw [List.filter_eq_self]
    intro lp hlp
    have := lps_off_lt l1 0 lp hlp
    simp only [decide_eq_true_eq]; omega
  have h2 : (lps (size l1 + l.text.length + 1) l2).filter (fun lp => decide (lp.off ≤ size l1 + k)) = [] := by
    rw [List.filter_eq_nil_iff]
    intro lp hlp
    have := lps_off_ge l2 _ lp hlp
    simp only [decide_eq_true_eq]; omega
  rw [List.filter_append, h1, List.filter_cons]
  simp only [Nat.le_add_right, decide_true, ↓reduceIte, h2, List.getLast?_append, List.getLast?_singleton,
    Option.some_or, Nat.add_sub_cancel_left]

/-- the two versions of a body around a line that belongs to both -/
theorem splitPatch_around (a b : List Line) (l : Line) (hm : sideLine true l = some l) (hp : sideLine false l = some l) :
    splitPatch (a ++ l :: b) =
      (build (a.filterMap (sideLine true) ++ l :: b.filterMap (sideLine true)),
       build (a.filterMap (sideLine false) ++ l :: b.filterMap (sideLine false))) := by
  simp [splitPatch, List.filterMap_append, List.filterMap_cons, hm, hp]

/-- **A context line stands at one place.** A line of a change's body that starts with neither '-' nor '+' belongs to both
versions, and every byte of it - an elision written on it, for one - is reported at the same line and column of the patch
file in the '-' version and in the '+' version, whatever '-' and '+' lines precede it. (`connectDots` pairs the elisions of
the two sides by these places: an elision on a context line is paired with itself.) -/
theorem context_line_stands_at_one_place (content : Bytes) (a b : List Line) (l : Line) (k : Nat)
    (hm : sideLine true l = some l) (hp : sideLine false l = some l) (hk : k ≤ l.text.length) :
    let v := splitPatch (a ++ l :: b)
    v.1.positionIn content (size (a.filterMap (sideLine true)) + k) =
      v.2.positionIn content (size (a.filterMap (sideLine false)) + k) := by
  simp only [splitPatch_around a b l hm hp]
  rw [positionIn_line content _ _ l k hk, positionIn_line content _ _ l k hk]

/-- a line that starts with neither '-' nor '+' belongs to both versions as it is -/
theorem sideLine_context (m : Bool) (l : Line) (h : ∀ b rest, l.text = b :: rest → b ≠ minusB ∧ b ≠ plusB) :
    sideLine m l = some l := by
  unfold sideLine
  cases hl : l.text with
  | nil => rfl
  | cons b rest =>
    obtain ⟨h1, h2⟩ := h b rest hl
    simp [h1, h2]

/-! ### ... and that is where the byte stands in the patch file -/

theorem lineStartsFrom_spec : ∀ (bs : Bytes) (i s : Nat), s ∈ lineStartsFrom i bs → i < s ∧ bs[s - i - 1]? = some nl
  | [], _, _, h => by simp [lineStartsFrom] at h
  | b :: bs, i, s, h => by
    simp only [lineStartsFrom] at h
    have rec_ : s ∈ lineStartsFrom (i + 1) bs → i < s ∧ (b :: bs)[s - i - 1]? = some nl := by
      intro h'
      obtain ⟨h1, h2⟩ := lineStartsFrom_spec bs (i + 1) s h'
      refine ⟨by omega, ?_⟩
      have e : s - i - 1 = (s - (i + 1) - 1) + 1 := by omega
      rw [e, List.getElem?_cons_succ]; exact h2
    split at h
    · rename_i hb
      rcases List.mem_cons.1 h with rfl | h
      · refine ⟨by omega, ?_⟩
        have hb' : b = nl := by
          simp only [Bool.and_eq_true, beq_iff_eq] at hb; exact hb.1
        simp [hb']
      · exact rec_ h
    · exact rec_ h

/-- moving on inside a line moves the column on -/
theorem position_add (content : Bytes) (off k : Nat) (h : ∀ j, j < k → content[off + j]? ≠ some nl) :
    position content (off + k) = ((position content off).1, (position content off).2 + k) := by
  unfold position
  have hf : (lineStarts content).filter (fun x => decide (x ≤ off + k)) = (lineStarts content).filter (fun x => decide (x ≤ off)) := by
    apply List.filter_congr
    intro s hs
    simp only [lineStarts, List.mem_cons] at hs
    rcases hs with rfl | hs
    · simp
    · obtain ⟨h1, h2⟩ := lineStartsFrom_spec content 0 s hs
      by_cases hle : s ≤ off
      · simp [hle]; omega
      · have : ¬ s ≤ off + k := by
          intro hle2
          have := h (s - 1 - off) (by omega)
          apply this
          have e : off + (s - 1 - off) = s - 0 - 1 := by omega
          rw [e]; exact h2
        simp [hle, this]
  simp only [hf]
  congr 1
  have hg : ((lineStarts content).filter (fun x => decide (x ≤ off))).getLast?.getD 0 ≤ off := by
    cases hl : ((lineStarts content).filter (fun x => decide (x ≤ off))).getLast? with
    | none => simp
    | some g =>
      have := List.mem_of_getLast? hl
      simp only [List.mem_filter, decide_eq_true_eq] at this
      simpa using this.2
  omega

/-- no newline inside the text of the line -/
def NoNl (l : Line) : Prop := ∀ b ∈ l.text, b ≠ nl

theorem linesFrom_noNl : ∀ (rest acc : Bytes) (off : Nat), (∀ b ∈ acc, b ≠ nl) → ∀ l ∈ linesFrom off acc rest, NoNl l
  | [], acc, off, ha, l, hl => by
    simp only [linesFrom, List.mem_singleton] at hl
    subst hl
    intro b hb
    exact ha b (by simpa using hb)
  | b :: bs, acc, off, ha, l, hl => by
    simp only [linesFrom] at hl
    split at hl
    · rcases List.mem_cons.1 hl with rfl | hl
      · intro x hx; exact ha x (by simpa using hx)
      · exact linesFrom_noNl bs [] (off + 1) (by simp) l hl
    · rename_i hb
      refine linesFrom_noNl bs (b :: acc) (off + 1) ?_ l hl
      intro x hx
      rcases List.mem_cons.1 hx with rfl | hx
      · intro e; apply hb; simp [e]
      · exact ha x hx

theorem rawLines_noNl (content : Bytes) : ∀ l ∈ rawLines content, NoNl l := by
  intro l hl
  have hall := linesFrom_noNl content [] 0 (by simp)
  unfold rawLines at hl
  split at hl
  · split at hl
    · exact hall l (List.dropLast_subset _ hl)
    · exact hall l hl
  · simp at hl

theorem sideLine_noNl (m : Bool) (l l' : Line) (hs : NoNl l) (h : sideLine m l = some l') : NoNl l' := by
  unfold sideLine at h
  cases hl : l.text with
  | nil => simp only [hl, Option.some.injEq] at h; subst h; exact hs
  | cons b rest =>
    simp only [hl] at h
    have hstrip : NoNl ⟨l.off + 1, rest⟩ := fun x hx => hs x (by rw [hl]; exact List.mem_cons_of_mem _ hx)
    split at h
    · split at h
      · simp only [Option.some.injEq] at h; subst h; exact hstrip
      · exact absurd h (by simp)
    · split at h
      · split at h
        · exact absurd h (by simp)
        · simp only [Option.some.injEq] at h; subst h; exact hstrip
      · simp only [Option.some.injEq] at h; subst h; exact hs

/-- **Every byte of a version is reported where it stands in the patch file.** For any patch file, any change found in it
and either version `m` of its body: the byte with index `k` of the text that the body line `l` contributes is reported
(`token.File.Position` under the registered line entries) at the line and column that the same byte has in the patch
file itself. Diagnostics about the code of a patch, and the places of its elisions, are in the user's coordinates. -/
theorem version_byte_reported_where_it_stands (u : Uni) (content : Bytes) (c : Change) (hc : c ∈ (split u content).1)
    (m : Bool) (a b : List Line) (l l' : Line) (hbody : c.patch = a ++ l :: b) (hl : sideLine m l = some l')
    (k : Nat) (hk : k ≤ l'.text.length) :
    (build (a.filterMap (sideLine m) ++ l' :: b.filterMap (sideLine m))).positionIn content
        (size (a.filterMap (sideLine m)) + k) = position content (l'.off + k) := by
  rw [positionIn_line content _ _ l' k hk]
  have hmem : l ∈ c.patch := by rw [hbody]; simp
  have hsl : Slice content l' := sideLine_slice content m l l' ((split_lines_slices u content c hc).1 l hmem) hl
  have hraw : NoNl l := by
    have := readProgram_P NoNl u content.length ((attachComments (rawLines content) []).length + 1) _
      (attachComments_P NoNl (rawLines content) [] (rawLines_noNl content))
    have hc' : c ∈ (readProgram u content.length ((attachComments (rawLines content) []).length + 1)
        (attachComments (rawLines content) [])).1 := by
      unfold split at hc
      simp only at hc
      split at hc <;> exact hc
    exact (this c hc').1 l hmem
  have hnn : NoNl l' := sideLine_noNl m l l' hraw hl
  symm
  apply position_add
  intro j hj hcon
  have hjlt : j < l'.text.length := by omega
  have := hsl j hjlt
  rw [hcon, List.getElem?_eq_getElem hjlt] at this
  exact hnn _ (List.getElem_mem hjlt) (by simpa using this.symm)

/-- the version `m` of a body `a ++ l :: b` is built from exactly these lines -/
theorem version_around (m : Bool) (a b : List Line) (l l' : Line) (hl : sideLine m l = some l') :
    (a ++ l :: b).filterMap (sideLine m) = a.filterMap (sideLine m) ++ l' :: b.filterMap (sideLine m) := by
  simp [List.filterMap_append, List.filterMap_cons, hl]

/-! ### an offset of a version, seen as a byte of one of its lines -/

theorem flat_length : ∀ (ls : List Line), (flat ls).length = size ls
  | [] => rfl
  | l :: ls => by simp [flat, size, flat_length ls]; omega

/-- the bytes of the line `l` in `flat (l1 ++ l :: l2)`: its text, then the newline -/
theorem flat_line (l1 l2 : List Line) (l : Line) (j : Nat) (hj : j ≤ l.text.length) :
    (flat (l1 ++ l :: l2))[size l1 + j]? = if j < l.text.length then l.text[j]? else some nl := by
  rw [flat_append, List.getElem?_append_right (by rw [flat_length]; omega), flat_length]
  simp only [Nat.add_sub_cancel_left, flat, List.append_assoc]
  by_cases h : j < l.text.length
  · simp only [h, ↓reduceIte]
    rw [List.getElem?_append_left h]
  · have : j = l.text.length := by omega
    subst this
    simp only [Nat.lt_irrefl, ↓reduceIte]
    rw [List.getElem?_append_right (Nat.le_refl _)]
    simp

/-- every offset inside a version lies in one of its lines -/
theorem offset_split : ∀ (ls : List Line) (o : Nat), o < (flat ls).length →
    ∃ l1 l l2 k, ls = l1 ++ l :: l2 ∧ k ≤ l.text.length ∧ o = size l1 + k
  | [], o, h => by simp [flat] at h
  | l :: ls, o, h => by
    by_cases ho : o ≤ l.text.length
    · exact ⟨[], l, ls, o, rfl, ho, by simp [size]⟩
    · have hlen : (flat (l :: ls)).length = l.text.length + 1 + (flat ls).length := by
        simp [flat]; omega
      obtain ⟨l1, l', l2, k, hsplit, hk, hoff⟩ := offset_split ls (o - (l.text.length + 1)) (by omega)
      refine ⟨l :: l1, l', l2, k, by simp [hsplit], hk, ?_⟩
      simp only [size]; omega

/-- **Three dots in a version are three dots of the patch file, and that is where they are reported.** For any patch
file, any change found in it and either version `m` of its body: if the version holds `...` at offset `s`, then the place
reported for `s` is the line and column of an offset `p` of the patch file at which the file holds `...` too. -/
theorem dots_of_a_version_are_dots_of_the_file (u : Uni) (content : Bytes) (c : Change) (hc : c ∈ (split u content).1)
    (m : Bool) (s : Nat)
    (h0 : (build (c.patch.filterMap (sideLine m))).contents[s]? = some 46)
    (h1 : (build (c.patch.filterMap (sideLine m))).contents[s + 1]? = some 46)
    (h2 : (build (c.patch.filterMap (sideLine m))).contents[s + 2]? = some 46) :
    ∃ p, (build (c.patch.filterMap (sideLine m))).positionIn content s = position content p ∧
      content[p]? = some 46 ∧ content[p + 1]? = some 46 ∧ content[p + 2]? = some 46 := by
  -- the lines of the version are slices of the file without a newline
  have hsl : ∀ l' ∈ c.patch.filterMap (sideLine m), Slice content l' :=
    filterMap_sideLine_slice content m c.patch (split_lines_slices u content c hc).1
  have hraw : ∀ l ∈ c.patch, NoNl l := by
    have := readProgram_P NoNl u content.length ((attachComments (rawLines content) []).length + 1) _
      (attachComments_P NoNl (rawLines content) [] (rawLines_noNl content))
    have hc' : c ∈ (readProgram u content.length ((attachComments (rawLines content) []).length + 1)
        (attachComments (rawLines content) [])).1 := by
      unfold split at hc
      simp only at hc
      split at hc <;> exact hc
    exact (this c hc').1
  have hnn : ∀ l' ∈ c.patch.filterMap (sideLine m), NoNl l' := by
    intro l' hl'
    obtain ⟨l, hl, hside⟩ := List.mem_filterMap.1 hl'
    exact sideLine_noNl m l l' (hraw l hl) hside
  generalize c.patch.filterMap (sideLine m) = ls at *
  rw [build_eq] at h0 h1 h2
  simp only at h0 h1 h2
  have hlt : s < (flat ls).length := by
    apply Nat.lt_of_not_le
    intro hge
    rw [List.getElem?_eq_none hge] at h0
    exact absurd h0 (by simp)
  obtain ⟨l1, l', l2, k, hsplit, hk, hoff⟩ := offset_split ls s hlt
  subst hsplit
  subst hoff
  have hmem : l' ∈ l1 ++ l' :: l2 := by simp
  -- the three offsets are bytes of the text of `l'`: none of them is its newline
  have hnl46 : (nl : UInt8) ≠ 46 := by decide
  have hk0 : k < l'.text.length := by
    apply Nat.lt_of_not_le
    intro hge
    have hk' : k = l'.text.length := by omega
    have := flat_line l1 l2 l' k hk
    rw [h0, hk'] at this
    simp only [Nat.lt_irrefl, ↓reduceIte, Option.some.injEq] at this
    exact hnl46 this.symm
  have hk1 : k + 1 < l'.text.length := by
    apply Nat.lt_of_not_le
    intro hge
    have hk' : k + 1 = l'.text.length := by omega
    have := flat_line l1 l2 l' (k + 1) (by omega)
    rw [show size l1 + (k + 1) = size l1 + k + 1 by omega, h1, hk'] at this
    simp only [Nat.lt_irrefl, ↓reduceIte, Option.some.injEq] at this
    exact hnl46 this.symm
  have hk2 : k + 2 < l'.text.length := by
    apply Nat.lt_of_not_le
    intro hge
    have hk' : k + 2 = l'.text.length := by omega
    have := flat_line l1 l2 l' (k + 2) (by omega)
    rw [show size l1 + (k + 2) = size l1 + k + 2 by omega, h2, hk'] at this
    simp only [Nat.lt_irrefl, ↓reduceIte, Option.some.injEq] at this
    exact hnl46 this.symm
  refine ⟨l'.off + k, ?_, ?_, ?_, ?_⟩
  · rw [positionIn_line content l1 l2 l' k hk]
    symm
    apply position_add
    intro j hj hcon
    have hjlt : j < l'.text.length := by omega
    have := hsl l' hmem j hjlt
    rw [hcon, List.getElem?_eq_getElem hjlt] at this
    exact hnn l' hmem _ (List.getElem_mem hjlt) (by simpa using this.symm)
  · have := flat_line l1 l2 l' k hk
    rw [h0] at this
    simp only [hk0, ↓reduceIte] at this
    rw [hsl l' hmem k hk0]; exact this.symm
  · have := flat_line l1 l2 l' (k + 1) (by omega)
    rw [show size l1 + (k + 1) = size l1 + k + 1 by omega, h1] at this
    simp only [hk1, ↓reduceIte] at this
    rw [show l'.off + k + 1 = l'.off + (k + 1) by omega, hsl l' hmem (k + 1) hk1]; exact this.symm
  · have := flat_line l1 l2 l' (k + 2) (by omega)
    rw [show size l1 + (k + 2) = size l1 + k + 2 by omega, h2] at this
    simp only [hk2, ↓reduceIte] at this
    rw [show l'.off + k + 2 = l'.off + (k + 2) by omega, hsl l' hmem (k + 2) hk2]; exact this.symm

end Gopatch.Sec
