import GopatchModel.Spec.Sound
/-
  Spec/Typing.lean — what it means for a reflected value to be a well-typed Go
  syntax tree, and the one fact about `eqvM` (the matcher compiled from a
  captured value) that needs it: on well-typed values of one static type,
  "matches the same captured code" is Euclidean, so two pieces of code that both
  match a third match each other.  This is what makes the order-free notion of
  "all occurrences of a metavariable stand for identical code" agree with the
  matcher's "compare with the first occurrence".

  The schema (field types per struct type, element type per slice type) is a
  parameter: every theorem holds for every schema.  The harness dumps the schema
  of go/ast by reflection on every run and the driver checks `wtv` and `nf` on
  every tree it is given (stream `typing`).
-/
namespace Gopatch

/-- the static type of a slot, as far as the reflection engine distinguishes it -/
inductive Tag where
  | pos | str | int | bool
  | ptr (t : String)
  | iface (i : String)
  | slice (e : String)
  deriving DecidableEq, Repr, Inhabited

def V.tag : V → Tag
  | .pos _ _ => .pos
  | .str _ => .str
  | .int _ => .int
  | .bool _ => .bool
  | .nilP t => .ptr t
  | .ptr t _ _ => .ptr t
  | .nilI i => .iface i
  | .iface i _ => .iface i
  | .nilS e => .slice e
  | .slice e _ => .slice e

structure Schema where
  fields : String → Option (List Tag)   -- struct type ↦ static types of its fields
  elem : String → Tag                   -- slice element type ↦ static type of the elements

def tagsOf (vs : List V) : List Tag := vs.map V.tag

def tagsAll (t : Tag) : List V → Bool
  | [] => true
  | v :: vs => decide (v.tag = t) && tagsAll t vs

/-- a non-nil interface value holds a non-nil pointer to a node that is not a comment/object -/
def dynOK : V → Bool
  | .ptr t _ _ => !ignoredPtr t
  | _ => false

mutual
/-- well-typed with respect to the schema (comment groups and objects are opaque) -/
def wtv (sc : Schema) : V → Bool
  | .iface _ v => dynOK v && wtv sc v
  | .slice e vs => tagsAll (sc.elem e) vs && wtvs sc vs
  | .ptr t _ fs =>
      ignoredPtr t ||
      (match sc.fields t with
       | some tags => decide (tagsOf fs = tags) && wtvs sc fs
       | none => false)
  | _ => true
def wtvs (sc : Schema) : List V → Bool
  | [] => true
  | v :: vs => wtv sc v && wtvs sc vs
end

mutual
/-- go/parser's normal form: an absent list is nil, never an empty non-nil slice, for the
element types whose matcher distinguishes the two -/
def nf : V → Bool
  | .iface _ v => nf v
  | .slice e vs => (dotsElem e || !vs.isEmpty) && nfs vs
  | .ptr t _ fs => ignoredPtr t || nfs fs
  | _ => true
def nfs : List V → Bool
  | [] => true
  | v :: vs => nf v && nfs vs
end

theorem tagsAll_pair (t : Tag) : ∀ (as bs : List V), tagsAll t as = true → tagsAll t bs = true →
    as.length = bs.length → tagsOf as = tagsOf bs
  | [], [], _, _, _ => rfl
  | a :: as, b :: bs, ha, hb, hl => by
      simp only [tagsAll, Bool.and_eq_true, decide_eq_true_eq] at ha hb
      simp only [List.length_cons, Nat.add_right_cancel_iff] at hl
      simp [tagsOf, ha.1, hb.1]
      exact tagsAll_pair t as bs ha.2 hb.2 hl
  | [], _ :: _, _, _, hl => by simp at hl
  | _ :: _, [], _, _, hl => by simp at hl

theorem eqvMs_length : ∀ (cs as : List V), eqvMs cs as = true → cs.length = as.length
  | [], [], _ => rfl
  | c :: cs, a :: as, h => by
      simp only [eqvMs, Bool.and_eq_true] at h
      simp [eqvMs_length cs as h.2]
  | [], _ :: _, h => by simp [eqvMs] at h
  | _ :: _, [], h => by simp [eqvMs] at h

end Gopatch

namespace Gopatch

theorem eqvMs_nil_left : ∀ (as : List V), eqvMs [] as = true → as = []
  | [], _ => rfl
  | _ :: _, h => by simp [eqvMs] at h

/-- dynamic values of interfaces: matching forces the same node type -/
theorem dyn_tag_eq (c a : V) (hc : dynOK c = true) (ha : dynOK a = true) (h : eqvM c a = true) : c.tag = a.tag := by
  match c, hc with
  | .ptr tc _ _, hc =>
    match a, ha with
    | .ptr ta _ _, _ =>
      simp only [dynOK, Bool.not_eq_true'] at hc
      rw [eqvM.eq_def] at h
      simp only [hc, Bool.false_or, Bool.and_eq_true, beq_iff_eq] at h
      simp [V.tag, h.1]

mutual
/-- On well-typed values of one static type in parser normal form, code that matches the same
captured value matches each other. -/
theorem eqvM_euclid (sc : Schema) : ∀ (c a b : V),
    wtv sc c = true → wtv sc a = true → wtv sc b = true → nf a = true → nf b = true →
    c.tag = a.tag → c.tag = b.tag → eqvM c a = true → eqvM c b = true → eqvM a b = true
  | .pos cv ck, a, b, _, _, _, _, _, _, _, ha, hb => by
      cases a <;> simp [eqvM] at ha
      cases b <;> simp [eqvM] at hb
      simp [eqvM, ← ha, ← hb]
  | .str s, a, b, _, _, _, _, _, _, _, ha, hb => by
      cases a <;> simp [eqvM] at ha
      cases b <;> simp [eqvM] at hb
      simp [eqvM, ← ha, ← hb]
  | .int n, a, b, _, _, _, _, _, _, _, ha, hb => by
      cases a <;> simp [eqvM] at ha
      cases b <;> simp [eqvM] at hb
      simp [eqvM, ← ha, ← hb]
  | .bool n, a, b, _, _, _, _, _, _, _, ha, hb => by
      cases a <;> simp [eqvM] at ha
      cases b <;> simp [eqvM] at hb
      simp [eqvM, ← ha, ← hb]
  | .nilP t, a, b, _, _, _, _, _, ta, _, ha, hb => by
      cases a <;> simp [V.tag] at ta
      · subst ta; simpa [eqvM] using hb
      · subst ta
        rw [eqvM.eq_def] at ha; simp [V.isNil] at ha
        rw [eqvM.eq_def]; simp [ha]
  | .nilI i, a, b, _, _, _, _, _, ta, _, ha, hb => by
      cases a <;> simp [V.tag] at ta
      · subst ta; simpa [eqvM] using hb
      · rw [eqvM.eq_def] at ha; simp [V.isNil] at ha
  | .nilS e, a, b, _, _, _, _, _, ta, tb, ha, hb => by
      by_cases hd : dotsElem e = true
      · rw [eqvM.eq_def] at ha hb
        simp only [hd, ↓reduceIte] at ha hb
        match a, ta, ha with
        | .nilS e', ta, _ =>
          simp [V.tag] at ta; subst ta
          rw [eqvM.eq_def]; simp only [hd, ↓reduceIte]; exact hb
        | .slice e' [], ta, _ =>
          simp [V.tag] at ta; subst ta
          match b, tb, hb with
          | .nilS e'', tb, _ => rw [eqvM.eq_def]; simp
          | .slice e'' [], tb, _ => rw [eqvM.eq_def]; simp [eqvMs]
      · rw [eqvM.eq_def] at ha hb
        simp only [hd, Bool.false_eq_true, ↓reduceIte] at ha hb
        match a, ta, ha with
        | .nilS e', ta, _ =>
          simp [V.tag] at ta; subst ta
          rw [eqvM.eq_def]; simp only [hd, Bool.false_eq_true, ↓reduceIte]; exact hb
  | .iface i cv, a, b, wc, wa, wb, na, nb, _, _, ha, hb => by
      match a, wa, na, ha with
      | .iface ia av, wa, na, ha =>
        match b, wb, nb, hb with
        | .iface ib bv, wb, nb, hb =>
          rw [wtv.eq_def] at wc wa wb; simp only [Bool.and_eq_true] at wc wa wb
          rw [nf.eq_def] at na nb; simp only at na nb
          rw [eqvM.eq_def] at ha hb; simp only at ha hb
          rw [eqvM.eq_def]; simp only
          exact eqvM_euclid sc cv av bv wc.2 wa.2 wb.2 na nb
            (dyn_tag_eq cv av wc.1 wa.1 ha) (dyn_tag_eq cv bv wc.1 wb.1 hb) ha hb
  | .slice e cs, a, b, wc, wa, wb, na, nb, ta, tb, ha, hb => by
      rw [wtv.eq_def] at wc; simp only [Bool.and_eq_true] at wc
      cases a <;> simp [V.tag] at ta <;> cases b <;> simp [V.tag] at tb
      · -- nilS, nilS
        subst ta; subst tb
        rw [eqvM.eq_def]; by_cases hd : dotsElem e = true <;> simp [hd, V.isNil]
      · -- nilS, slice
        subst ta; subst tb
        rename_i bs
        rw [eqvM.eq_def] at ha hb; simp only at ha hb
        have hcs : cs = [] := by simpa using ha
        subst hcs
        have hbs := eqvMs_nil_left bs hb
        subst hbs
        rw [nf.eq_def] at nb; simp at nb
        rw [eqvM.eq_def]; simp [nb]
      · -- slice, nilS
        subst ta; subst tb
        rename_i as
        rw [eqvM.eq_def] at ha hb; simp only at ha hb
        have hcs : cs = [] := by simpa using hb
        subst hcs
        have has := eqvMs_nil_left as ha
        subst has
        rw [eqvM.eq_def]; simp
      · -- slice, slice
        subst ta; subst tb
        rename_i as bs
        rw [eqvM.eq_def] at ha hb; simp only at ha hb
        rw [wtv.eq_def] at wa wb; simp only [Bool.and_eq_true] at wa wb
        rw [nf.eq_def] at na nb; simp only [Bool.and_eq_true] at na nb
        rw [eqvM.eq_def]; simp only
        exact eqvMs_euclid sc cs as bs wc.2 wa.2 wb.2 na.2 nb.2
          (tagsAll_pair _ cs as wc.1 wa.1 (eqvMs_length cs as ha))
          (tagsAll_pair _ cs bs wc.1 wb.1 (eqvMs_length cs bs hb)) ha hb
  | .ptr t idc cfs, a, b, wc, wa, wb, na, nb, ta, tb, ha, hb => by
      by_cases hig : ignoredPtr t = true
      · cases a <;> simp [V.tag] at ta
        · subst ta; rw [eqvM.eq_def]; simp [hig]
        · subst ta; rw [eqvM.eq_def]; simp [hig]
      · rw [eqvM.eq_def] at ha hb; simp only [hig, Bool.false_or] at ha hb
        cases a <;> simp at ha
        cases b <;> simp at hb
        rename_i ta' ida afs tb' idb bfs
        obtain ⟨e1, ha⟩ := ha
        obtain ⟨e2, hb⟩ := hb
        subst e1; subst e2
        rw [wtv.eq_def] at wc wa wb
        simp only [hig, Bool.false_or] at wc wa wb
        rw [nf.eq_def] at na nb; simp only [hig, Bool.false_or] at na nb
        cases hs : sc.fields t with
        | none => simp [hs] at wc
        | some tags =>
          simp only [hs, Bool.and_eq_true, decide_eq_true_eq] at wc wa wb
          rw [eqvM.eq_def]; simp only [hig, Bool.false_or, beq_self_eq_true, Bool.true_and]
          exact eqvMs_euclid sc cfs afs bfs wc.2 wa.2 wb.2 na nb (wc.1.trans wa.1.symm) (wc.1.trans wb.1.symm) ha hb
theorem eqvMs_euclid (sc : Schema) : ∀ (cs as bs : List V),
    wtvs sc cs = true → wtvs sc as = true → wtvs sc bs = true → nfs as = true → nfs bs = true →
    tagsOf cs = tagsOf as → tagsOf cs = tagsOf bs → eqvMs cs as = true → eqvMs cs bs = true → eqvMs as bs = true
  | [], as, bs, _, _, _, _, _, _, _, ha, hb => by
      rw [eqvMs_nil_left as ha, eqvMs_nil_left bs hb]; simp [eqvMs]
  | c :: cs, [], _, _, _, _, _, _, _, _, ha, _ => by simp [eqvMs] at ha
  | c :: cs, _ :: _, [], _, _, _, _, _, _, _, _, hb => by simp [eqvMs] at hb
  | c :: cs, a :: as, b :: bs, wc, wa, wb, na, nb, ta, tb, ha, hb => by
      simp only [wtvs, Bool.and_eq_true] at wc wa wb
      simp only [nfs, Bool.and_eq_true] at na nb
      simp only [tagsOf, List.map_cons, List.cons.injEq] at ta tb
      simp only [eqvMs, Bool.and_eq_true] at ha hb ⊢
      exact ⟨eqvM_euclid sc c a b wc.1 wa.1 wb.1 na.1 nb.1 ta.1 tb.1 ha.1 hb.1,
             eqvMs_euclid sc cs as bs wc.2 wa.2 wb.2 na.2 nb.2 ta.2 tb.2 ha.2 hb.2⟩
end

end Gopatch
