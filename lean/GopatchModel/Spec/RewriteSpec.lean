import GopatchModel.Finder
/-
  Spec/RewriteSpec.lean — `rewrite` (internal/pgo/augment/rewrite.go) and `posAdjuster.Pos`:
  the place an elision gets in the augmented source is mapped back, by the adjustments that
  `rewrite` itself returns, to the place of its "..." in the version of the patch.

  The loop needs its augmentations in order, one after the other, inside the source, every
  elision three bytes long (`AugsOK`); the driver evaluates this on the finder's output for
  every real version (`augsOKB`, counted in the evidence).
-/
namespace Gopatch.Fnd

theorem len_dts : (strBytes "dts").length = 3 := by decide +kernel
theorem len_named : (strBytes "_ d").length = 3 := by decide +kernel
theorem len_pkg : (strBytes "package _\n").length = 10 := by decide +kernel
theorem len_func : (strBytes "func _() ").length = 9 := by decide +kernel
theorem len_brace : (strBytes "{\n").length = 2 := by decide +kernel

/-- what one iteration needs: the augmentation starts where the source is not consumed yet, lies inside the source, and an
elision covers three bytes -/
def AugOK (src : List UInt8) (pos : Nat) (a : Aug) : Prop :=
  pos ≤ a.start ∧ a.stop ≤ src.length ∧ a.start ≤ a.stop ∧
  match a with
  | .dots s e _ => e = s + 3
  | _ => True

def AugsOK (src : List UInt8) : Nat → List Aug → Prop
  | _, [] => True
  | pos, a :: as => AugOK src pos a ∧ AugsOK src a.stop as

def augOKB (src : List UInt8) (pos : Nat) (a : Aug) : Bool :=
  decide (pos ≤ a.start) && decide (a.stop ≤ src.length) && decide (a.start ≤ a.stop) &&
  match a with
  | .dots s e _ => e == s + 3
  | _ => true

def augsOKB (src : List UInt8) : Nat → List Aug → Bool
  | _, [] => true
  | pos, a :: as => augOKB src pos a && augsOKB src a.stop as

theorem augsOKB_sound (src : List UInt8) : ∀ (as : List Aug) (pos : Nat), augsOKB src pos as = true → AugsOK src pos as
  | [], _, _ => trivial
  | a :: as, pos, h => by
    simp only [augsOKB, Bool.and_eq_true] at h
    refine ⟨?_, augsOKB_sound src as _ h.2⟩
    have h1 := h.1
    simp only [augOKB, Bool.and_eq_true, decide_eq_true_eq] at h1
    refine ⟨h1.1.1.1, h1.1.1.2, h1.1.2, ?_⟩
    cases a <;> simp_all

/-- the loop invariant: the output is as long as the consumed source plus what was inserted; every adjustment lies inside
the output; the last one carries the running total -/
structure Inv (st : RwSt) : Prop where
  len : st.dst.length = st.pos + st.reduceBy
  offs : ∀ p ∈ st.adjs, p.1 < st.dst.length
  last : (st.adjs.getLast?.map (·.2)).getD 0 = st.reduceBy

theorem inv_init : Inv {} := ⟨by simp, by simp, by simp⟩

theorem copied_len (src : List UInt8) (pos start : Nat) (h1 : pos ≤ start) (h2 : start ≤ src.length) :
    ((src.drop pos).take (start - pos)).length = start - pos := by
  simp only [List.length_take, List.length_drop]; omega

/-- one iteration keeps the invariant, only appends to `out` and `adjs`, and puts new adjustments at or after the old end
of the output -/
theorem rwStep_inv (src : List UInt8) (st : RwSt) (a : Aug) (hi : Inv st) (ha : AugOK src st.pos a) :
    Inv (rwStep src st a) ∧ (rwStep src st a).pos = a.stop ∧ st.dst.length ≤ (rwStep src st a).dst.length ∧
    (∃ y, (rwStep src st a).adjs = st.adjs ++ y ∧ ∀ p ∈ y, st.dst.length ≤ p.1) ∧
    (∃ a', (rwStep src st a).out = st.out ++ [a']) := by
  obtain ⟨hpos, hstop, hse, hk⟩ := ha
  have hcl := copied_len src st.pos a.start hpos (by omega)
  cases a with
  | fakePackage s =>
    simp only [Aug.start, Aug.stop] at hpos hstop hcl ⊢
    simp only [rwStep, Aug.start, Aug.stop]
    refine ⟨⟨?_, ?_, ?_⟩, by first | rfl | trivial, ?_, ⟨[_], rfl, ?_⟩, ⟨_, rfl⟩⟩
    · simp only [List.length_append, hcl, len_pkg, hi.len]; omega
    · intro p hp
      rcases List.mem_append.1 hp with hp | hp
      · have := hi.offs p hp
        simp only [List.length_append]; omega
      · simp only [List.mem_singleton] at hp; subst hp
        simp only [List.length_append, len_pkg]; omega
    · simp
    · simp only [List.length_append]; omega
    · intro p hp; simp only [List.mem_singleton] at hp; subst hp; simp only [List.length_append]; omega
  | fakeFunc s br =>
    simp only [Aug.start, Aug.stop] at hpos hstop hcl ⊢
    simp only [rwStep, Aug.start, Aug.stop]
    refine ⟨⟨?_, ?_, ?_⟩, by first | rfl | trivial, ?_, ⟨[_], rfl, ?_⟩, ⟨_, rfl⟩⟩
    · cases br <;> simp only [List.length_append, hcl, len_func, len_brace, hi.len, List.length_nil, ↓reduceIte,
        Bool.false_eq_true] <;> omega
    · intro p hp
      rcases List.mem_append.1 hp with hp | hp
      · have := hi.offs p hp
        simp only [List.length_append]; omega
      · simp only [List.mem_singleton] at hp; subst hp
        simp only [List.length_append, len_func]; omega
    · simp
    · simp only [List.length_append]; omega
    · intro p hp; simp only [List.mem_singleton] at hp; subst hp; simp only [List.length_append]; omega
  | dots s e n =>
    simp only [Aug.start, Aug.stop] at hpos hstop hcl hse ⊢
    simp only at hk
    simp only [rwStep, Aug.start, Aug.stop]
    refine ⟨⟨?_, ?_, ?_⟩, by first | rfl | trivial, ?_, ⟨[], by simp, by simp⟩, ⟨_, rfl⟩⟩
    · cases n <;> simp only [List.length_append, hcl, len_dts, len_named, hi.len, ↓reduceIte, Bool.false_eq_true] <;> omega
    · intro p hp
      have := hi.offs p hp
      simp only [List.length_append]; omega
    · exact hi.last
    · simp only [List.length_append]; omega

/-- the whole loop: invariant at the end, `out` and `adjs` only grow, new adjustments lie at or after the old end -/
theorem fold_inv (src : List UInt8) : ∀ (as : List Aug) (st : RwSt), Inv st → AugsOK src st.pos as →
    Inv (as.foldl (rwStep src) st) ∧
    (∃ y, (as.foldl (rwStep src) st).adjs = st.adjs ++ y ∧ ∀ p ∈ y, st.dst.length ≤ p.1) ∧
    (∃ o, (as.foldl (rwStep src) st).out = st.out ++ o ∧ o.length = as.length)
  | [], st, hi, _ => ⟨hi, ⟨[], by simp, by simp⟩, ⟨[], by simp, rfl⟩⟩
  | a :: as, st, hi, hok => by
    obtain ⟨ha, hrest⟩ := hok
    obtain ⟨hi1, hp1, hlen1, ⟨y1, hy1, hy1p⟩, ⟨a', ha'⟩⟩ := rwStep_inv src st a hi ha
    have ih := fold_inv src as (rwStep src st a) hi1 (by rw [hp1]; exact hrest)
    obtain ⟨hi2, ⟨y2, hy2, hy2p⟩, ⟨o2, ho2, ho2l⟩⟩ := ih
    simp only [List.foldl_cons]
    refine ⟨hi2, ⟨y1 ++ y2, ?_, ?_⟩, ⟨a' :: o2, ?_, by simp [ho2l]⟩⟩
    · rw [hy2, hy1, List.append_assoc]
    · intro p hp
      rcases List.mem_append.1 hp with hp | hp
      · exact hy1p p hp
      · have := hy2p p hp; omega
    · rw [ho2, ha', List.append_assoc]; rfl

/-- `posAdjuster.Pos` at an offset that lies at or after every adjustment of `pre` and before every one of `post` uses
the last adjustment of `pre` -/
theorem adjust_split (pre post : List (Nat × Nat)) (x : Nat) (h1 : ∀ p ∈ pre, p.1 ≤ x) (h2 : ∀ p ∈ post, x < p.1) :
    adjust (pre ++ post) x = x - (pre.getLast?.map (·.2)).getD 0 := by
  unfold adjust
  have e1 : pre.filter (fun a => decide (a.1 ≤ x)) = pre := by
    rw [List.filter_eq_self]; intro p hp; simpa using h1 p hp
  have e2 : post.filter (fun a => decide (a.1 ≤ x)) = [] := by
    rw [List.filter_eq_nil_iff]; intro p hp; have := h2 p hp; simp only [decide_eq_true_eq]; omega
  rw [List.filter_append, e1, e2, List.append_nil]
  cases pre.getLast? <;> simp

/-- **An elision is recorded where its "..." stands.** For augmentations that come in order, one after the other, inside
the source, every elision three bytes long: whatever fake package clause and function header `rewrite` inserts in front,
the offset that the `i`-th augmentation, an elision, gets in the augmented source is mapped back by `posAdjuster.Pos`,
with the adjustments `rewrite` returned, to the offset of its "..." in the source. -/
theorem elision_maps_back (src : List UInt8) : ∀ (as : List Aug) (st : RwSt), Inv st → AugsOK src st.pos as →
    ∀ (i : Nat) (s e : Nat) (n : Bool), as[i]? = some (.dots s e n) →
    ∃ s' e', (as.foldl (rwStep src) st).out[st.out.length + i]? = some (.dots s' e' n) ∧
      adjust (as.foldl (rwStep src) st).adjs s' = s
  | [], _, _, _, i, s, e, n, h => by simp at h
  | a :: as, st, hi, hok, i, s, e, n, h => by
    obtain ⟨ha, hrest⟩ := hok
    obtain ⟨hi1, hp1, hlen1, ⟨y1, hy1, hy1p⟩, ⟨a', ha'⟩⟩ := rwStep_inv src st a hi ha
    have hok1 : AugsOK src (rwStep src st a).pos as := by rw [hp1]; exact hrest
    simp only [List.foldl_cons]
    cases i with
    | succ j =>
      simp only [List.getElem?_cons_succ] at h
      obtain ⟨s', e', h1, h2⟩ := elision_maps_back src as (rwStep src st a) hi1 hok1 j s e n h
      refine ⟨s', e', ?_, h2⟩
      have : (rwStep src st a).out.length + j = st.out.length + (j + 1) := by
        rw [ha']; simp only [List.length_append, List.length_cons, List.length_nil]; omega
      rw [← this]; exact h1
    | zero =>
      simp only [List.getElem?_cons_zero, Option.some.injEq] at h
      subst h
      obtain ⟨hpos, hstop, hse, hk⟩ := ha
      simp only [Aug.start, Aug.stop] at hpos hstop hse
      simp only at hk
      have hcl := copied_len src st.pos s hpos (by omega)
      obtain ⟨_, ⟨y2, hy2, hy2p⟩, ⟨o2, ho2, _⟩⟩ := fold_inv src as (rwStep src st (.dots s e n)) hi1 hok1
      -- what the iteration did
      have hout : (rwStep src st (.dots s e n)).out = st.out ++ [.dots (st.dst.length + (s - st.pos))
          ((st.dst ++ (src.drop st.pos).take (s - st.pos) ++ (if n then strBytes "_ d" else strBytes "dts")).length) n] := by
        simp only [rwStep, Aug.start, List.length_append, hcl]
      have hadj : (rwStep src st (.dots s e n)).adjs = st.adjs := by simp only [rwStep]
      have hdl : (rwStep src st (.dots s e n)).dst.length = st.dst.length + (s - st.pos) + 3 := by
        cases n <;> simp only [rwStep, Aug.start, List.length_append, hcl, len_dts, len_named, ↓reduceIte, Bool.false_eq_true]
      refine ⟨st.dst.length + (s - st.pos),
        (st.dst ++ (src.drop st.pos).take (s - st.pos) ++ (if n then strBytes "_ d" else strBytes "dts")).length, ?_, ?_⟩
      · rw [ho2, hout, List.append_assoc]
        rw [List.getElem?_append_right (by omega)]
        simp
      · rw [hy2, hadj]
        rw [adjust_split st.adjs y2 _ (fun p hp => by have := hi.offs p hp; omega)
          (fun p hp => by have := hy2p p hp; omega)]
        rw [hi.last]
        have := hi.len
        omega

/-- the same for `rewrite` as it is called: from the empty state, on the augmentations sorted by their start -/
theorem rewrite_elision_maps_back (src : List UInt8) (augs : List Aug) (hok : AugsOK src 0 (sortByStart augs))
    (i s e : Nat) (n : Bool) (h : (sortByStart augs)[i]? = some (.dots s e n)) :
    ∃ s' e', (rewrite src augs).2.1[i]? = some (.dots s' e' n) ∧ adjust (rewrite src augs).2.2 s' = s := by
  have := elision_maps_back src (sortByStart augs) {} inv_init hok i s e n h
  simpa [rewrite] using this

/-! ### every byte that `rewrite` keeps maps back to itself -/

/-- one iteration only appends to the output -/
theorem rwStep_dst_prefix (src : List UInt8) (st : RwSt) (a : Aug) :
    ∃ x, (rwStep src st a).dst = st.dst ++ (src.drop st.pos).take (a.start - st.pos) ++ x := by
  cases a with
  | fakePackage s => exact ⟨_, by simp only [rwStep]; rfl⟩
  | fakeFunc s br => exact ⟨_, by simp only [rwStep, List.append_assoc]; rfl⟩
  | dots s e n => exact ⟨_, by simp only [rwStep]; rfl⟩

theorem fold_dst_prefix (src : List UInt8) : ∀ (as : List Aug) (st : RwSt), ∃ x, (as.foldl (rwStep src) st).dst = st.dst ++ x
  | [], st => ⟨[], by simp⟩
  | a :: as, st => by
    obtain ⟨x1, h1⟩ := rwStep_dst_prefix src st a
    obtain ⟨x2, h2⟩ := fold_dst_prefix src as (rwStep src st a)
    exact ⟨_, by simp only [List.foldl_cons, h2, h1, List.append_assoc]; rfl⟩

/-- the augmented source as `rewrite` returns it -/
def RwSt.whole (src : List UInt8) (st : RwSt) : List UInt8 := st.dst ++ src.drop st.pos ++ st.tail

/-- **Every byte `rewrite` keeps maps back to itself.** A byte of the source that lies in no augmentation is found in the
augmented source at an offset which `posAdjuster.Pos`, with the adjustments `rewrite` returned, takes back to the byte's
own offset: whatever go/parser reports about retained code is reported at the place of that code in the version. -/
theorem retained_byte_maps_back (src : List UInt8) : ∀ (as : List Aug) (st : RwSt), Inv st → AugsOK src st.pos as →
    ∀ k, st.pos ≤ k → k < src.length → (∀ a ∈ as, ¬ (a.start ≤ k ∧ k < a.stop)) →
    ∃ o, ((as.foldl (rwStep src) st).whole src)[o]? = src[k]? ∧ adjust (as.foldl (rwStep src) st).adjs o = k
  | [], st, hi, _, k, hk, hlen, _ => by
    refine ⟨st.dst.length + (k - st.pos), ?_, ?_⟩
    · simp only [List.foldl_nil, RwSt.whole, List.append_assoc]
      rw [List.getElem?_append_right (by omega)]
      simp only [Nat.add_sub_cancel_left]
      rw [List.getElem?_append_left (by simp only [List.length_drop]; omega)]
      rw [List.getElem?_drop]
      congr 1; omega
    · simp only [List.foldl_nil]
      have := adjust_split st.adjs [] (st.dst.length + (k - st.pos)) (fun p hp => by have := hi.offs p hp; omega) (by simp)
      simp only [List.append_nil] at this
      rw [this, hi.last]
      have := hi.len
      omega
  | a :: as, st, hi, hok, k, hk, hlen, hout => by
    obtain ⟨ha, hrest⟩ := hok
    obtain ⟨hi1, hp1, hlen1, ⟨y1, hy1, hy1p⟩, _⟩ := rwStep_inv src st a hi ha
    have hok1 : AugsOK src (rwStep src st a).pos as := by rw [hp1]; exact hrest
    simp only [List.foldl_cons]
    have hnot := hout a (List.mem_cons_self ..)
    by_cases hlt : k < a.start
    · -- copied in this iteration
      obtain ⟨hpos, hstop, hse, _⟩ := ha
      obtain ⟨x1, hx1⟩ := rwStep_dst_prefix src st a
      obtain ⟨x2, hx2⟩ := fold_dst_prefix src as (rwStep src st a)
      obtain ⟨_, ⟨y2, hy2, hy2p⟩, _⟩ := fold_inv src as (rwStep src st a) hi1 hok1
      have hcl := copied_len src st.pos a.start hpos (by omega)
      refine ⟨st.dst.length + (k - st.pos), ?_, ?_⟩
      · simp only [RwSt.whole, hx2, hx1, List.append_assoc]
        rw [List.getElem?_append_right (by omega)]
        simp only [Nat.add_sub_cancel_left]
        rw [List.getElem?_append_left (by rw [hcl]; omega)]
        rw [List.getElem?_take_of_lt (by omega), List.getElem?_drop]
        congr 1; omega
      · rw [hy2, hy1, List.append_assoc]
        have hx1len : (rwStep src st a).dst.length ≥ st.dst.length + (a.start - st.pos) := by
          rw [hx1]; simp only [List.length_append, hcl]; omega
        rw [adjust_split st.adjs (y1 ++ y2) _ (fun p hp => by have := hi.offs p hp; omega)
          (fun p hp => by
            rcases List.mem_append.1 hp with hp | hp
            · -- an adjustment of this iteration sits after the copied bytes
              have h1 := hy1p p hp
              cases a with
              | fakePackage s =>
                have : y1 = [(st.dst.length + (s - st.pos), st.reduceBy + 10)] ∨ True := Or.inr trivial
                simp only [rwStep, Aug.start] at hy1
                have hy1' := List.append_cancel_left hy1
                subst hy1'
                simp only [List.mem_singleton] at hp
                subst hp
                simp only [List.length_append, Aug.start] at hcl ⊢
                simp only [Aug.start] at hlt
                omega
              | fakeFunc s br =>
                simp only [rwStep, Aug.start] at hy1
                have hy1' := List.append_cancel_left hy1
                subst hy1'
                simp only [List.mem_singleton] at hp
                subst hp
                simp only [List.length_append, Aug.start] at hcl ⊢
                simp only [Aug.start] at hlt
                omega
              | dots s e n =>
                simp only [rwStep] at hy1
                have : y1 = [] := by
                  have := List.append_cancel_left (hy1.symm.trans (List.append_nil _).symm)
                  exact this
                subst this
                simp at hp
            · have := hy2p p hp; omega)]
        rw [hi.last]
        have := hi.len
        omega
    · -- at or after the end of this augmentation: left to the rest of the loop
      have hge : a.stop ≤ k := by
        have : ¬ (a.start ≤ k ∧ k < a.stop) := hnot
        omega
      exact retained_byte_maps_back src as (rwStep src st a) hi1 hok1 k (by rw [hp1]; exact hge) hlen
        (fun a' ha' => hout a' (List.mem_cons_of_mem _ ha'))

/-- the same for `rewrite` as it is called -/
theorem rewrite_retained_byte_maps_back (src : List UInt8) (augs : List Aug) (hok : AugsOK src 0 (sortByStart augs))
    (k : Nat) (hk : k < src.length) (hout : ∀ a ∈ sortByStart augs, ¬ (a.start ≤ k ∧ k < a.stop)) :
    ∃ o, (rewrite src augs).1[o]? = src[k]? ∧ adjust (rewrite src augs).2.2 o = k := by
  have := retained_byte_maps_back src (sortByStart augs) {} inv_init hok k (Nat.zero_le _) hk hout
  simpa [rewrite, RwSt.whole] using this

end Gopatch.Fnd
