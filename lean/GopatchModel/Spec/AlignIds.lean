import GopatchModel.Spec.DiffIds
import GopatchModel.Spec.AlignKeeps
/-
  Spec/AlignIds.lean — `alignSlices` gives an element the fate "identical to element j" only
  when `compareNodes` found the two equal.
-/
namespace Gopatch.AD

theorem findEqual_sound (m : List (List Res)) (i mlen : Nat) : ∀ (fuel j k : Nat), findEqual m i mlen fuel j = some k →
    j ≤ k ∧ k < mlen ∧ (lookup m (i : Int) (k : Int)).equal = true
  | 0, j, k, h => by simp [findEqual] at h
  | fuel + 1, j, k, h => by
    rw [findEqual] at h
    split at h
    · rename_i hj
      split at h
      · rename_i he
        cases h
        exact ⟨Nat.le_refl _, hj, he⟩
      · have := findEqual_sound m i mlen fuel (j + 1) k h
        exact ⟨by omega, this.2⟩
    · cases h

theorem IdsEqual_shift (f : Int → Int → Res) (a b : Int) : ∀ (es : List Ed) (x y : Int),
    IdsEqual (fun i j => f (a + i) (b + j)) es x y ↔ IdsEqual f es (a + x) (b + y)
  | [], _, _ => by simp [IdsEqual]
  | .id :: es, x, y => by
    simp only [IdsEqual, IdsEqual_shift f a b es (x + 1) (y + 1)]
    have e1 : a + (x + 1) = a + x + 1 := by omega
    have e2 : b + (y + 1) = b + y + 1 := by omega
    rw [e1, e2]
  | .md :: es, x, y => by
    simp only [IdsEqual, IdsEqual_shift f a b es (x + 1) (y + 1)]
    have e1 : a + (x + 1) = a + x + 1 := by omega
    have e2 : b + (y + 1) = b + y + 1 := by omega
    rw [e1, e2]
  | .ux :: es, x, y => by
    simp only [IdsEqual, IdsEqual_shift f a b es (x + 1) y]
    have e1 : a + (x + 1) = a + x + 1 := by omega
    rw [e1]
  | .uy :: es, x, y => by
    simp only [IdsEqual, IdsEqual_shift f a b es x (y + 1)]
    have e2 : b + (y + 1) = b + y + 1 := by omega
    rw [e2]

theorem gap_ids (m : List (List Res)) (fi fj ti tj : Nat) :
    IdsEqual (lookup m) (gap m fi fj ti tj).1 (fi : Int) (ti : Int) := by
  unfold gap
  have h := difference_ids (fj - fi) (tj - ti) (fun i j => lookup m ((fi : Int) + i) ((ti : Int) + j))
  rw [IdsEqual_shift (lookup m) (fi : Int) (ti : Int)] at h
  simpa using h

/-- the loop of `alignSlices`: the script built so far accounts for `a` old and `b` new elements and has its identities on
equal cells; so has the result -/
theorem alignLoop_ids (m : List (List Res)) (n mlen : Nat) : ∀ (fuel i a b : Nat) (es : List Ed) (ex : Bool),
    a ≤ n → b ≤ mlen → a ≤ i → lenX es = a → lenY es = b → IdsEqual (lookup m) es 0 0 →
    IdsEqual (lookup m) (alignLoop m n mlen fuel i b a b es ex).1 0 0
  | 0, i, a, b, es, ex, han, hbm, hai, hx, hy, h => by
    rw [alignLoop]
    have hg := gap_ids m a n b mlen
    generalize gap m a n b mlen = gp at hg
    obtain ⟨g, x⟩ := gp
    simp only [] at hg ⊢
    rw [IdsEqual_append]
    refine ⟨h, ?_⟩
    rw [hx, hy, Int.zero_add, Int.zero_add]; exact hg
  | fuel + 1, i, a, b, es, ex, han, hbm, hai, hx, hy, h => by
    rw [alignLoop]
    split
    · have hg := gap_ids m a n b mlen
      generalize gap m a n b mlen = gp at hg
      obtain ⟨g, x⟩ := gp
      simp only [] at hg ⊢
      rw [IdsEqual_append]
      refine ⟨h, ?_⟩
      rw [hx, hy, Int.zero_add, Int.zero_add]; exact hg
    · rename_i hin
      split
      · rename_i k hk
        obtain ⟨hbk, hkm, heq⟩ := findEqual_sound m i mlen lookahead b k hk
        have hg := gap_ids m a i b k
        have hl := gap_len m a i b k
        generalize gap m a i b k = gp at hg hl
        obtain ⟨g, x⟩ := gp
        simp only [] at hg hl ⊢
        apply alignLoop_ids m n mlen fuel (i + 1) (i + 1) (k + 1) _ _ (by omega) (by omega) (Nat.le_refl _)
        · rw [lenX_append, lenX_append, hx, hl.1]; simp [lenX]; omega
        · rw [lenY_append, lenY_append, hy, hl.2]; simp [lenY]; omega
        · rw [IdsEqual_append, IdsEqual_append]
          refine ⟨⟨h, ?_⟩, ?_⟩
          · rw [hx, hy, Int.zero_add, Int.zero_add]; exact hg
          · rw [lenX_append, lenY_append, hx, hy, hl.1, hl.2]
            simp only [IdsEqual, and_true]
            have e1 : (0 : Int) + ((a + (i - a) : Nat) : Int) = (i : Int) := by omega
            have e2 : (0 : Int) + ((b + (k - b) : Nat) : Int) = (k : Int) := by omega
            rw [e1, e2]; exact heq
      · exact alignLoop_ids m n mlen fuel (i + 1) a b es ex han hbm (by omega) hx hy h

theorem alignSlices_ids (m : List (List Res)) (n mlen : Nat) : IdsEqual (lookup m) (alignSlices m n mlen).1 0 0 := by
  unfold alignSlices
  exact alignLoop_ids m n mlen (n + 1) 0 0 0 [] false (Nat.zero_le _) (Nat.zero_le _) (Nat.le_refl _) rfl rfl (by simp [IdsEqual])

/-- a fate "identical to element `j`" at place `i` of the fates of a script with identities on equal cells: the cell is equal -/
theorem fates_same_equal (f : Int → Int → Res) : ∀ (es : List Ed) (x y i j : Nat), IdsEqual f es (x : Int) (y : Int) →
    (fates es y)[i]? = some (.same j) → (f ((x + i : Nat) : Int) (j : Int)).equal = true
  | [], x, y, i, j, _, h => by simp [fates] at h
  | .id :: es, x, y, 0, j, hi, h => by
    simp only [fates, List.getElem?_cons_zero, Option.some.injEq, Fate.same.injEq] at h
    subst h
    simpa [IdsEqual] using hi.1
  | .id :: es, x, y, i + 1, j, hi, h => by
    simp only [fates, List.getElem?_cons_succ] at h
    have := fates_same_equal f es (x + 1) (y + 1) i j (by simpa [IdsEqual] using hi.2) h
    have e : x + 1 + i = x + (i + 1) := by omega
    rw [e] at this; exact this
  | .md :: es, x, y, 0, j, hi, h => by simp [fates] at h
  | .md :: es, x, y, i + 1, j, hi, h => by
    simp only [fates, List.getElem?_cons_succ] at h
    have := fates_same_equal f es (x + 1) (y + 1) i j (by simpa [IdsEqual] using hi) h
    have e : x + 1 + i = x + (i + 1) := by omega
    rw [e] at this; exact this
  | .ux :: es, x, y, 0, j, hi, h => by simp [fates] at h
  | .ux :: es, x, y, i + 1, j, hi, h => by
    simp only [fates, List.getElem?_cons_succ] at h
    have := fates_same_equal f es (x + 1) y i j (by simpa [IdsEqual] using hi) h
    have e : x + 1 + i = x + (i + 1) := by omega
    rw [e] at this; exact this
  | .uy :: es, x, y, i, j, hi, h => by
    simp only [fates] at h
    exact fates_same_equal f es x (y + 1) i j (by simpa [IdsEqual] using hi) h

/-- **`alignSlices` pairs two elements as identical only when `compareNodes` found them equal.** -/
theorem alignSlices_same_equal (m : List (List Res)) (n mlen i j : Nat)
    (h : (fates (alignSlices m n mlen).1 0)[i]? = some (.same j)) : (lookup m (i : Int) (j : Int)).equal = true := by
  have := fates_same_equal (lookup m) _ 0 0 i j (by simpa using alignSlices_ids m n mlen) h
  simpa using this

end Gopatch.AD
