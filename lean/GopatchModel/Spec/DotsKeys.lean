import GopatchModel.FileM
/-
  Spec/DotsKeys.lean — elided runs are stored under the patch position of their
  "...".  Matching a pattern writes only under the keys of the elisions that
  occur in it (`collectDots`), so the run recorded for one elision is still
  there at the end — provided no other elision of the pattern has the same key.
  (The repaired defect F24 was two elisions with one key.)
-/
namespace Gopatch

theorem lookDots_pushDots_ne (d : Data) (k k' : Nat) (run : List V) (h : k' ≠ k) :
    (d.pushDots k run).lookDots k' = d.lookDots k' := by
  simp only [Data.lookDots, Data.pushDots, List.lookup_cons]
  have : (k' == k) = false := by simpa using h
  simp [this]

theorem lookDots_pushPos (d : Data) (k k' : Nat) : (d.pushPos k).lookDots k' = d.lookDots k' := rfl
theorem lookDots_pushFor (d : Data) (k k' : Nat) (f : ForData) : (d.pushFor k f).lookDots k' = d.lookDots k' := rfl
theorem lookDots_pushMv (d : Data) (n : String) (v : V) (k' : Nat) : (d.pushMv n v).lookDots k' = d.lookDots k' := rfl

theorem matchMetavar_dots (k : Kind) (name : String) (g : V) (d d' : Data) (h : matchMetavar k name g d = some d') (q : Nat) :
    d'.lookDots q = d.lookDots q := by
  unfold matchMetavar at h
  split at h
  · cases h
  · split at h
    · split at h <;> cases h; rfl
    · cases h; rfl

theorem firstSome_elim {α β} (f : α → Option β) : ∀ (l : List α) (b : β),
    firstSome l f = some b → ∃ a ∈ l, f a = some b
  | [], b, h => by simp [firstSome] at h
  | a :: as, b, h => by
      unfold firstSome at h
      cases hf : f a with
      | some b' => simp only [hf] at h; cases h; exact ⟨a, by simp, hf⟩
      | none =>
        simp only [hf] at h
        obtain ⟨a', ha, hb⟩ := firstSome_elim f as b h
        exact ⟨a', by simp [ha], hb⟩

mutual
/-- matching writes elided runs only under the keys of the pattern's own elisions -/
theorem matchV_dots (mt : Meta) : ∀ (p g : V) (d d' : Data), matchV mt p g d = some d' →
    ∀ q, q ∉ collectDots p → d'.lookDots q = d.lookDots q
  | .pos pv pk, g, d, d', h, q, _ => by
      rw [matchV.eq_def] at h
      cases g <;> simp only at h <;> try (cases h)
      split at h
      · cases h; split <;> rfl
      · cases h
  | .str s, g, d, d', h, q, _ => by
      rw [matchV.eq_def] at h
      cases g <;> simp only at h <;> try (cases h)
      split at h <;> cases h; rfl
  | .int n, g, d, d', h, q, _ => by
      rw [matchV.eq_def] at h
      cases g <;> simp only at h <;> try (cases h)
      split at h <;> cases h; rfl
  | .bool b, g, d, d', h, q, _ => by
      rw [matchV.eq_def] at h
      cases g <;> simp only at h <;> try (cases h)
      split at h <;> cases h; rfl
  | .nilP t, g, d, d', h, q, _ => by
      rw [matchV.eq_def] at h; simp only at h
      split at h <;> cases h; rfl
  | .nilI i, g, d, d', h, q, _ => by
      rw [matchV.eq_def] at h; simp only at h
      split at h <;> cases h; rfl
  | .nilS e, g, d, d', h, q, _ => by
      rw [matchV.eq_def] at h; simp only at h
      split at h
      · match g, h with
        | .nilS _, h => cases h; rfl
        | .slice _ [], h => cases h; rfl
      · split at h <;> cases h; rfl
  | .iface i pv, g, d, d', h, q, hq => by
      rw [matchV.eq_def] at h
      cases g <;> simp only at h <;> try (cases h)
      rename_i j gv
      rw [collectDots.eq_def] at hq; simp only at hq
      exact matchV_dots mt pv gv d d' h q hq
  | .slice e ps, g, d, d', h, q, hq => by
      rw [matchV.eq_def] at h; simp only at h
      rw [collectDots.eq_def] at hq; simp only at hq
      split at h
      · rename_i hde
        simp only [hde, ↓reduceIte] at hq
        cases g <;> simp only at h <;> try (cases h)
        · exact matchSeq_dots mt e ps [] d d' h q hq
        · rename_i e' gs; exact matchSeq_dots mt e ps gs d d' h q hq
      · rename_i hde
        simp only [hde, Bool.false_eq_true, ↓reduceIte] at hq
        cases g <;> simp only at h <;> try (cases h)
        · split at h <;> cases h; rfl
        · rename_i e' gs; exact matchVs_dots mt ps gs d d' h q hq
  | .ptr t id fs, g, d, d', h, q, hq => by
      rw [matchV.eq_def] at h; simp only at h
      rw [collectDots.eq_def] at hq; simp only at hq
      split at h
      · cases h; rfl
      · rename_i hig
        simp only [hig, Bool.false_eq_true, ↓reduceIte] at hq
        split at h
        · rename_i hid
          have ht : t = "ast.Ident" := by simpa using hid
          have hfd : forDotsKeyOf t fs = none := by subst ht; simp [forDotsKeyOf]
          simp only [hfd] at hq
          split at h
          · exact matchMetavar_dots _ _ _ _ _ h q
          · cases g <;> simp only at h <;> try (cases h)
            rename_i t' id' gs
            split at h
            · exact matchVs_dots mt fs gs d d' h q hq
            · cases h
        · split at h
          · rename_i k hk
            simp only [hk, List.mem_cons, not_or] at hq
            cases g <;> simp only at h <;> try (cases h)
            rename_i t' id' gs
            split at h
            · split at h
              · rename_i gb hgb
                rw [matchNth_dots mt fs 4 gb _ d' h q hq.2]; rfl
              · cases h
            · cases h
          · rename_i hk
            simp only [hk] at hq
            cases g <;> simp only at h <;> try (cases h)
            rename_i t' id' gs
            split at h
            · exact matchVs_dots mt fs gs d d' h q hq
            · cases h
theorem matchVs_dots (mt : Meta) : ∀ (ps gs : List V) (d d' : Data), matchVs mt ps gs d = some d' →
    ∀ q, q ∉ collectDotsL ps → d'.lookDots q = d.lookDots q
  | [], [], d, d', h, q, _ => by rw [matchVs.eq_def] at h; simp only at h; cases h; rfl
  | [], _ :: _, d, d', h, _, _ => by rw [matchVs.eq_def] at h; simp only at h; cases h
  | _ :: _, [], d, d', h, _, _ => by rw [matchVs.eq_def] at h; simp only at h; cases h
  | p :: ps, g :: gs, d, d', h, q, hq => by
      rw [matchVs.eq_def] at h
      simp only [Option.bind_eq_some_iff] at h
      obtain ⟨d1, h1, h2⟩ := h
      rw [collectDotsL.eq_def] at hq; simp only [List.mem_append, not_or] at hq
      rw [matchVs_dots mt ps gs d1 d' h2 q hq.2, matchV_dots mt p g d d1 h1 q hq.1]
theorem matchSeq_dots (mt : Meta) (e : String) : ∀ (ps gs : List V) (d d' : Data), matchSeq mt e ps gs d = some d' →
    ∀ q, q ∉ collectSeq e ps → d'.lookDots q = d.lookDots q
  | [], gs, d, d', h, q, _ => by
      rw [matchSeq.eq_def] at h; simp only at h
      split at h <;> cases h; rfl
  | p :: ps, gs, d, d', h, q, hq => by
      rw [matchSeq.eq_def] at h; simp only at h
      rw [collectSeq.eq_def] at hq; simp only at hq
      split at h
      · rename_i k hk
        simp only [hk, List.mem_cons, not_or] at hq
        obtain ⟨a, _, hb⟩ := firstSome_elim _ _ _ h
        rw [matchSeq_dots mt e ps a.2 _ d' hb q hq.2]
        exact lookDots_pushDots_ne d k q a.1 hq.1
      · rename_i hk
        simp only [hk, List.mem_append, not_or] at hq
        cases gs with
        | nil => simp only at h; cases h
        | cons g gs' =>
          simp only [Option.bind_eq_some_iff] at h
          obtain ⟨d1, h1, h2⟩ := h
          rw [matchSeq_dots mt e ps gs' d1 d' h2 q hq.2, matchV_dots mt p g d d1 h1 q hq.1]
theorem matchNth_dots (mt : Meta) : ∀ (ps : List V) (i : Nat) (g : V) (d d' : Data), matchNth mt ps i g d = some d' →
    ∀ q, q ∉ collectNth ps i → d'.lookDots q = d.lookDots q
  | [], _, _, _, _, h, _, _ => by rw [matchNth.eq_def] at h; simp only at h; cases h
  | p :: ps, 0, g, d, d', h, q, hq => by
      rw [matchNth.eq_def] at h; simp only at h
      rw [collectNth.eq_def] at hq; simp only at hq
      exact matchV_dots mt p g d d' h q hq
  | p :: ps, i + 1, g, d, d', h, q, hq => by
      rw [matchNth.eq_def] at h; simp only at h
      rw [collectNth.eq_def] at hq; simp only at hq
      exact matchNth_dots mt ps i g d d' h q hq
end

end Gopatch
