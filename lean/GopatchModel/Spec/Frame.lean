import GopatchModel.FileM
/-
  Spec/Frame.lean — a slot update changes nothing but the slot it targets:
  after blanking the targeted slot, the tree before and the tree after the
  update are the same tree.
-/
namespace Gopatch

def hole : V := .str "<rewritten>"

/-- blank the slot (field `fld`, element `idx`) in a field list -/
def blankField (fs : List V) (fld : Nat) (idx : Option Nat) : List V :=
  modifyAt (fun slot =>
    match idx with
    | none => hole
    | some i => match slot with
        | .slice e vs => .slice e (modifyAt (fun _ => hole) vs i)
        | s => s) fs fld

mutual
/-- blank the slot `fld[idx]` of every occurrence of node `pid` -/
def maskV (pid fld : Nat) (idx : Option Nat) : V → V
  | .iface i v => .iface i (maskV pid fld idx v)
  | .slice e vs => .slice e (maskVs pid fld idx vs)
  | .ptr t id fs =>
      let fs' := maskVs pid fld idx fs
      if id == pid then .ptr t id (blankField fs' fld idx) else .ptr t id fs'
  | v => v
def maskVs (pid fld : Nat) (idx : Option Nat) : List V → List V
  | [] => []
  | v :: vs => maskV pid fld idx v :: maskVs pid fld idx vs
end

theorem maskV_iface (pid fld : Nat) (idx : Option Nat) (i : String) (v : V) :
    maskV pid fld idx (.iface i v) = .iface i (maskV pid fld idx v) := by rw [maskV.eq_def]
theorem maskV_slice (pid fld : Nat) (idx : Option Nat) (e : String) (vs : List V) :
    maskV pid fld idx (.slice e vs) = .slice e (maskVs pid fld idx vs) := by rw [maskV.eq_def]
theorem maskV_ptr (pid fld : Nat) (idx : Option Nat) (t : String) (id : Nat) (fs : List V) :
    maskV pid fld idx (.ptr t id fs) =
      if id == pid then .ptr t id (blankField (maskVs pid fld idx fs) fld idx) else .ptr t id (maskVs pid fld idx fs) := by
  rw [maskV.eq_def]
theorem maskVs_cons (pid fld : Nat) (idx : Option Nat) (v : V) (vs : List V) :
    maskVs pid fld idx (v :: vs) = maskV pid fld idx v :: maskVs pid fld idx vs := by rw [maskVs.eq_def]
theorem setV_iface (pid fld : Nat) (idx : Option Nat) (nv : V) (i : String) (v : V) :
    setV pid fld idx nv (.iface i v) = .iface i (setV pid fld idx nv v) := by rw [setV.eq_def]
theorem setV_slice (pid fld : Nat) (idx : Option Nat) (nv : V) (e : String) (vs : List V) :
    setV pid fld idx nv (.slice e vs) = .slice e (setVs pid fld idx nv vs) := by rw [setV.eq_def]
theorem setV_ptr (pid fld : Nat) (idx : Option Nat) (nv : V) (t : String) (id : Nat) (fs : List V) :
    setV pid fld idx nv (.ptr t id fs) =
      if id == pid then .ptr t id (setField (setVs pid fld idx nv fs) fld idx nv) else .ptr t id (setVs pid fld idx nv fs) := by
  rw [setV.eq_def]
theorem setVs_cons (pid fld : Nat) (idx : Option Nat) (nv : V) (v : V) (vs : List V) :
    setVs pid fld idx nv (v :: vs) = setV pid fld idx nv v :: setVs pid fld idx nv vs := by rw [setVs.eq_def]

theorem maskVs_eq_map (pid fld : Nat) (idx : Option Nat) : ∀ vs, maskVs pid fld idx vs = vs.map (maskV pid fld idx)
  | [] => by simp [maskVs]
  | v :: vs => by simp [maskVs, maskVs_eq_map pid fld idx vs]

theorem setVs_eq_map (pid fld : Nat) (idx : Option Nat) (nv : V) : ∀ vs, setVs pid fld idx nv vs = vs.map (setV pid fld idx nv)
  | [] => by simp [setVs]
  | v :: vs => by simp [setVs, setVs_eq_map pid fld idx nv vs]

theorem modifyAt_absorb {α} (F G h : α → α) (hyp : ∀ x, F (h (G x)) = F (h x)) :
    ∀ (l : List α) (k : Nat), modifyAt F ((modifyAt G l k).map h) k = modifyAt F (l.map h) k
  | [], _ => rfl
  | a :: as, 0 => by simp [modifyAt, hyp]
  | a :: as, k + 1 => by simp [modifyAt, modifyAt_absorb F G h hyp as k]

/-- what `blankField` does to the slot -/
def blankSlot (idx : Option Nat) (slot : V) : V :=
  match idx with
  | none => hole
  | some i => match slot with
      | .slice e vs => .slice e (modifyAt (fun _ => hole) vs i)
      | s => s

/-- what `setField` does to the slot -/
def setSlot (idx : Option Nat) (nv : V) (slot : V) : V :=
  match idx with
  | none => wrapFor slot nv
  | some i => match slot with
      | .slice e vs => .slice e (modifyAt (fun o => wrapFor o nv) vs i)
      | s => s

theorem blankField_eq (fs : List V) (fld : Nat) (idx : Option Nat) :
    blankField fs fld idx = modifyAt (blankSlot idx) fs fld := rfl

theorem setField_eq (fs : List V) (fld : Nat) (idx : Option Nat) (nv : V) :
    setField fs fld idx nv = modifyAt (setSlot idx nv) fs fld := rfl

theorem blank_absorbs_set (pid fld : Nat) (idx : Option Nat) (nv : V) (slot : V) :
    blankSlot idx (maskV pid fld idx (setSlot idx nv slot)) = blankSlot idx (maskV pid fld idx slot) := by
  cases idx with
  | none => rfl
  | some i =>
    cases slot with
    | slice e vs =>
      simp only [setSlot, blankSlot]
      rw [maskV_slice, maskV_slice]
      simp only [maskVs_eq_map]
      congr 1
      exact modifyAt_absorb (fun _ => hole) (fun o => wrapFor o nv) (maskV pid fld (some i)) (fun _ => rfl) vs i
    | _ => rfl

mutual
/-- **Frame.** Storing a new value in the slot `fld[idx]` of node `pid` changes that slot and
nothing else: with the slot blanked, the tree after the update equals the tree before it.
(Every other declaration, statement, expression, every other field of the parent, every other
element of the list, keeps its place and its content.) -/
theorem set_changes_only_slot (pid fld : Nat) (idx : Option Nat) (nv : V) :
    ∀ v, maskV pid fld idx (setV pid fld idx nv v) = maskV pid fld idx v
  | .pos _ _ => by simp [setV]
  | .str _ => by simp [setV]
  | .int _ => by simp [setV]
  | .bool _ => by simp [setV]
  | .nilP _ => by simp [setV]
  | .nilI _ => by simp [setV]
  | .nilS _ => by simp [setV]
  | .iface i v => by
      rw [setV_iface, maskV_iface, maskV_iface, set_changes_only_slot pid fld idx nv v]
  | .slice e vs => by
      rw [setV_slice, maskV_slice, maskV_slice, sets_change_only_slot pid fld idx nv vs]
  | .ptr t id fs => by
      have ih := sets_change_only_slot pid fld idx nv fs
      rw [setV_ptr]
      by_cases h : (id == pid) = true
      · simp only [h, ↓reduceIte]
        rw [maskV_ptr, maskV_ptr]; simp only [h, ↓reduceIte]
        congr 1
        rw [blankField_eq, blankField_eq, setField_eq, maskVs_eq_map, maskVs_eq_map]
        rw [modifyAt_absorb (blankSlot idx) (setSlot idx nv) (maskV pid fld idx) (blank_absorbs_set pid fld idx nv)]
        rw [← maskVs_eq_map, ih, maskVs_eq_map]
      · simp only [h, Bool.false_eq_true, ↓reduceIte]
        rw [maskV_ptr, maskV_ptr]; simp only [h, Bool.false_eq_true, ↓reduceIte]
        rw [ih]
theorem sets_change_only_slot (pid fld : Nat) (idx : Option Nat) (nv : V) :
    ∀ vs, maskVs pid fld idx (setVs pid fld idx nv vs) = maskVs pid fld idx vs
  | [] => by simp [setVs]
  | v :: vs => by
      rw [setVs_cons, maskVs_cons, maskVs_cons, set_changes_only_slot pid fld idx nv v,
        sets_change_only_slot pid fld idx nv vs]
end

end Gopatch
