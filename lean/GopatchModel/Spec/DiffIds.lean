import GopatchModel.Spec.DiffLen
/-
  Spec/DiffIds.lean — `diff.Difference` pairs two elements as identical only when the
  comparison function says they are equal.
-/
namespace Gopatch.AD

/-- reading the script from cell `(x, y)`: every identity stands on a cell that compares equal -/
def IdsEqual (f : Int → Int → Res) : List Ed → Int → Int → Prop
  | [], _, _ => True
  | .id :: es, x, y => (f x y).equal = true ∧ IdsEqual f es (x + 1) (y + 1)
  | .md :: es, x, y => IdsEqual f es (x + 1) (y + 1)
  | .ux :: es, x, y => IdsEqual f es (x + 1) y
  | .uy :: es, x, y => IdsEqual f es x (y + 1)

theorem IdsEqual_append (f : Int → Int → Res) : ∀ (a b : List Ed) (x y : Int),
    IdsEqual f (a ++ b) x y ↔ IdsEqual f a x y ∧ IdsEqual f b (x + lenX a) (y + lenY a)
  | [], b, x, y => by simp [IdsEqual, lenX, lenY]
  | .id :: a, b, x, y => by
    simp only [List.cons_append, IdsEqual, lenX, lenY, IdsEqual_append f a b (x + 1) (y + 1)]
    have e1 : x + 1 + (lenX a : Int) = x + ((lenX a + 1 : Nat) : Int) := by omega
    have e2 : y + 1 + (lenY a : Int) = y + ((lenY a + 1 : Nat) : Int) := by omega
    rw [e1, e2]; exact and_assoc.symm
  | .md :: a, b, x, y => by
    simp only [List.cons_append, IdsEqual, lenX, lenY, IdsEqual_append f a b (x + 1) (y + 1)]
    have e1 : x + 1 + (lenX a : Int) = x + ((lenX a + 1 : Nat) : Int) := by omega
    have e2 : y + 1 + (lenY a : Int) = y + ((lenY a + 1 : Nat) : Int) := by omega
    rw [e1, e2]
  | .ux :: a, b, x, y => by
    simp only [List.cons_append, IdsEqual, lenX, lenY, IdsEqual_append f a b (x + 1) y]
    have e1 : x + 1 + (lenX a : Int) = x + ((lenX a + 1 : Nat) : Int) := by omega
    rw [e1]
  | .uy :: a, b, x, y => by
    simp only [List.cons_append, IdsEqual, lenX, lenY, IdsEqual_append f a b x (y + 1)]
    have e2 : y + 1 + (lenY a : Int) = y + ((lenY a + 1 : Nat) : Int) := by omega
    rw [e2]

/-- a forward path: its script, read from the origin, has its identities on equal cells -/
def FwdIds (f : Int → Int → Res) (p : Path) : Prop := IdsEqual f p.es.reverse 0 0
/-- a reverse path: its script, read forward from where it stands, has its identities on equal cells -/
def RevIds (f : Int → Int → Res) (p : Path) : Prop := IdsEqual f p.es p.x p.y

theorem FwdIds.app {f : Int → Int → Res} {p : Path} (hok : FwdOK p) (h : FwdIds f p) (t : Ed)
    (ht : t = .id → (f p.x p.y).equal = true) : FwdIds f (p.app t) := by
  unfold FwdIds at *
  have hes : (p.app t).es = t :: p.es := by cases t <;> rfl
  rw [hes, List.reverse_cons, IdsEqual_append]
  refine ⟨h, ?_⟩
  rw [lenX_reverse, lenY_reverse, Int.zero_add, Int.zero_add, ← hok.2.1, ← hok.2.2]
  cases t <;> simp [IdsEqual]
  exact ht rfl

theorem RevIds.app {f : Int → Int → Res} {p : Path} (hd : p.dir = -1) (h : RevIds f p) (t : Ed)
    (ht : t = .id → (f (p.x - 1) (p.y - 1)).equal = true) : RevIds f (p.app t) := by
  unfold RevIds at *
  cases t with
  | id =>
    simp only [Path.app, hd, IdsEqual]
    refine ⟨by have := ht rfl; rwa [Int.sub_eq_add_neg, Int.sub_eq_add_neg] at this, ?_⟩
    have e1 : p.x + -1 + 1 = p.x := by omega
    have e2 : p.y + -1 + 1 = p.y := by omega
    rw [e1, e2]; exact h
  | md =>
    simp only [Path.app, hd, IdsEqual]
    have e1 : p.x + -1 + 1 = p.x := by omega
    have e2 : p.y + -1 + 1 = p.y := by omega
    rw [e1, e2]; exact h
  | ux =>
    simp only [Path.app, hd, IdsEqual]
    have e1 : p.x + -1 + 1 = p.x := by omega
    rw [e1]; exact h
  | uy =>
    simp only [Path.app, hd, IdsEqual]
    have e2 : p.y + -1 + 1 = p.y := by omega
    rw [e2]; exact h

theorem connectFwd_ids (f : Int → Int → Res) : ∀ (fuel : Nat) (p : Path) (dx dy : Int), FwdOK p → FwdIds f p →
    FwdIds f (connectFwd f fuel p dx dy)
  | 0, p, dx, dy, _, h => by simpa [connectFwd] using h
  | fuel + 1, p, dx, dy, hok, h => by
    rw [connectFwd]
    split
    · simp only []
      generalize ht : (if (f p.x p.y).equal = true then Ed.id else if (f p.x p.y).similar = true then Ed.md
        else if dx - p.x ≥ dy - p.y then Ed.ux else Ed.uy) = t
      refine connectFwd_ids f fuel (p.app t) dx dy (hok.app t) (h.app hok t ?_)
      intro he
      subst he
      by_cases heq : (f p.x p.y).equal = true
      · exact heq
      · simp only [heq, Bool.false_eq_true, ↓reduceIte] at ht
        split at ht <;> (try split at ht) <;> cases ht
    · split
      · exact connectFwd_ids f fuel (p.app .ux) dx dy (hok.app .ux) (h.app hok .ux (by intro h; cases h))
      · split
        · exact connectFwd_ids f fuel (p.app .uy) dx dy (hok.app .uy) (h.app hok .uy (by intro h; cases h))
        · exact h

theorem connectRev_ids (f : Int → Int → Res) (nx ny : Nat) : ∀ (fuel : Nat) (p : Path) (dx dy : Int), RevOK nx ny p → RevIds f p →
    RevIds f (connectRev f fuel p dx dy)
  | 0, p, dx, dy, _, h => by simpa [connectRev] using h
  | fuel + 1, p, dx, dy, hok, h => by
    rw [connectRev]
    split
    · simp only []
      generalize ht : (if (f (p.x - 1) (p.y - 1)).equal = true then Ed.id else if (f (p.x - 1) (p.y - 1)).similar = true then Ed.md
        else if p.y - dy ≥ p.x - dx then Ed.uy else Ed.ux) = t
      refine connectRev_ids f nx ny fuel (p.app t) dx dy (hok.app t) (h.app hok.1 t ?_)
      intro he
      subst he
      by_cases heq : (f (p.x - 1) (p.y - 1)).equal = true
      · exact heq
      · simp only [heq, Bool.false_eq_true, ↓reduceIte] at ht
        split at ht <;> (try split at ht) <;> cases ht
    · split
      · exact connectRev_ids f nx ny fuel (p.app .ux) dx dy (hok.app .ux) (h.app hok.1 .ux (by intro h; cases h))
      · split
        · exact connectRev_ids f nx ny fuel (p.app .uy) dx dy (hok.app .uy) (h.app hok.1 .uy (by intro h; cases h))
        · exact h

theorem runFwd_ids (f : Int → Int → Res) : ∀ (fuel : Nat) (fwd rev : Path), FwdOK fwd → FwdIds f fwd → FwdIds f (runFwd f fuel fwd rev)
  | 0, fwd, rev, _, h => by simpa [runFwd] using h
  | fuel + 1, fwd, rev, hok, h => by
    rw [runFwd]
    split
    · split
      · rename_i he
        exact runFwd_ids f fuel (fwd.app .id) rev (hok.app .id) (h.app hok .id (fun _ => he))
      · exact h
    · exact h

theorem runRev_ids (f : Int → Int → Res) (nx ny : Nat) : ∀ (fuel : Nat) (fwd rev : Path), RevOK nx ny rev → RevIds f rev →
    RevIds f (runRev f fuel fwd rev)
  | 0, fwd, rev, _, h => by simpa [runRev] using h
  | fuel + 1, fwd, rev, hok, h => by
    rw [runRev]
    split
    · split
      · rename_i he
        exact runRev_ids f nx ny fuel fwd (rev.app .id) (hok.app .id) (h.app hok.1 .id (fun _ => he))
      · exact h
    · exact h

theorem fwdSearch_ids (f : Int → Int → Res) (nx ny big : Nat) (hbig : nx + ny ≤ big) : ∀ (fuel : Nat) (s1 s2 : Bool) (i : Nat) (s : DS),
    DSInv nx ny s → FwdIds f s.fwd → RevIds f s.rev →
    FwdIds f (fwdSearch f big fuel s1 s2 i s).fwd ∧ RevIds f (fwdSearch f big fuel s1 s2 i s).rev
  | 0, _, _, _, s, _, hfi, hri => by rw [fwdSearch]; exact ⟨hfi, hri⟩
  | fuel + 1, s1, s2, i, s, hinv, hfi, hri => by
    rw [fwdSearch]
    split
    · exact ⟨hfi, hri⟩
    · simp only []
      split
      · exact fwdSearch_ids f nx ny big hbig fuel true s2 (i + 1) s hinv hfi hri
      · split
        · exact fwdSearch_ids f nx ny big hbig fuel s1 true (i + 1) s hinv hfi hri
        · rename_i c1 c2
          simp only [Bool.or_eq_true, decide_eq_true_eq, not_or, Int.not_le, Int.not_lt] at c1 c2
          split
          · rename_i heq
            obtain ⟨⟨hf, hr, hx, hy⟩, h0x, h0y, hnx, hny⟩ := hinv
            have hc := connectFwd_spec f big s.fwd (s.ffx + zigzag i) (s.ffy - zigzag i) hf (by omega) (by omega)
            have hreach := hc.2 (by omega)
            have hci := connectFwd_ids f big s.fwd (s.ffx + zigzag i) (s.ffy - zigzag i) hf hfi
            have happ : FwdIds f ((connectFwd f big s.fwd (s.ffx + zigzag i) (s.ffy - zigzag i)).app .id) :=
              hci.app hc.1 .id (fun _ => by rw [hreach.1, hreach.2]; exact heq)
            exact ⟨runFwd_ids f big _ s.rev (hc.1.app .id) happ, hri⟩
          · exact fwdSearch_ids f nx ny big hbig fuel s1 s2 (i + 1) { s with budget := s.budget - 1 } hinv hfi hri

theorem revSearch_ids (f : Int → Int → Res) (nx ny big : Nat) (hbig : nx + ny ≤ big) : ∀ (fuel : Nat) (s1 s2 : Bool) (i : Nat) (s : DS),
    DSInv nx ny s → FwdIds f s.fwd → RevIds f s.rev →
    FwdIds f (revSearch f big fuel s1 s2 i s).fwd ∧ RevIds f (revSearch f big fuel s1 s2 i s).rev
  | 0, _, _, _, s, _, hfi, hri => by rw [revSearch]; exact ⟨hfi, hri⟩
  | fuel + 1, s1, s2, i, s, hinv, hfi, hri => by
    rw [revSearch]
    split
    · exact ⟨hfi, hri⟩
    · simp only []
      split
      · exact revSearch_ids f nx ny big hbig fuel true s2 (i + 1) s hinv hfi hri
      · split
        · exact revSearch_ids f nx ny big hbig fuel s1 true (i + 1) s hinv hfi hri
        · rename_i c1 c2
          simp only [Bool.or_eq_true, decide_eq_true_eq, not_or, Int.not_le, Int.not_lt] at c1 c2
          split
          · rename_i heq
            obtain ⟨⟨hf, hr, hx, hy⟩, h0x, h0y, hnx, hny⟩ := hinv
            have hc := connectRev_spec f nx ny big s.rev (s.rfx - zigzag i) (s.rfy + zigzag i) hr (by omega) (by omega)
            have hreach := hc.2 (by omega)
            have hci := connectRev_ids f nx ny big s.rev (s.rfx - zigzag i) (s.rfy + zigzag i) hr hri
            have happ : RevIds f ((connectRev f big s.rev (s.rfx - zigzag i) (s.rfy + zigzag i)).app .id) :=
              hci.app hc.1.1 .id (fun _ => by rw [hreach.1, hreach.2]; exact heq)
            exact ⟨hfi, runRev_ids f nx ny big s.fwd _ (hc.1.app .id) happ⟩
          · exact revSearch_ids f nx ny big hbig fuel s1 s2 (i + 1) { s with budget := s.budget - 1 } hinv hfi hri

theorem rounds_ids (f : Int → Int → Res) (nx ny big : Nat) (hbig : nx + ny ≤ big) : ∀ (fuel : Nat) (s : DS),
    DSInv nx ny s → FwdIds f s.fwd → RevIds f s.rev →
    FwdIds f (rounds f big fuel s).fwd ∧ RevIds f (rounds f big fuel s).rev
  | 0, s, _, hfi, hri => by rw [rounds]; exact ⟨hfi, hri⟩
  | fuel + 1, s, hinv, hfi, hri => by
    rw [rounds]
    split
    · exact ⟨hfi, hri⟩
    · simp only []
      have h1 := fwdSearch_inv f nx ny big hbig big false false 0 s hinv
      have i1 := fwdSearch_ids f nx ny big hbig big false false 0 s hinv hfi hri
      generalize fwdSearch f big big false false 0 s = sa at h1 i1
      have h2 : DSInv nx ny (if sa.rev.x - sa.ffx ≥ sa.rev.y - sa.ffy then { sa with ffx := sa.ffx + 1 } else { sa with ffy := sa.ffy + 1 }) := by
        split <;> exact h1
      have i2 : FwdIds f (if sa.rev.x - sa.ffx ≥ sa.rev.y - sa.ffy then { sa with ffx := sa.ffx + 1 } else { sa with ffy := sa.ffy + 1 }).fwd ∧
                RevIds f (if sa.rev.x - sa.ffx ≥ sa.rev.y - sa.ffy then { sa with ffx := sa.ffx + 1 } else { sa with ffy := sa.ffy + 1 }).rev := by
        split <;> exact i1
      generalize (if sa.rev.x - sa.ffx ≥ sa.rev.y - sa.ffy then { sa with ffx := sa.ffx + 1 } else { sa with ffy := sa.ffy + 1 }) = sb at h2 i2
      split
      · exact i2
      · have h3 := revSearch_inv f nx ny big hbig big false false 0 sb h2
        have i3 := revSearch_ids f nx ny big hbig big false false 0 sb h2 i2.1 i2.2
        generalize revSearch f big big false false 0 sb = sc at h3 i3
        have h4 : DSInv nx ny (if sc.rfx - sc.fwd.x ≥ sc.rfy - sc.fwd.y then { sc with rfx := sc.rfx - 1 } else { sc with rfy := sc.rfy - 1 }) := by
          split <;> exact h3
        have i4 : FwdIds f (if sc.rfx - sc.fwd.x ≥ sc.rfy - sc.fwd.y then { sc with rfx := sc.rfx - 1 } else { sc with rfy := sc.rfy - 1 }).fwd ∧
                  RevIds f (if sc.rfx - sc.fwd.x ≥ sc.rfy - sc.fwd.y then { sc with rfx := sc.rfx - 1 } else { sc with rfy := sc.rfy - 1 }).rev := by
          split <;> exact i3
        exact rounds_ids f nx ny big hbig fuel _ h4 i4.1 i4.2

/-- **`diff.Difference` calls two elements identical only when the comparison says they are equal.** -/
theorem difference_ids (nx ny : Nat) (f : Int → Int → Res) : IdsEqual f (difference nx ny f).1 0 0 := by
  unfold difference
  simp only []
  have hbig : nx + ny ≤ 8 * (nx + ny) + 32 := by omega
  have h0 : DSInv nx ny { fwd := { dir := 1, x := 0, y := 0, es := [] }, rev := { dir := -1, x := (nx : Int), y := (ny : Int), es := [] },
                          ffx := 0, ffy := 0, rfx := (nx : Int), rfy := (ny : Int), budget := 4 * (nx + ny) } := by
    refine ⟨⟨⟨rfl, by simp [lenX], by simp [lenY]⟩, ⟨rfl, by simp [lenX], by simp [lenY]⟩, ?_, ?_⟩, ?_, ?_, ?_, ?_⟩ <;> simp
  have hs := rounds_inv f nx ny _ hbig (8 * (nx + ny) + 32) _ h0
  have hi := rounds_ids f nx ny _ hbig (8 * (nx + ny) + 32) _ h0 (by simp [FwdIds, IdsEqual]) (by simp [RevIds, IdsEqual])
  generalize rounds f (8 * (nx + ny) + 32) (8 * (nx + ny) + 32) _ = s at hs hi
  obtain ⟨⟨hf, hr, hx, hy⟩, h0x, h0y, hnx, hny⟩ := hs
  have hc := connectFwd_spec f (8 * (nx + ny) + 32) s.fwd s.rev.x s.rev.y hf hx hy
  have hreach := hc.2 (by omega)
  have hci := connectFwd_ids f (8 * (nx + ny) + 32) s.fwd s.rev.x s.rev.y hf hi.1
  generalize connectFwd f (8 * (nx + ny) + 32) s.fwd s.rev.x s.rev.y = c at hc hreach hci
  have hfold : ∀ (l : List Ed) (p : Path), (l.foldl (fun p t => p.app t) p).es = l.reverse ++ p.es := by
    intro l
    induction l with
    | nil => intro p; rfl
    | cons t l ih =>
      intro p
      rw [List.foldl_cons, ih]
      cases t <;> simp [Path.app]
  rw [hfold, List.reverse_append, List.reverse_reverse, IdsEqual_append]
  refine ⟨hci, ?_⟩
  rw [lenX_reverse, lenY_reverse, Int.zero_add, Int.zero_add, ← hc.1.2.1, ← hc.1.2.2, hreach.1, hreach.2]
  exact hi.2

end Gopatch.AD
