import GopatchModel.AstDiff
/-
  Spec/AstDiffSpec.lean — what the regions reported by `changeFinder.Walk` are made of:
  every end point of a reported region is the start or end of the region the walk was
  given, or a position that occurs in the old snapshot value (a node's Pos/End, a
  token.Pos field, the Pos/End of an associated comment).  Nothing is computed
  from the new tree, and nothing is invented.
-/
namespace Gopatch.AD

/-- every comment of every group satisfies `P` at both ends -/
def CGAll (P : Nat → Prop) (cms : List CG) : Prop := ∀ cg ∈ cms, ∀ c ∈ cg, P c.1 ∧ P c.2

mutual
/-- every position stored anywhere in the value satisfies `P` -/
def AllPos (P : Nat → Prop) : AV → Prop
  | .mk _ _ _ p e cms _ _ _ kids => P p ∧ P e ∧ CGAll P cms ∧ AllPosL P kids
def AllPosL (P : Nat → Prop) : List AV → Prop
  | [] => True
  | v :: vs => AllPos P v ∧ AllPosL P vs
end

def RgP (P : Nat → Prop) (r : Rg) : Prop := P r.pos ∧ P r.stop

theorem AllPos.pos {P : Nat → Prop} {v : AV} (h : AllPos P v) : P v.pos := by
  cases v; simp only [AllPos] at h; exact h.1
theorem AllPos.stop {P : Nat → Prop} {v : AV} (h : AllPos P v) : P v.stop := by
  cases v; simp only [AllPos] at h; exact h.2.1
theorem AllPos.cms {P : Nat → Prop} {v : AV} (h : AllPos P v) : CGAll P v.cms := by
  cases v; simp only [AllPos] at h; exact h.2.2.1
theorem AllPos.kids {P : Nat → Prop} {v : AV} (h : AllPos P v) : AllPosL P v.kids := by
  cases v; simp only [AllPos] at h; exact h.2.2.2

theorem max_cases (P : Nat → Prop) (a b : Nat) (ha : P a) (hb : P b) : P (max a b) := by
  rcases Nat.le_total a b with h | h
  · rw [Nat.max_eq_right h]; exact hb
  · rw [Nat.max_eq_left h]; exact ha

theorem min_cases (P : Nat → Prop) (a b : Nat) (ha : P a) (hb : P b) : P (min a b) := by
  rcases Nat.le_total a b with h | h
  · rw [Nat.min_eq_left h]; exact ha
  · rw [Nat.min_eq_right h]; exact hb

/-- the comments `commentsFor` returns are comments of the node's groups -/
theorem commentsFor_P (P : Nat → Prop) (n : AV) (h : CGAll P n.cms) :
    (∀ c ∈ (commentsFor n).1, P c.1 ∧ P c.2) ∧ (∀ c ∈ (commentsFor n).2, P c.1 ∧ P c.2) := by
  unfold commentsFor
  generalize n.cms = cms at h
  suffices H : ∀ (acc : CG × CG), ((∀ c ∈ acc.1, P c.1 ∧ P c.2) ∧ (∀ c ∈ acc.2, P c.1 ∧ P c.2)) →
      ((∀ c ∈ (cms.foldl (fun (acc : CG × CG) cg =>
        match cg.head?, cg.getLast? with
        | some first, some last =>
            let b := if last.2 ≤ n.pos then acc.1 ++ cg else acc.1
            let a := if first.1 ≥ n.stop then acc.2 ++ cg else acc.2
            (b, a)
        | _, _ => acc) acc).1, P c.1 ∧ P c.2) ∧
       (∀ c ∈ (cms.foldl (fun (acc : CG × CG) cg =>
        match cg.head?, cg.getLast? with
        | some first, some last =>
            let b := if last.2 ≤ n.pos then acc.1 ++ cg else acc.1
            let a := if first.1 ≥ n.stop then acc.2 ++ cg else acc.2
            (b, a)
        | _, _ => acc) acc).2, P c.1 ∧ P c.2)) by
    exact H ([], []) ⟨by simp, by simp⟩
  induction cms with
  | nil => intro acc hacc; simpa using hacc
  | cons cg rest ih =>
    intro acc hacc
    simp only [List.foldl_cons]
    apply ih (fun g hg => h g (List.mem_cons_of_mem _ hg))
    have hcg := h cg (List.mem_cons_self ..)
    split
    · constructor
      · simp only []
        split
        · intro c hc
          rcases List.mem_append.1 hc with h1 | h1
          · exact hacc.1 c h1
          · exact hcg c h1
        · exact hacc.1
      · simp only []
        split
        · intro c hc
          rcases List.mem_append.1 hc with h1 | h1
          · exact hacc.2 c h1
          · exact hcg c h1
        · exact hacc.2
    · exact hacc

theorem getLast?_mem {α} {l : List α} {a : α} (h : l.getLast? = some a) : a ∈ l :=
  List.mem_of_getLast? h

theorem head?_mem {α} {l : List α} {a : α} (h : l.head? = some a) : a ∈ l :=
  List.mem_of_head? h

/-- the starts of the fields of a struct -/
theorem starts_P (P : Nat → Prop) : ∀ (cs : List AV) (lastEnd : Nat), P lastEnd → AllPosL P cs →
    ∀ s ∈ starts lastEnd cs, P s
  | [], _, _, _ => by simp [starts]
  | c :: cs, lastEnd, hl, hcs => by
    simp only [AllPosL] at hcs
    obtain ⟨hc, hrest⟩ := hcs
    unfold starts
    split
    · -- a node
      have hafter := (commentsFor_P P c hc.cms).2
      intro s hs
      rcases List.mem_cons.1 hs with rfl | hs
      · exact hc.pos
      · refine starts_P P cs _ ?_ hrest s hs
        split
        · rename_i l hl'
          exact max_cases P _ _ hc.stop (hafter l (getLast?_mem hl')).2
        · exact hc.stop
    · split
      · intro s hs
        rcases List.mem_cons.1 hs with rfl | hs
        · split
          · exact hc.pos
          · exact hl
        · exact starts_P P cs _ hl hrest s hs
      · intro s hs
        rcases List.mem_cons.1 hs with rfl | hs
        · exact hl
        · exact starts_P P cs _ hl hrest s hs

/-- the ends of the fields of a struct -/
theorem ends_P (P : Nat → Prop) (stop : Nat) (hstop : P stop) : ∀ (l : List (AV × Nat)),
    (∀ p ∈ l, P p.1.stop ∧ P p.2) → ∀ e ∈ ends stop l, P e
  | [], _ => by simp [ends]
  | [(c, s)], h => by
    have hc := h (c, s) (List.mem_cons_self ..)
    simp only [ends, List.mem_singleton]
    intro e he; subst he
    split
    · exact hc.1
    · exact hstop
  | (c, s) :: (c2, s2) :: rest, h => by
    have hc := h (c, s) (List.mem_cons_self ..)
    have hc2 := h (c2, s2) (List.mem_cons_of_mem _ (List.mem_cons_self ..))
    simp only [ends]
    intro e he
    rcases List.mem_cons.1 he with rfl | he
    · split
      · exact hc.1
      · exact hc2.2
    · exact ends_P P stop hstop ((c2, s2) :: rest) (fun p hp => h p (List.mem_cons_of_mem _ hp)) e he

theorem AllPosL_mem {P : Nat → Prop} : ∀ {l : List AV}, AllPosL P l → ∀ v ∈ l, AllPos P v
  | [], _, v, hv => by cases hv
  | a :: as, h, v, hv => by
    simp only [AllPosL] at h
    rcases List.mem_cons.1 hv with rfl | hv
    · exact h.1
    · exact AllPosL_mem h.2 v hv

/-- the regions of the fields of a struct are made of the region given and positions of the fields -/
theorem fieldRegions_P (P : Nat → Prop) (R : Rg) (hR : RgP P R) (fs : List AV) (hfs : AllPosL P fs) :
    ∀ r ∈ fieldRegions R fs, RgP P r := by
  intro r hr
  simp only [fieldRegions, List.mem_map] at hr
  obtain ⟨⟨s, e⟩, hmem, rfl⟩ := hr
  have hs : s ∈ starts R.pos fs := (List.of_mem_zip hmem).1
  have he : e ∈ ends R.stop (fs.zip (starts R.pos fs)) := (List.of_mem_zip hmem).2
  constructor
  · exact starts_P P fs R.pos hR.1 hfs s hs
  · refine ends_P P R.stop hR.2 _ ?_ e he
    intro p hp
    have := List.of_mem_zip hp
    exact ⟨(AllPosL_mem hfs p.1 this.1).stop, starts_P P fs R.pos hR.1 hfs p.2 this.2⟩

/-- the region of one element of a slice of nodes -/
theorem elemRegion_P (P : Nat → Prop) (R : Rg) (hR : RgP P R) (prev : Option AV) (n : AV) (next : Option AV)
    (hp : ∀ v, prev = some v → AllPos P v) (hn : AllPos P n) (hx : ∀ v, next = some v → AllPos P v) :
    RgP P (elemRegion R prev n next) := by
  have hcn := commentsFor_P P n hn.cms
  have h1 : P (startAfter R prev n) := by
    unfold startAfter
    cases prev with
    | none => exact hR.1
    | some pv => simp only []; split; exact (hp pv rfl).stop; exact hn.pos
  have h2 : P (endBefore R n next) := by
    unfold endBefore
    cases next with
    | none => exact hR.2
    | some nx => simp only []; split; exact (hx nx rfl).pos; exact hn.stop
  unfold elemRegion
  simp only []
  constructor
  · simp only []
    split
    · rename_i l hl
      exact max_cases P _ _ h1 (hcn.1 l (getLast?_mem hl)).2
    · exact h1
  · simp only []
    split
    · rename_i a ha
      exact min_cases P _ _ h2 (hcn.2 a (head?_mem ha)).1
    · exact h2

theorem elemRegions_P (P : Nat → Prop) (R : Rg) (hR : RgP P R) : ∀ (l : List AV) (prev : Option AV),
    (∀ v, prev = some v → AllPos P v) → AllPosL P l → ∀ r ∈ elemRegions R prev l, RgP P r
  | [], _, _, _ => by simp [elemRegions]
  | n :: rest, prev, hp, hl => by
    simp only [AllPosL] at hl
    intro r hr
    simp only [elemRegions] at hr
    rcases List.mem_cons.1 hr with rfl | hr
    · refine elemRegion_P P R hR prev n rest.head? hp hl.1 ?_
      intro v hv
      exact AllPosL_mem hl.2 v (head?_mem hv)
    · exact elemRegions_P P R hR rest (some n) (fun v hv => by cases hv; exact hl.1) hl.2 r hr

mutual
/-- **Nothing is invented.** Every region `Walk` reports is made of the end points of the region
it was given and of positions stored in the old snapshot. -/
theorem walk_P (P : Nat → Prop) : ∀ (src : AV) (R : Rg) (to : AV), RgP P R → AllPos P src →
    ∀ r ∈ (walk R src to).ch, RgP P r
  | .mk ty k isn p e cms nl pl en kids, R, to, hR, hsrc => by
    intro r hr
    simp only [AllPos] at hsrc
    obtain ⟨_, _, _, hkids⟩ := hsrc
    unfold walk at hr
    simp only [] at hr
    repeat' split at hr
    all_goals first
      | (simp only [List.not_mem_nil] at hr; done)
      | (simp only [List.mem_singleton] at hr; subst hr; exact hR)
      | exact walkElem_P P kids R to.kids hR hkids r hr
      | exact walkPlain_P P kids R to.kids hR hkids r hr
      | exact walkFates_P P kids _ _ to.kids (elemRegions_P P R hR kids none (by intro v hv; cases hv) hkids) hkids r hr
      | exact walkFields_P P kids _ to.kids (fieldRegions_P P R hR kids hkids) hkids r hr
theorem walkElem_P (P : Nat → Prop) : ∀ (fs : List AV) (R : Rg) (tl : List AV), RgP P R → AllPosL P fs →
    ∀ r ∈ (walkElem R fs tl).2.1, RgP P r
  | [], R, tl, hR, h => by
    intro r hr; unfold walkElem at hr; simp at hr
  | f :: fs, R, [], hR, h => by
    intro r hr; unfold walkElem at hr; simp at hr
  | f :: fs, R, t :: ts, hR, h => by
    intro r hr
    simp only [AllPosL] at h
    unfold walkElem at hr
    simp only [] at hr
    exact walk_P P f R t hR h.1 r hr
theorem walkPlain_P (P : Nat → Prop) : ∀ (fl : List AV) (R : Rg) (tl : List AV), RgP P R → AllPosL P fl →
    ∀ r ∈ (walkPlain R fl tl).2.1, RgP P r
  | [], R, tl, hR, h => by
    intro r hr; unfold walkPlain at hr; simp at hr
  | f :: fs, R, [], hR, h => by
    intro r hr; unfold walkPlain at hr; simp at hr
  | f :: fs, R, t :: ts, hR, h => by
    intro r hr
    simp only [AllPosL] at h
    unfold walkPlain at hr
    simp only [] at hr
    rcases List.mem_append.1 hr with h1 | h1
    · exact walk_P P f R t hR h.1 r h1
    · exact walkPlain_P P fs R ts hR h.2 r h1
theorem walkFields_P (P : Nat → Prop) : ∀ (fl : List AV) (rl : List Rg) (tl : List AV), (∀ r ∈ rl, RgP P r) → AllPosL P fl →
    ∀ r ∈ (walkFields rl fl tl).2.1, RgP P r
  | [], rl, tl, hR, h => by
    intro r hr; unfold walkFields at hr; simp at hr
  | f :: fs, [], tl, hR, h => by
    intro r hr; unfold walkFields at hr; simp at hr
  | f :: fs, r0 :: rs, [], hR, h => by
    intro r hr; unfold walkFields at hr; simp at hr
  | f :: fs, r0 :: rs, t :: ts, hR, h => by
    intro r hr
    simp only [AllPosL] at h
    unfold walkFields at hr
    simp only [] at hr
    rcases List.mem_append.1 hr with h1 | h1
    · exact walk_P P f r0 t (hR r0 (List.mem_cons_self ..)) h.1 r h1
    · exact walkFields_P P fs rs ts (fun x hx => hR x (List.mem_cons_of_mem _ hx)) h.2 r h1
theorem walkFates_P (P : Nat → Prop) : ∀ (fl : List AV) (rl : List Rg) (ftl : List Fate) (ts : List AV),
    (∀ r ∈ rl, RgP P r) → AllPosL P fl → ∀ r ∈ (walkFates rl ftl fl ts).1, RgP P r
  | [], rl, ftl, ts, hR, h => by
    intro r hr; unfold walkFates at hr; simp at hr
  | f :: fs, [], ftl, ts, hR, h => by
    intro r hr; unfold walkFates at hr; simp at hr
  | f :: fs, r0 :: rs, [], ts, hR, h => by
    intro r hr; unfold walkFates at hr; simp at hr
  | f :: fs, r0 :: rs, ft :: fts, ts, hR, h => by
    intro r hr
    simp only [AllPosL] at h
    have hR' : ∀ x ∈ rs, RgP P x := fun x hx => hR x (List.mem_cons_of_mem _ hx)
    unfold walkFates at hr
    simp only [] at hr
    cases ft with
    | same j =>
      simp only [] at hr
      exact walkFates_P P fs rs fts _ hR' h.2 r hr
    | modified j =>
      simp only [] at hr
      split at hr
      · simp only [] at hr
        rcases List.mem_append.1 hr with h1 | h1
        · exact walk_P P f r0 _ (hR r0 (List.mem_cons_self ..)) h.1 r h1
        · exact walkFates_P P fs rs fts _ hR' h.2 r h1
      · simp only [] at hr
        exact walkFates_P P fs rs fts _ hR' h.2 r hr
    | deleted =>
      simp only [] at hr
      rcases List.mem_cons.1 hr with rfl | h1
      · exact hR _ (List.mem_cons_self ..)
      · exact walkFates_P P fs rs fts _ hR' h.2 r h1
end

/-! ### elements of a list that were paired as identical report nothing; the others report only around themselves -/

/-- all positions on one side of the stretch `[lo, hi)`: at or before its start, or (NoPos or) at or after its end -/
def oneSide (lo hi : Nat) (left : Bool) (p : Nat) : Prop := if left then p ≤ lo else (p = 0 ∨ hi ≤ p)

/-- the region does not reach into `[lo, hi)` (a region that starts at NoPos is ignored by the comment filter) -/
def clearOfStretch (lo hi : Nat) (r : Rg) : Prop := r.stop ≤ lo ∨ r.pos = 0 ∨ hi ≤ r.pos

theorem oneSide_clear (lo hi : Nat) (side : Bool) (r : Rg) (h : RgP (oneSide lo hi side) r) : clearOfStretch lo hi r := by
  cases side with
  | true => left; simpa [oneSide] using h.2
  | false => right; simpa [oneSide] using h.1

/-- every element of the old list that is not paired as identical lies, with its region, on one side of `[lo, hi)` -/
def Sep (lo hi : Nat) : List AV → List Rg → List Fate → Prop
  | f :: fs, r :: rs, ft :: fts =>
      (match ft with
       | .same _ => True
       | _ => ∃ side, RgP (oneSide lo hi side) r ∧ AllPos (oneSide lo hi side) f) ∧ Sep lo hi fs rs fts
  | _, _, _ => True

/-- **Untouched neighbours are left alone.** Walking a list of nodes reports regions only for the elements
that the edit script does not pair as identical, and each such region is made of positions of that element
and of its own region; if those lie on one side of a stretch `[lo, hi)` (the extent of an element paired as
identical, say), no reported region reaches into the stretch — whatever the new list looks like. -/
theorem walkFates_clear (lo hi : Nat) : ∀ (fl : List AV) (rl : List Rg) (ftl : List Fate) (ts : List AV),
    Sep lo hi fl rl ftl → ∀ r ∈ (walkFates rl ftl fl ts).1, clearOfStretch lo hi r
  | [], rl, ftl, ts, _ => by
    intro r hr; unfold walkFates at hr; simp at hr
  | f :: fs, [], ftl, ts, _ => by
    intro r hr; unfold walkFates at hr; simp at hr
  | f :: fs, r0 :: rs, [], ts, _ => by
    intro r hr; unfold walkFates at hr; simp at hr
  | f :: fs, r0 :: rs, ft :: fts, ts, h => by
    intro r hr
    simp only [Sep] at h
    obtain ⟨h0, hrest⟩ := h
    unfold walkFates at hr
    simp only [] at hr
    cases ft with
    | same j =>
      simp only [] at hr
      exact walkFates_clear lo hi fs rs fts _ hrest r hr
    | modified j =>
      simp only [] at hr h0
      obtain ⟨side, hr0, hf⟩ := h0
      split at hr
      · simp only [] at hr
        rcases List.mem_append.1 hr with h1 | h1
        · exact oneSide_clear lo hi side r (walk_P _ f r0 _ hr0 hf r h1)
        · exact walkFates_clear lo hi fs rs fts _ hrest r h1
      · simp only [] at hr
        exact walkFates_clear lo hi fs rs fts _ hrest r hr
    | deleted =>
      simp only [] at hr h0
      obtain ⟨side, hr0, _⟩ := h0
      rcases List.mem_cons.1 hr with rfl | h1
      · exact oneSide_clear lo hi side _ hr0
      · exact walkFates_clear lo hi fs rs fts _ hrest r h1

/-- the same statement for `Walk` on a slice of nodes -/
theorem walk_nodes_clear (lo hi : Nat) (R : Rg) (ty : String) (isn : Bool) (p e : Nat) (cms : List CG) (nl : Bool) (pl : String)
    (kids : List AV) (to : AV) (hty : ty = to.ty) (h1 : ty ≠ tyObject) (h2 : ty ≠ tyCommentGroup) (h3 : ty ≠ tyPos)
    (hsep : Sep lo hi kids (elemRegions R none kids) (fates (alignSlices (cmpRows kids to.kids) kids.length to.kids.length).1 0)) :
    ∀ r ∈ (walk R (.mk ty kSlice isn p e cms nl pl true kids) to).ch, clearOfStretch lo hi r := by
  intro r hr
  unfold walk at hr
  simp [hty, kSlice, kPtr, kIface] at hr
  have e1 : ¬ to.ty = tyObject := hty ▸ h1
  have e2 : ¬ to.ty = tyCommentGroup := hty ▸ h2
  have e3 : ¬ to.ty = tyPos := hty ▸ h3
  simp only [e1, e2, e3, ↓reduceIte] at hr
  exact walkFates_clear lo hi kids _ _ to.kids hsep r hr

end Gopatch.AD
