import GopatchModel.AstDiff
/-
  Spec/AstDiffSpec.lean — what the regions reported by `changeFinder.Walk` are made of:
  every start of a reported region is the start of the region the walk was given or a
  position of the old snapshot value that can start a region (Pos/End of a node, a valid
  token.Pos field, pushed right by the end of an associated comment); every end is the
  end of the region given, such a position, or one pulled left by the start of an
  associated comment.  Nothing is computed from the new tree, and nothing is invented.
-/
namespace Gopatch.AD

/-- what may start a region (`A`), end one (`B`), and where comments may lie (`C`) -/
structure Flow where
  A : Nat → Prop
  B : Nat → Prop
  C : Nat → Prop
  ab : ∀ p, A p → B p
  amax : ∀ a c, A a → C c → A (max a c)
  bmin : ∀ b c, B b → C c → B (min b c)

/-- every comment of every group satisfies `P` at both ends -/
def CGAll (P : Nat → Prop) (cms : List CG) : Prop := ∀ cg ∈ cms, ∀ c ∈ cg, P c.1 ∧ P c.2

/-- the elements of a slice of nodes: their Pos/End are read whether they are nil or not -/
def ElemsOK (F : Flow) (l : List AV) : Prop := ∀ v ∈ l, F.A v.pos ∧ F.A v.stop

mutual
/-- every position of the value that can reach a region satisfies the flow: Pos/End of nodes, valid token.Pos
fields, Pos/End of the elements of slices of nodes (`A`); the comments associated with nodes (`C`) -/
def AllPos (F : Flow) : AV → Prop
  | .mk ty _ isn p e cms _ _ en kids =>
      (isn = true → F.A p ∧ F.A e) ∧ (ty = tyPos → p ≠ 0 → F.A p) ∧ CGAll F.C cms ∧
      (en = true → ElemsOK F kids) ∧ AllPosL F kids
def AllPosL (F : Flow) : List AV → Prop
  | [] => True
  | v :: vs => AllPos F v ∧ AllPosL F vs
end

def RgP (F : Flow) (r : Rg) : Prop := F.A r.pos ∧ F.B r.stop

theorem AllPos.node {F : Flow} {v : AV} (h : AllPos F v) (hn : v.isNode = true) : F.A v.pos ∧ F.A v.stop := by
  cases v; simp only [AllPos] at h; exact h.1 hn
theorem AllPos.posLeaf {F : Flow} {v : AV} (h : AllPos F v) (ht : v.ty = tyPos) (hp : v.pos ≠ 0) : F.A v.pos := by
  cases v; simp only [AllPos] at h; exact h.2.1 ht hp
theorem AllPos.cms {F : Flow} {v : AV} (h : AllPos F v) : CGAll F.C v.cms := by
  cases v; simp only [AllPos] at h; exact h.2.2.1

/-- the comments `commentsFor` returns are comments of the node's groups -/
theorem commentsFor_P (P : Nat → Prop) (n : AV) (h : CGAll P n.cms) :
    (∀ c ∈ (commentsFor n).1, P c.1 ∧ P c.2) ∧ (∀ c ∈ (commentsFor n).2, P c.1 ∧ P c.2) := by
  unfold commentsFor
  generalize n.cms = cms at h
  suffices H : ∀ (acc : CG × CG), ((∀ c ∈ acc.1, P c.1 ∧ P c.2) ∧ (∀ c ∈ acc.2, P c.1 ∧ P c.2)) →
      ((∀ c ∈ (cms.foldl (fun (acc : CG × CG) cg =>
        match cg.head?, cg.getLast? with
        | some first, some last =>
            let b := if last.2 ≤ n.pos then acc.1 ++ cg else acc.1
            let a := if first.1 ≥ n.stop then acc.2 ++ cg else acc.2
            (b, a)
        | _, _ => acc) acc).1, P c.1 ∧ P c.2) ∧
       (∀ c ∈ (cms.foldl (fun (acc : CG × CG) cg =>
        match cg.head?, cg.getLast? with
        | some first, some last =>
            let b := if last.2 ≤ n.pos then acc.1 ++ cg else acc.1
            let a := if first.1 ≥ n.stop then acc.2 ++ cg else acc.2
            (b, a)
        | _, _ => acc) acc).2, P c.1 ∧ P c.2)) by
    exact H ([], []) ⟨by simp, by simp⟩
  induction cms with
  | nil => intro acc hacc; simpa using hacc
  | cons cg rest ih =>
    intro acc hacc
    simp only [List.foldl_cons]
    apply ih (fun g hg => h g (List.mem_cons_of_mem _ hg))
    have hcg := h cg (List.mem_cons_self ..)
    split
    · constructor
      · simp only []
        split
        · intro c hc
          rcases List.mem_append.1 hc with h1 | h1
          · exact hacc.1 c h1
          · exact hcg c h1
        · exact hacc.1
      · simp only []
        split
        · intro c hc
          rcases List.mem_append.1 hc with h1 | h1
          · exact hacc.2 c h1
          · exact hcg c h1
        · exact hacc.2
    · exact hacc

theorem getLast?_mem {α} {l : List α} {a : α} (h : l.getLast? = some a) : a ∈ l :=
  List.mem_of_getLast? h

theorem head?_mem {α} {l : List α} {a : α} (h : l.head? = some a) : a ∈ l :=
  List.mem_of_head? h


/-- where the trailing comments of a node stop is the node's end or the end of one of its comments -/
theorem trailEnd_P (F : Flow) (n : AV) (hstop : F.A n.stop) (h : CGAll F.C n.cms) : F.A (trailEnd n) := by
  unfold trailEnd
  generalize n.cms = cms at h
  generalize n.stop = acc at hstop
  induction cms generalizing acc with
  | nil => simpa using hstop
  | cons cg rest ih =>
    simp only [List.foldl_cons]
    have hcg := h cg (List.mem_cons_self ..)
    apply ih (fun g hg => h g (List.mem_cons_of_mem _ hg))
    split
    · rename_i first last _ hl
      split
      · exact F.amax _ _ hstop (hcg last (getLast?_mem hl)).2
      · exact hstop
    · exact hstop

/-- the starts of the fields of a struct -/
theorem starts_P (F : Flow) : ∀ (cs : List AV) (lastEnd : Nat), F.A lastEnd → AllPosL F cs →
    ∀ s ∈ starts lastEnd cs, F.A s
  | [], _, _, _ => by simp [starts]
  | c :: cs, lastEnd, hl, hcs => by
    simp only [AllPosL] at hcs
    obtain ⟨hc, hrest⟩ := hcs
    unfold starts
    split
    · -- a node
      rename_i hnode
      intro s hs
      rcases List.mem_cons.1 hs with rfl | hs
      · exact (hc.node hnode).1
      · exact starts_P F cs _ (trailEnd_P F c (hc.node hnode).2 hc.cms) hrest s hs
    · split
      · rename_i hty
        intro s hs
        rcases List.mem_cons.1 hs with rfl | hs
        · split
          · rename_i hp
            exact hc.posLeaf (by simpa using hty) (by simpa using hp)
          · exact hl
        · exact starts_P F cs _ hl hrest s hs
      · intro s hs
        rcases List.mem_cons.1 hs with rfl | hs
        · exact hl
        · exact starts_P F cs _ hl hrest s hs

/-- the ends of the fields of a struct -/
theorem ends_P (B : Nat → Prop) (stop : Nat) (hstop : B stop) : ∀ (l : List (AV × Nat)),
    (∀ p ∈ l, (p.1.isNode = true → B p.1.stop) ∧ B p.2) → ∀ e ∈ ends stop l, B e
  | [], _ => by simp [ends]
  | [(c, s)], h => by
    have hc := h (c, s) (List.mem_cons_self ..)
    simp only [ends, List.mem_singleton]
    intro e he; subst he
    split
    · rename_i hn; exact hc.1 hn
    · exact hstop
  | (c, s) :: (c2, s2) :: rest, h => by
    have hc := h (c, s) (List.mem_cons_self ..)
    have hc2 := h (c2, s2) (List.mem_cons_of_mem _ (List.mem_cons_self ..))
    simp only [ends]
    intro e he
    rcases List.mem_cons.1 he with rfl | he
    · split
      · rename_i hn; exact hc.1 hn
      · exact hc2.2
    · exact ends_P B stop hstop ((c2, s2) :: rest) (fun p hp => h p (List.mem_cons_of_mem _ hp)) e he

theorem AllPosL_mem {F : Flow} : ∀ {l : List AV}, AllPosL F l → ∀ v ∈ l, AllPos F v
  | [], _, v, hv => by cases hv
  | a :: as, h, v, hv => by
    simp only [AllPosL] at h
    rcases List.mem_cons.1 hv with rfl | hv
    · exact h.1
    · exact AllPosL_mem h.2 v hv

/-- the regions of the fields of a struct are made of the region given and positions of the fields -/
theorem fieldRegions_P (F : Flow) (R : Rg) (hR : RgP F R) (fs : List AV) (hfs : AllPosL F fs) :
    ∀ r ∈ fieldRegions R fs, RgP F r := by
  intro r hr
  simp only [fieldRegions, List.mem_map] at hr
  obtain ⟨⟨s, e⟩, hmem, rfl⟩ := hr
  have hs : s ∈ starts R.pos fs := (List.of_mem_zip hmem).1
  have he : e ∈ ends R.stop (fs.zip (starts R.pos fs)) := (List.of_mem_zip hmem).2
  constructor
  · exact starts_P F fs R.pos hR.1 hfs s hs
  · refine ends_P F.B R.stop hR.2 _ ?_ e he
    intro p hp
    have := List.of_mem_zip hp
    exact ⟨fun hn => F.ab _ ((AllPosL_mem hfs p.1 this.1).node hn).2, F.ab _ (starts_P F fs R.pos hR.1 hfs p.2 this.2)⟩

/-- the region of one element of a slice of nodes -/
theorem elemRegion_P (F : Flow) (R : Rg) (hR : RgP F R) (prev : Option AV) (n : AV) (next : Option AV)
    (hp : ∀ v, prev = some v → F.A v.pos ∧ F.A v.stop) (hn : F.A n.pos ∧ F.A n.stop) (hc : CGAll F.C n.cms)
    (hx : ∀ v, next = some v → F.A v.pos ∧ F.A v.stop) :
    RgP F (elemRegion R prev n next) := by
  have hcn := commentsFor_P F.C n hc
  have h1 : F.A (startAfter R prev n) := by
    unfold startAfter
    cases prev with
    | none => exact hR.1
    | some pv => simp only []; split; exact (hp pv rfl).2; exact hn.1
  have h2 : F.B (endBefore R n next) := by
    unfold endBefore
    cases next with
    | none => exact hR.2
    | some nx => simp only []; split; exact F.ab _ (hx nx rfl).1; exact F.ab _ hn.2
  unfold elemRegion
  simp only []
  constructor
  · simp only []
    split
    · rename_i l hl
      exact F.amax _ _ h1 (hcn.1 l (getLast?_mem hl)).2
    · exact h1
  · simp only []
    split
    · rename_i a ha
      exact F.bmin _ _ h2 (hcn.2 a (head?_mem ha)).1
    · exact h2

theorem elemRegions_P (F : Flow) (R : Rg) (hR : RgP F R) : ∀ (l : List AV) (prev : Option AV),
    (∀ v, prev = some v → F.A v.pos ∧ F.A v.stop) → ElemsOK F l → AllPosL F l → ∀ r ∈ elemRegions R prev l, RgP F r
  | [], _, _, _, _ => by simp [elemRegions]
  | n :: rest, prev, hp, he, hl => by
    simp only [AllPosL] at hl
    have hn := he n (List.mem_cons_self ..)
    have he' : ElemsOK F rest := fun v hv => he v (List.mem_cons_of_mem _ hv)
    intro r hr
    simp only [elemRegions] at hr
    rcases List.mem_cons.1 hr with rfl | hr
    · refine elemRegion_P F R hR prev n rest.head? hp hn hl.1.cms ?_
      intro v hv
      exact he' v (head?_mem hv)
    · exact elemRegions_P F R hR rest (some n) (fun v hv => by cases hv; exact hn) he' hl.2 r hr

mutual
/-- **Nothing is invented.** Every region `Walk` reports is made of the end points of the region
it was given and of positions stored in the old snapshot; the end of the region given is used for ends of regions only
(`A` for what may start a region, `B` for what may end one). -/
theorem walk_P (F : Flow) : ∀ (src : AV) (R : Rg) (to : AV), RgP F R → AllPos F src →
    ∀ r ∈ (walk R src to).ch, RgP F r
  | .mk ty k isn p e cms nl pl en kids, R, to, hR, hsrc => by
    intro r hr
    simp only [AllPos] at hsrc
    obtain ⟨_, _, _, hen, hkids⟩ := hsrc
    unfold walk at hr
    simp only [] at hr
    repeat' split at hr
    all_goals first
      | (simp only [List.not_mem_nil] at hr; done)
      | (simp only [List.mem_singleton] at hr; subst hr; exact hR)
      | exact walkElem_P F kids R to.kids hR hkids r hr
      | exact walkPlain_P F kids R to.kids hR hkids r hr
      | exact walkFates_P F kids _ _ to.kids (elemRegions_P F R hR kids none (by intro v hv; cases hv) (hen (by cases en <;> simp_all)) hkids) hkids r hr
      | exact walkFields_P F kids _ to.kids (fieldRegions_P F R hR kids hkids) hkids r hr
theorem walkElem_P (F : Flow) : ∀ (fs : List AV) (R : Rg) (tl : List AV), RgP F R → AllPosL F fs →
    ∀ r ∈ (walkElem R fs tl).2.1, RgP F r
  | [], R, tl, hR, h => by
    intro r hr; unfold walkElem at hr; simp at hr
  | f :: fs, R, [], hR, h => by
    intro r hr; unfold walkElem at hr; simp at hr
  | f :: fs, R, t :: ts, hR, h => by
    intro r hr
    simp only [AllPosL] at h
    unfold walkElem at hr
    simp only [] at hr
    exact walk_P F f R t hR h.1 r hr
theorem walkPlain_P (F : Flow) : ∀ (fl : List AV) (R : Rg) (tl : List AV), RgP F R → AllPosL F fl →
    ∀ r ∈ (walkPlain R fl tl).2.1, RgP F r
  | [], R, tl, hR, h => by
    intro r hr; unfold walkPlain at hr; simp at hr
  | f :: fs, R, [], hR, h => by
    intro r hr; unfold walkPlain at hr; simp at hr
  | f :: fs, R, t :: ts, hR, h => by
    intro r hr
    simp only [AllPosL] at h
    unfold walkPlain at hr
    simp only [] at hr
    rcases List.mem_append.1 hr with h1 | h1
    · exact walk_P F f R t hR h.1 r h1
    · exact walkPlain_P F fs R ts hR h.2 r h1
theorem walkFields_P (F : Flow) : ∀ (fl : List AV) (rl : List Rg) (tl : List AV), (∀ r ∈ rl, RgP F r) → AllPosL F fl →
    ∀ r ∈ (walkFields rl fl tl).2.1, RgP F r
  | [], rl, tl, hR, h => by
    intro r hr; unfold walkFields at hr; simp at hr
  | f :: fs, [], tl, hR, h => by
    intro r hr; unfold walkFields at hr; simp at hr
  | f :: fs, r0 :: rs, [], hR, h => by
    intro r hr; unfold walkFields at hr; simp at hr
  | f :: fs, r0 :: rs, t :: ts, hR, h => by
    intro r hr
    simp only [AllPosL] at h
    unfold walkFields at hr
    simp only [] at hr
    rcases List.mem_append.1 hr with h1 | h1
    · exact walk_P F f r0 t (hR r0 (List.mem_cons_self ..)) h.1 r h1
    · exact walkFields_P F fs rs ts (fun x hx => hR x (List.mem_cons_of_mem _ hx)) h.2 r h1
theorem walkFates_P (F : Flow) : ∀ (fl : List AV) (rl : List Rg) (ftl : List Fate) (ts : List AV),
    (∀ r ∈ rl, RgP F r) → AllPosL F fl → ∀ r ∈ (walkFates rl ftl fl ts).1, RgP F r
  | [], rl, ftl, ts, hR, h => by
    intro r hr; unfold walkFates at hr; simp at hr
  | f :: fs, [], ftl, ts, hR, h => by
    intro r hr; unfold walkFates at hr; simp at hr
  | f :: fs, r0 :: rs, [], ts, hR, h => by
    intro r hr; unfold walkFates at hr; simp at hr
  | f :: fs, r0 :: rs, ft :: fts, ts, hR, h => by
    intro r hr
    simp only [AllPosL] at h
    have hR' : ∀ x ∈ rs, RgP F x := fun x hx => hR x (List.mem_cons_of_mem _ hx)
    unfold walkFates at hr
    simp only [] at hr
    cases ft with
    | same j =>
      simp only [] at hr
      exact walkFates_P F fs rs fts _ hR' h.2 r hr
    | modified j =>
      simp only [] at hr
      split at hr
      · simp only [] at hr
        rcases List.mem_append.1 hr with h1 | h1
        · exact walk_P F f r0 _ (hR r0 (List.mem_cons_self ..)) h.1 r h1
        · exact walkFates_P F fs rs fts _ hR' h.2 r h1
      · simp only [] at hr
        exact walkFates_P F fs rs fts _ hR' h.2 r hr
    | deleted =>
      simp only [] at hr
      rcases List.mem_cons.1 hr with rfl | h1
      · exact hR _ (List.mem_cons_self ..)
      · exact walkFates_P F fs rs fts _ hR' h.2 r h1
end

/-! ### elements of a list that were paired as identical report nothing; the others report only around themselves -/

/-- a flow in which everything satisfies one predicate (closed under max and min because these pick one of their arguments) -/
def flowOf (P : Nat → Prop) : Flow :=
  { A := P, B := P, C := P, ab := fun _ h => h,
    amax := fun a c ha hc => by
      rcases Nat.le_total a c with h | h
      · rw [Nat.max_eq_right h]; exact hc
      · rw [Nat.max_eq_left h]; exact ha
    bmin := fun b c hb hc => by
      rcases Nat.le_total b c with h | h
      · rw [Nat.min_eq_left h]; exact hb
      · rw [Nat.min_eq_right h]; exact hc }

/-- everything at or before the start of the stretch `[lo, hi)` -/
def leftFlow (lo : Nat) : Flow := flowOf (fun p => p ≤ lo)

/-- starts at or after the end of the stretch `[lo, hi)`; ends and comments are free: a comment only pushes a start to the
right or pulls an end to the left (the region of the last declaration of a file ends at FileStart, an inverted region;
go/ast's comment map may hand a comment that lies inside one declaration to the next one) -/
def rightFlow (hi : Nat) : Flow :=
  { A := fun p => hi ≤ p, B := fun _ => True, C := fun _ => True, ab := fun _ _ => trivial,
    amax := fun a c ha _ => Nat.le_trans ha (Nat.le_max_left a c), bmin := fun _ _ _ _ => trivial }

/-- the element and its region lie on one side of the stretch `[lo, hi)` -/
def OneSide (lo hi : Nat) (r : Rg) (f : AV) : Prop :=
  (RgP (leftFlow lo) r ∧ AllPos (leftFlow lo) f) ∨ (RgP (rightFlow hi) r ∧ AllPos (rightFlow hi) f)

/-- the region does not reach into `[lo, hi)` -/
def clearOfStretch (lo hi : Nat) (r : Rg) : Prop := r.stop ≤ lo ∨ hi ≤ r.pos

/-- every element of the old list that is not paired as identical lies, with its region, on one side of `[lo, hi)` -/
def Sep (lo hi : Nat) : List AV → List Rg → List Fate → Prop
  | f :: fs, r :: rs, ft :: fts =>
      (match ft with
       | .same _ => True
       | _ => OneSide lo hi r f) ∧ Sep lo hi fs rs fts
  | _, _, _ => True

/-- **Untouched neighbours are left alone.** Walking a list of nodes reports regions only for the elements
that the edit script does not pair as identical, and each such region is made of positions of that element
and of its own region; if those lie on one side of a stretch `[lo, hi)` (the extent of an element paired as
identical, say), no reported region reaches into the stretch — whatever the new list looks like. -/
theorem walkFates_clear (lo hi : Nat) : ∀ (fl : List AV) (rl : List Rg) (ftl : List Fate) (ts : List AV),
    Sep lo hi fl rl ftl → ∀ r ∈ (walkFates rl ftl fl ts).1, clearOfStretch lo hi r
  | [], rl, ftl, ts, _ => by
    intro r hr; unfold walkFates at hr; simp at hr
  | f :: fs, [], ftl, ts, _ => by
    intro r hr; unfold walkFates at hr; simp at hr
  | f :: fs, r0 :: rs, [], ts, _ => by
    intro r hr; unfold walkFates at hr; simp at hr
  | f :: fs, r0 :: rs, ft :: fts, ts, h => by
    intro r hr
    simp only [Sep] at h
    obtain ⟨h0, hrest⟩ := h
    unfold walkFates at hr
    simp only [] at hr
    cases ft with
    | same j =>
      simp only [] at hr
      exact walkFates_clear lo hi fs rs fts _ hrest r hr
    | modified j =>
      simp only [] at hr h0
      split at hr
      · simp only [] at hr
        rcases List.mem_append.1 hr with h1 | h1
        · rcases h0 with ⟨hr0, hf⟩ | ⟨hr0, hf⟩
          · exact Or.inl (walk_P _ f r0 _ hr0 hf r h1).2
          · exact Or.inr (walk_P _ f r0 _ hr0 hf r h1).1
        · exact walkFates_clear lo hi fs rs fts _ hrest r h1
      · simp only [] at hr
        exact walkFates_clear lo hi fs rs fts _ hrest r hr
    | deleted =>
      simp only [] at hr h0
      rcases List.mem_cons.1 hr with rfl | h1
      · rcases h0 with ⟨hr0, _⟩ | ⟨hr0, _⟩
        · exact Or.inl hr0.2
        · exact Or.inr hr0.1
      · exact walkFates_clear lo hi fs rs fts _ hrest r h1

/-- the same statement for `Walk` on a slice of nodes -/
theorem walk_nodes_clear (lo hi : Nat) (R : Rg) (ty : String) (isn : Bool) (p e : Nat) (cms : List CG) (nl : Bool) (pl : String)
    (kids : List AV) (to : AV) (hty : ty = to.ty) (h1 : ty ≠ tyObject) (h2 : ty ≠ tyCommentGroup) (h3 : ty ≠ tyPos)
    (hsep : Sep lo hi kids (elemRegions R none kids) (fates (alignSlices (cmpRows kids to.kids) kids.length to.kids.length).1 0)) :
    ∀ r ∈ (walk R (.mk ty kSlice isn p e cms nl pl true kids) to).ch, clearOfStretch lo hi r := by
  intro r hr
  unfold walk at hr
  simp [hty, kSlice, kPtr, kIface] at hr
  have e1 : ¬ to.ty = tyObject := hty ▸ h1
  have e2 : ¬ to.ty = tyCommentGroup := hty ▸ h2
  have e3 : ¬ to.ty = tyPos := hty ▸ h3
  simp only [e1, e2, e3, ↓reduceIte] at hr
  exact walkFates_clear lo hi kids _ _ to.kids hsep r hr

/-! ### the tests the driver evaluates imply the hypotheses above -/

theorem cgAllB_sound (q : Nat → Bool) (cms : List CG) (h : cgAllB q cms = true) : CGAll (fun p => q p = true) cms := by
  intro cg hcg c hc
  simp only [cgAllB, List.all_eq_true, Bool.and_eq_true] at h
  exact h cg hcg c hc

mutual
theorem allPosB_sound (F : Flow) (a c : Nat → Bool) (ha : ∀ p, a p = true → F.A p) (hc : ∀ p, c p = true → F.C p) :
    ∀ v, allPosB a c v = true → AllPos F v
  | .mk ty _ isn p e cms _ _ en kids, h => by
    simp only [allPosB, Bool.and_eq_true, Bool.or_eq_true, Bool.not_eq_true'] at h
    obtain ⟨⟨⟨⟨h1, h2⟩, h3⟩, h4⟩, h5⟩ := h
    simp only [AllPos]
    refine ⟨?_, ?_, ?_, ?_, allPosLB_sound F a c ha hc kids h5⟩
    · intro hn
      rcases h1 with h1 | h1
      · simp [hn] at h1
      · exact ⟨ha _ h1.1, ha _ h1.2⟩
    · intro ht hp
      rcases h2 with h2 | h2
      · simp [ht, hp] at h2
      · exact ha _ h2
    · intro cg hcg x hx
      have := cgAllB_sound c cms h3 cg hcg x hx
      exact ⟨hc _ this.1, hc _ this.2⟩
    · intro hen v hv
      rcases h4 with h4 | h4
      · simp [hen] at h4
      · have := (List.all_eq_true.1 h4) v hv
        simp only [Bool.and_eq_true] at this
        exact ⟨ha _ this.1, ha _ this.2⟩
theorem allPosLB_sound (F : Flow) (a c : Nat → Bool) (ha : ∀ p, a p = true → F.A p) (hc : ∀ p, c p = true → F.C p) :
    ∀ vs, allPosLB a c vs = true → AllPosL F vs
  | [], _ => trivial
  | v :: vs, h => by
    simp only [allPosLB, Bool.and_eq_true] at h
    exact ⟨allPosB_sound F a c ha hc v h.1, allPosLB_sound F a c ha hc vs h.2⟩
end

theorem oneSideB_sound (lo hi : Nat) (r : Rg) (f : AV) (h : oneSideB lo hi r f = true) : OneSide lo hi r f := by
  simp only [oneSideB, Bool.or_eq_true, Bool.and_eq_true] at h
  rcases h with ⟨⟨h1, h2⟩, h3⟩ | ⟨h1, h3⟩
  · left
    refine ⟨⟨by simpa [leftOfB, leftFlow, flowOf] using h1, by simpa [leftOfB, leftFlow, flowOf] using h2⟩, ?_⟩
    exact allPosB_sound (leftFlow lo) _ _ (fun p hp => by simpa [leftOfB, leftFlow, flowOf] using hp)
      (fun p hp => by simpa [leftOfB, leftFlow, flowOf] using hp) f h3
  · right
    refine ⟨⟨by simpa [atOrAfterB, rightFlow] using h1, trivial⟩, ?_⟩
    exact allPosB_sound (rightFlow hi) _ _ (fun p hp => by simpa [atOrAfterB, rightFlow] using hp) (fun _ _ => trivial) f h3

theorem sepB_sound (lo hi : Nat) : ∀ (fs : List AV) (rs : List Rg) (fts : List Fate), sepB lo hi fs rs fts = true → Sep lo hi fs rs fts
  | [], _, _, _ => by simp [Sep]
  | _ :: _, [], _, _ => by simp [Sep]
  | _ :: _, _ :: _, [], _ => by simp [Sep]
  | f :: fs, r :: rs, ft :: fts, h => by
    simp only [sepB, Bool.and_eq_true] at h
    simp only [Sep]
    refine ⟨?_, sepB_sound lo hi fs rs fts h.2⟩
    cases ft with
    | same j => trivial
    | modified j => exact oneSideB_sound lo hi r f h.1
    | deleted => exact oneSideB_sound lo hi r f h.1

end Gopatch.AD
