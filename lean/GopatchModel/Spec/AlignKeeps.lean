import GopatchModel.Spec.DiffLen
/-
  Spec/AlignKeeps.lean — `alignSlices` pairs every element that stayed in place and unchanged
  with itself, however many other elements of the list were rewritten in place, provided no
  element has an identical twin elsewhere in the list and fewer than 64 rewritten elements
  stand in a row (the look-ahead of the anchoring).
-/
namespace Gopatch.AD

theorem fates_length : ∀ (es : List Ed) (j : Nat), (fates es j).length = lenX es
  | [], _ => rfl
  | .id :: es, j => by simp [fates, lenX, fates_length es]
  | .md :: es, j => by simp [fates, lenX, fates_length es]
  | .ux :: es, j => by simp [fates, lenX, fates_length es]
  | .uy :: es, j => by simp [fates, lenX, fates_length es]

theorem fates_append : ∀ (a b : List Ed) (j : Nat), fates (a ++ b) j = fates a j ++ fates b (j + lenY a)
  | [], b, j => by simp [fates, lenY]
  | .id :: a, b, j => by
    simp only [List.cons_append, fates, lenY, fates_append a b (j + 1)]
    have : j + 1 + lenY a = j + (lenY a + 1) := by omega
    rw [this]
  | .md :: a, b, j => by
    simp only [List.cons_append, fates, lenY, fates_append a b (j + 1)]
    have : j + 1 + lenY a = j + (lenY a + 1) := by omega
    rw [this]
  | .ux :: a, b, j => by
    simp only [List.cons_append, fates, lenY, fates_append a b j]
  | .uy :: a, b, j => by
    simp only [List.cons_append, fates, lenY, fates_append a b (j + 1)]
    have : j + 1 + lenY a = j + (lenY a + 1) := by omega
    rw [this]

/-- the anchoring finds the diagonal cell when nothing before it in the row is equal -/
theorem findEqual_diag (m : List (List Res)) (i mlen : Nat) (hi : i < mlen)
    (he : (lookup m (i : Int) (i : Int)).equal = true) : ∀ (fuel j : Nat), j ≤ i → i - j < fuel →
    (∀ k, j ≤ k → k < i → (lookup m (i : Int) (k : Int)).equal = false) → findEqual m i mlen fuel j = some i
  | 0, j, _, hf, _ => by omega
  | fuel + 1, j, hj, hf, hno => by
    rw [findEqual]
    have hjm : j < mlen := by omega
    simp only [hjm, ↓reduceIte]
    by_cases hji : j = i
    · subst hji
      simp [he]
    · have := hno j (Nat.le_refl _) (by omega)
      simp only [this, Bool.false_eq_true, ↓reduceIte]
      exact findEqual_diag m i mlen hi he fuel (j + 1) (by omega) (by omega) (fun k hk hk' => hno k (by omega) hk')

/-- and nothing when no cell of the row is equal -/
theorem findEqual_none (m : List (List Res)) (i mlen : Nat) : ∀ (fuel j : Nat),
    (∀ k, j ≤ k → k < mlen → (lookup m (i : Int) (k : Int)).equal = false) → findEqual m i mlen fuel j = none
  | 0, _, _ => rfl
  | fuel + 1, j, hno => by
    rw [findEqual]
    by_cases hjm : j < mlen
    · simp only [hjm, ↓reduceIte, hno j (Nat.le_refl _) hjm, Bool.false_eq_true]
      exact findEqual_none m i mlen fuel (j + 1) (fun k hk hk' => hno k (by omega) hk')
    · simp [hjm]

theorem gap_len (m : List (List Res)) (fi fj ti tj : Nat) :
    lenX (gap m fi fj ti tj).1 = fj - fi ∧ lenY (gap m fi fj ti tj).1 = tj - ti := by
  unfold gap
  exact difference_len _ _ _

/-- what is known about the script built so far: it accounts for `a` elements of both lists, and every kept
element before `a` is paired with itself -/
def KeptSoFar (kept : Nat → Bool) (a : Nat) (es : List Ed) : Prop :=
  lenX es = a ∧ lenY es = a ∧ ∀ i, i < a → kept i = true → (fates es 0)[i]? = some (.same i)

theorem KeptSoFar.extend {kept : Nat → Bool} {a : Nat} {es : List Ed} (h : KeptSoFar kept a es) (g : List Ed) :
    ∀ i, i < a → kept i = true → (fates (es ++ g) 0)[i]? = some (.same i) := by
  intro i hi hk
  rw [fates_append, List.getElem?_append_left (by rw [fates_length, h.1]; exact hi)]
  exact h.2.2 i hi hk

theorem alignLoop_keeps (m : List (List Res)) (n : Nat) (kept : Nat → Bool)
    (hk : ∀ i, i < n → kept i = true → (lookup m (i : Int) (i : Int)).equal = true)
    (hnk : ∀ i, i < n → kept i = false → (lookup m (i : Int) (i : Int)).equal = false)
    (hoff : ∀ i k, i < n → k < n → i ≠ k → (lookup m (i : Int) (k : Int)).equal = false)
    (hrun : ∀ i a, i < n → kept i = true → a ≤ i → (∀ t, a ≤ t → t < i → kept t = false) → i - a < lookahead) :
    ∀ (fuel i a : Nat) (es : List Ed) (ex : Bool), a ≤ i → i ≤ n → n + 1 ≤ fuel + i →
      (∀ t, a ≤ t → t < i → kept t = false) → KeptSoFar kept a es →
      ∀ i', i' < n → kept i' = true → (fates (alignLoop m n n fuel i a a a es ex).1 0)[i']? = some (.same i')
  | 0, i, a, es, ex, hai, hin, hfuel, hrunk, hes => by omega
  | fuel + 1, i, a, es, ex, hai, hin, hfuel, hrunk, hes => by
    intro i' hi' hk'
    rw [alignLoop]
    by_cases hge : i ≥ n
    · simp only [hge, ↓reduceIte]
      have : i = n := by omega
      subst this
      have hlt : i' < a := by
        by_cases h : i' < a
        · exact h
        · have := hrunk i' (by omega) hi'
          simp [this] at hk'
      exact hes.extend _ i' hlt hk'
    · simp only [hge, ↓reduceIte]
      have hi : i < n := by omega
      cases hki : kept i with
      | true =>
        have hfe := findEqual_diag m i n hi (hk i hi hki) lookahead a hai (hrun i a hi hki hai hrunk)
          (fun k hk1 hk2 => hoff i k hi (by omega) (by omega))
        rw [hfe]
        simp only []
        have hg := gap_len m a i a i
        generalize gap m a i a i = gp at hg
        obtain ⟨g, x⟩ := gp
        simp only [] at hg ⊢
        apply alignLoop_keeps m n kept hk hnk hoff hrun fuel (i + 1) (i + 1) _ _ (Nat.le_refl _) (by omega) (by omega)
          (fun t h1 h2 => by omega) _ i' hi' hk'
        refine ⟨?_, ?_, ?_⟩
        · rw [lenX_append, lenX_append, hes.1, hg.1]; simp [lenX]; omega
        · rw [lenY_append, lenY_append, hes.2.1, hg.2]; simp [lenY]; omega
        · intro t ht hkt
          by_cases hta : t < a
          · rw [List.append_assoc]
            exact hes.extend _ t hta hkt
          · have hti : t = i := by
              by_cases h : t = i
              · exact h
              · have := hrunk t (by omega) (by omega)
                simp [this] at hkt
            subst hti
            rw [fates_append, List.getElem?_append_right (by rw [fates_length, lenX_append, hes.1, hg.1]; omega)]
            rw [fates_length, lenX_append, hes.1, hg.1, lenY_append, hes.2.1, hg.2]
            have e1 : t - (a + (t - a)) = 0 := by omega
            have e2 : 0 + (a + (t - a)) = t := by omega
            rw [e1, e2]
            simp [fates]
      | false =>
        have hfn := findEqual_none m i n lookahead a (fun k hk1 hk2 => by
          by_cases hik : i = k
          · subst hik; exact hnk i hi hki
          · exact hoff i k hi hk2 hik)
        rw [hfn]
        simp only []
        exact alignLoop_keeps m n kept hk hnk hoff hrun fuel (i + 1) a es ex (by omega) (by omega) (by omega)
          (fun t h1 h2 => by
            by_cases h : t = i
            · subst h; exact hki
            · exact hrunk t h1 (by omega)) hes i' hi' hk'

/-- **Elements that stayed as they were are paired with themselves.** -/
theorem alignSlices_keeps (m : List (List Res)) (n : Nat) (kept : Nat → Bool)
    (hk : ∀ i, i < n → kept i = true → (lookup m (i : Int) (i : Int)).equal = true)
    (hnk : ∀ i, i < n → kept i = false → (lookup m (i : Int) (i : Int)).equal = false)
    (hoff : ∀ i k, i < n → k < n → i ≠ k → (lookup m (i : Int) (k : Int)).equal = false)
    (hrun : ∀ i a, i < n → kept i = true → a ≤ i → (∀ t, a ≤ t → t < i → kept t = false) → i - a < lookahead) :
    ∀ i, i < n → kept i = true → (fates (alignSlices m n n).1 0)[i]? = some (.same i) := by
  unfold alignSlices
  exact alignLoop_keeps m n kept hk hnk hoff hrun (n + 1) 0 0 [] false (Nat.le_refl _) (Nat.zero_le _) (by omega)
    (fun t h1 h2 => by omega) ⟨rfl, rfl, fun i hi => by omega⟩

end Gopatch.AD
