import GopatchModel.Spec.DiffLen
/-
  Spec/AlignKeeps.lean — `alignSlices` pairs every element that stayed in place and unchanged
  with itself, however many other elements of the list were rewritten in place, provided no
  element has an identical twin elsewhere in the list and fewer than 64 rewritten elements
  stand in a row (the look-ahead of the anchoring).
-/
namespace Gopatch.AD

theorem fates_length : ∀ (es : List Ed) (j : Nat), (fates es j).length = lenX es
  | [], _ => rfl
  | .id :: es, j => by simp [fates, lenX, fates_length es]
  | .md :: es, j => by simp [fates, lenX, fates_length es]
  | .ux :: es, j => by simp [fates, lenX, fates_length es]
  | .uy :: es, j => by simp [fates, lenX, fates_length es]

theorem fates_append : ∀ (a b : List Ed) (j : Nat), fates (a ++ b) j = fates a j ++ fates b (j + lenY a)
  | [], b, j => by simp [fates, lenY]
  | .id :: a, b, j => by
    simp only [List.cons_append, fates, lenY, fates_append a b (j + 1)]
    have : j + 1 + lenY a = j + (lenY a + 1) := by omega
    rw [this]
  | .md :: a, b, j => by
    simp only [List.cons_append, fates, lenY, fates_append a b (j + 1)]
    have : j + 1 + lenY a = j + (lenY a + 1) := by omega
    rw [this]
  | .ux :: a, b, j => by
    simp only [List.cons_append, fates, lenY, fates_append a b j]
  | .uy :: a, b, j => by
    simp only [List.cons_append, fates, lenY, fates_append a b (j + 1)]
    have : j + 1 + lenY a = j + (lenY a + 1) := by omega
    rw [this]

/-- the anchoring finds the diagonal cell when nothing before it in the row is equal -/
theorem findEqual_diag (m : List (List Res)) (i mlen : Nat) (hi : i < mlen)
    (he : (lookup m (i : Int) (i : Int)).equal = true) : ∀ (fuel j : Nat), j ≤ i → i - j < fuel →
    (∀ k, j ≤ k → k < i → (lookup m (i : Int) (k : Int)).equal = false) → findEqual m i mlen fuel j = some i
  | 0, j, _, hf, _ => by omega
  | fuel + 1, j, hj, hf, hno => by
    rw [findEqual]
    have hjm : j < mlen := by omega
    simp only [hjm, ↓reduceIte]
    by_cases hji : j = i
    · subst hji
      simp [he]
    · have := hno j (Nat.le_refl _) (by omega)
      simp only [this, Bool.false_eq_true, ↓reduceIte]
      exact findEqual_diag m i mlen hi he fuel (j + 1) (by omega) (by omega) (fun k hk hk' => hno k (by omega) hk')

/-- and nothing when no cell of the row is equal -/
theorem findEqual_none (m : List (List Res)) (i mlen : Nat) : ∀ (fuel j : Nat),
    (∀ k, j ≤ k → k < mlen → (lookup m (i : Int) (k : Int)).equal = false) → findEqual m i mlen fuel j = none
  | 0, _, _ => rfl
  | fuel + 1, j, hno => by
    rw [findEqual]
    by_cases hjm : j < mlen
    · simp only [hjm, ↓reduceIte, hno j (Nat.le_refl _) hjm, Bool.false_eq_true]
      exact findEqual_none m i mlen fuel (j + 1) (fun k hk hk' => hno k (by omega) hk')
    · simp [hjm]

theorem gap_len (m : List (List Res)) (fi fj ti tj : Nat) :
    lenX (gap m fi fj ti tj).1 = fj - fi ∧ lenY (gap m fi fj ti tj).1 = tj - ti := by
  unfold gap
  exact difference_len _ _ _

/-- the anchoring finds cell `k` of row `i` when nothing before it (from `j` on) is equal -/
theorem findEqual_at (m : List (List Res)) (i k mlen : Nat) (hk : k < mlen)
    (he : (lookup m (i : Int) (k : Int)).equal = true) : ∀ (fuel j : Nat), j ≤ k → k - j < fuel →
    (∀ t, j ≤ t → t < k → (lookup m (i : Int) (t : Int)).equal = false) → findEqual m i mlen fuel j = some k
  | 0, j, _, hf, _ => by omega
  | fuel + 1, j, hj, hf, hno => by
    rw [findEqual]
    have hjm : j < mlen := by omega
    simp only [hjm, ↓reduceIte]
    by_cases hjk : j = k
    · subst hjk
      simp [he]
    · have := hno j (Nat.le_refl _) (by omega)
      simp only [this, Bool.false_eq_true, ↓reduceIte]
      exact findEqual_at m i k mlen hk he fuel (j + 1) (by omega) (by omega) (fun t ht ht' => hno t (by omega) ht')

/-- what is known about the script built so far: it accounts for `a` elements of the old list and `b` of the new one, and
every anchored element before `a` is paired with its partner -/
def AnchoredSoFar (σ : Nat → Option Nat) (a b : Nat) (es : List Ed) : Prop :=
  lenX es = a ∧ lenY es = b ∧ ∀ i k, i < a → σ i = some k → (fates es 0)[i]? = some (.same k)

theorem AnchoredSoFar.extend {σ : Nat → Option Nat} {a b : Nat} {es : List Ed} (h : AnchoredSoFar σ a b es) (g : List Ed) :
    ∀ i k, i < a → σ i = some k → (fates (es ++ g) 0)[i]? = some (.same k) := by
  intro i k hi hk
  rw [fates_append, List.getElem?_append_left (by rw [fates_length, h.1]; exact hi)]
  exact h.2.2 i k hi hk

/-- the loop of `alignSlices` when the only equal cells of the comparison matrix are those of a strictly increasing partial
pairing `σ` of old with new elements -/
theorem alignLoop_anchors (m : List (List Res)) (n mlen : Nat) (σ : Nat → Option Nat)
    (hin : ∀ i k, i < n → σ i = some k → k < mlen ∧ (lookup m (i : Int) (k : Int)).equal = true)
    (hno : ∀ i k, i < n → k < mlen → σ i ≠ some k → (lookup m (i : Int) (k : Int)).equal = false)
    (hmono : ∀ i i' k k', i < i' → i' < n → σ i = some k → σ i' = some k' → k < k')
    (hrun : ∀ i k b, i < n → σ i = some k → b ≤ k → (∀ i' k', i' < i → σ i' = some k' → k' < b) → k - b < lookahead) :
    ∀ (fuel i a b : Nat) (es : List Ed) (ex : Bool), a ≤ i → i ≤ n → n + 1 ≤ fuel + i →
      (∀ t, a ≤ t → t < i → σ t = none) → (∀ i' k', i' < i → σ i' = some k' → k' < b) →
      (∀ i2 k2, i ≤ i2 → i2 < n → σ i2 = some k2 → b ≤ k2) → AnchoredSoFar σ a b es →
      ∀ i' k', i' < n → σ i' = some k' → (fates (alignLoop m n mlen fuel i b a b es ex).1 0)[i']? = some (.same k')
  | 0, i, a, b, es, ex, hai, hi_n, hfuel, hnone, hbelow, habove, hes => by omega
  | fuel + 1, i, a, b, es, ex, hai, hi_n, hfuel, hnone, hbelow, habove, hes => by
    intro i' k' hi' hk'
    rw [alignLoop]
    by_cases hge : i ≥ n
    · simp only [hge, ↓reduceIte]
      have : i = n := by omega
      subst this
      have hlt : i' < a := by
        by_cases h : i' < a
        · exact h
        · have := hnone i' (by omega) hi'
          rw [this] at hk'; cases hk'
      exact hes.extend _ i' k' hlt hk'
    · simp only [hge, ↓reduceIte]
      have hi : i < n := by omega
      cases hσ : σ i with
      | some k =>
        obtain ⟨hkm, heq⟩ := hin i k hi hσ
        have hbk : b ≤ k := habove i k (Nat.le_refl _) hi hσ
        have hfe := findEqual_at m i k mlen hkm heq lookahead b hbk (hrun i k b hi hσ hbk hbelow)
          (fun t ht1 ht2 => hno i t hi (by omega) (by rw [hσ]; intro h; cases h; omega))
        rw [hfe]
        simp only []
        have hg := gap_len m a i b k
        generalize gap m a i b k = gp at hg
        obtain ⟨g, x⟩ := gp
        simp only [] at hg ⊢
        apply alignLoop_anchors m n mlen σ hin hno hmono hrun fuel (i + 1) (i + 1) (k + 1) _ _ (Nat.le_refl _) (by omega) (by omega)
          (fun t h1 h2 => by omega)
          (fun i2 k2 h1 h2 => by
            by_cases h : i2 = i
            · subst h; rw [hσ] at h2; cases h2; omega
            · have := hmono i2 i k2 k (by omega) hi h2 hσ; omega)
          (fun i2 k2 h1 h2 h3 => by
            have := hmono i i2 k k2 (by omega) h2 hσ h3; omega)
          _ i' k' hi' hk'
        refine ⟨?_, ?_, ?_⟩
        · rw [lenX_append, lenX_append, hes.1, hg.1]; simp [lenX]; omega
        · rw [lenY_append, lenY_append, hes.2.1, hg.2]; simp [lenY]; omega
        · intro t kt ht hkt
          by_cases hta : t < a
          · rw [List.append_assoc]
            exact hes.extend _ t kt hta hkt
          · have hti : t = i := by
              by_cases h : t = i
              · exact h
              · have := hnone t (by omega) (by omega)
                rw [this] at hkt; cases hkt
            subst hti
            rw [hσ] at hkt; cases hkt
            rw [fates_append, List.getElem?_append_right (by rw [fates_length, lenX_append, hes.1, hg.1]; omega)]
            rw [fates_length, lenX_append, hes.1, hg.1, lenY_append, hes.2.1, hg.2]
            have e1 : t - (a + (t - a)) = 0 := by omega
            have e2 : 0 + (b + (k - b)) = k := by omega
            rw [e1, e2]
            simp [fates]
      | none =>
        have hfn := findEqual_none m i mlen lookahead b (fun k hk1 hk2 => hno i k hi hk2 (by rw [hσ]; intro h; cases h))
        rw [hfn]
        simp only []
        exact alignLoop_anchors m n mlen σ hin hno hmono hrun fuel (i + 1) a b es ex (by omega) (by omega) (by omega)
          (fun t h1 h2 => by
            by_cases h : t = i
            · subst h; exact hσ
            · exact hnone t h1 (by omega))
          (fun i2 k2 h1 h2 => by
            by_cases h : i2 = i
            · subst h; rw [hσ] at h2; cases h2
            · exact hbelow i2 k2 (by omega) h2)
          (fun i2 k2 h1 h2 h3 => habove i2 k2 (by omega) h2 h3)
          hes i' k' hi' hk'

/-- **Anchored elements are paired with their partners.** When the only equal cells of the comparison matrix are those of a
strictly increasing partial pairing `σ` (no identical twins), and no more than 63 elements of the new list stand between
the partners of two consecutive anchors, `alignSlices` gives every anchored element the fate "identical to its partner". -/
theorem alignSlices_anchors (m : List (List Res)) (n mlen : Nat) (σ : Nat → Option Nat)
    (hin : ∀ i k, i < n → σ i = some k → k < mlen ∧ (lookup m (i : Int) (k : Int)).equal = true)
    (hno : ∀ i k, i < n → k < mlen → σ i ≠ some k → (lookup m (i : Int) (k : Int)).equal = false)
    (hmono : ∀ i i' k k', i < i' → i' < n → σ i = some k → σ i' = some k' → k < k')
    (hrun : ∀ i k b, i < n → σ i = some k → b ≤ k → (∀ i' k', i' < i → σ i' = some k' → k' < b) → k - b < lookahead) :
    ∀ i k, i < n → σ i = some k → (fates (alignSlices m n mlen).1 0)[i]? = some (.same k) := by
  unfold alignSlices
  exact alignLoop_anchors m n mlen σ hin hno hmono hrun (n + 1) 0 0 0 [] false (Nat.le_refl _) (Nat.zero_le _) (by omega)
    (fun t h1 h2 => by omega) (fun i' k' h1 => by omega) (fun _ _ _ _ _ => Nat.zero_le _) ⟨rfl, rfl, fun i k hi => by omega⟩

/-- the special case of a list rewritten in place: the kept elements are anchored on the diagonal -/
theorem alignSlices_keeps (m : List (List Res)) (n : Nat) (kept : Nat → Bool)
    (hk : ∀ i, i < n → kept i = true → (lookup m (i : Int) (i : Int)).equal = true)
    (hnk : ∀ i, i < n → kept i = false → (lookup m (i : Int) (i : Int)).equal = false)
    (hoff : ∀ i k, i < n → k < n → i ≠ k → (lookup m (i : Int) (k : Int)).equal = false)
    (hrun : ∀ i a, i < n → kept i = true → a ≤ i → (∀ t, a ≤ t → t < i → kept t = false) → i - a < lookahead) :
    ∀ i, i < n → kept i = true → (fates (alignSlices m n n).1 0)[i]? = some (.same i) := by
  intro i hi hki
  apply alignSlices_anchors m n n (fun i => if kept i then some i else none)
  · intro i k hi hs
    by_cases h : kept i = true
    · simp only [h, ↓reduceIte, Option.some.injEq] at hs
      subst hs
      exact ⟨hi, hk i hi h⟩
    · simp [h] at hs
  · intro i k hi hk' hs
    by_cases hik : i = k
    · subst hik
      by_cases h : kept i = true
      · simp [h] at hs
      · exact hnk i hi (by simpa using h)
    · exact hoff i k hi hk' hik
  · intro i i' k k' hlt hi' hs hs'
    by_cases h : kept i = true <;> by_cases h' : kept i' = true <;> simp [h, h'] at hs hs'
    omega
  · intro i k b hi hs hbk hbelow
    by_cases h : kept i = true
    · simp only [h, ↓reduceIte, Option.some.injEq] at hs
      subst hs
      apply hrun i b hi h hbk
      intro t ht1 ht2
      by_cases hkt : kept t = true
      · have := hbelow t t ht2 (by simp [hkt])
        omega
      · simpa using hkt
    · simp [h] at hs
  · exact hi
  · simp [hki]

end Gopatch.AD
