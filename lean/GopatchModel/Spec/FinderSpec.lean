import GopatchModel.Spec.RewriteSpec
/-
  Spec/FinderSpec.lean — what `find` (internal/pgo/augment/find.go) hands to `rewrite`.

  `Spec/RewriteSpec` proves that `rewrite` and `posAdjuster.Pos` put every elision back where its
  "..." stands *provided* the augmentations, sorted by their start, follow one another inside the
  source and every elision is three bytes long (`AugsOK`).  Here that proviso is discharged for the
  finder itself: on every token stream that ends with its only EOF token (`WF`), whose tokens come
  in source order, an ELLIPSIS token covering three bytes (`Laid`), and lie inside the source, the
  list `find` returns satisfies `AugsOK` once sorted (`find_augs_ok`), and every elision in it
  stands on an ELLIPSIS token of the stream (`find_dots_on_ellipsis`).  What is left as a
  hypothesis is a statement about go/scanner's output only (`laidB`, evaluated by the driver on the
  tokens of every real version).
-/
namespace Gopatch.Fnd

def Tok.width (t : Tok) : Nat := if t.kind = .ellipsis then 3 else 0

/-- tokens in source order; an ELLIPSIS token covers three bytes -/
def Laid : List Tok → Prop
  | [] => True
  | [_] => True
  | t :: t' :: rest => t.off + t.width ≤ t'.off ∧ Laid (t' :: rest)

def laidB : List Tok → Bool
  | [] => true
  | [_] => true
  | t :: t' :: rest => decide (t.off + t.width ≤ t'.off) && laidB (t' :: rest)

theorem laidB_sound : ∀ l, laidB l = true → Laid l
  | [], _ => trivial
  | [_], _ => trivial
  | t :: t' :: rest, h => by
      simp only [laidB, Bool.and_eq_true, decide_eq_true_eq] at h
      exact ⟨h.1, laidB_sound _ h.2⟩

/-- what `Props/C04.ScanOK` asks of go/scanner's tokens for one version, as a test the driver runs -/
def scanOKB (src : List UInt8) (toks : List Tok) : Bool :=
  wfB toks && laidB toks && toks.all (fun t => decide (t.off ≤ src.length) &&
    (t.kind != .ellipsis || (src[t.off]? == some 46 && src[t.off + 1]? == some 46 && src[t.off + 2]? == some 46)))

theorem laid_nextToks : ∀ l, Laid l → Laid (nextToks l)
  | [], h => h
  | [_], h => h
  | t :: t' :: rest, h => by
      simp only [nextToks]
      split
      · exact h
      · exact h.2

theorem mem_nextToks : ∀ l (t : Tok), t ∈ nextToks l → t ∈ l
  | [], _, h => h
  | [_], _, h => h
  | a :: b :: rest, t, h => by
      simp only [nextToks] at h
      split at h
      · exact h
      · exact List.mem_cons_of_mem _ h

theorem cur_mem (s : St) (h : WF s.toks) : s.cur ∈ s.toks := by
  unfold St.cur
  cases hs : s.toks with
  | nil => rw [hs] at h; exact absurd h (by simp [WF])
  | cons a l => simp

/-- the current token ends at or before the next one -/
theorem cur_next_le (s : St) (h : WF s.toks) (hl : Laid s.toks) : s.cur.off + s.cur.width ≤ s.next.cur.off := by
  unfold St.next St.cur
  cases hs : s.toks with
  | nil => rw [hs] at h; exact absurd h (by simp [WF])
  | cons a l =>
    cases l with
    | nil =>
      rw [hs] at h
      have : a.kind = .eof := h
      simp [nextToks, Tok.width, this]
    | cons b rest =>
      rw [hs] at h hl
      have h1 : a.kind ≠ .eof := h.1
      have : (a.kind == K.eof) = false := by simpa using h1
      simp only [nextToks, this]
      simpa using hl.1

theorem cur_next_mono (s : St) (h : WF s.toks) (hl : Laid s.toks) : s.cur.off ≤ s.next.cur.off :=
  Nat.le_trans (Nat.le_add_right _ _) (cur_next_le s h hl)

/-! ### the invariant of the scan -/

def Spaced (a b : Nat) : Prop := a + 3 ≤ b ∨ b + 3 ≤ a

theorem Spaced.symm {a b : Nat} (h : Spaced a b) : Spaced b a := Or.symm h

def dotsOf (D : List (Nat × Bool)) : List Aug := D.map (fun p => Aug.dots p.1 (p.1 + 3) p.2)

/-- `o` is the offset of an ELLIPSIS token of the stream `T` -/
def OnEll (T : List Tok) (o : Nat) : Prop := ∃ t ∈ T, t.kind = .ellipsis ∧ t.off = o

/-- the state of the scan: the augmentations are the fixed list `F` followed by elisions `D`; the elisions recorded so far
and the ones a parameter list still holds back (`pend`) are pairwise apart, not before `lo`, end at or before the
current token and stand on ELLIPSIS tokens of the stream -/
structure G (T : List Tok) (lo : Nat) (F : List Aug) (pend : List Nat) (s : St) : Prop where
  wf : WF s.toks
  laid : Laid s.toks
  sub : ∀ t ∈ s.toks, t ∈ T
  lo_le : lo ≤ s.cur.off
  ex : ∃ D : List (Nat × Bool), s.augs = F ++ dotsOf D ∧
        (D.map (·.1) ++ pend).Pairwise Spaced ∧
        ∀ o ∈ D.map (·.1) ++ pend, lo ≤ o ∧ o + 3 ≤ s.cur.off ∧ OnEll T o

theorem G.next {T lo F pend s} (g : G T lo F pend s) : G T lo F pend s.next := by
  obtain ⟨wf, laid, sub, lo_le, D, hD, hp, hb⟩ := g
  have hm := cur_next_mono s wf laid
  refine ⟨wf_next s wf, laid_nextToks _ laid, fun t ht => sub t (mem_nextToks _ _ ht), Nat.le_trans lo_le hm,
    D, hD, hp, fun o ho => ⟨(hb o ho).1, Nat.le_trans (hb o ho).2.1 hm, (hb o ho).2.2⟩⟩

/-- an ELLIPSIS token that is an elision: recorded at once (`finder.ellipsis`) -/
theorem G.dot {T lo F pend s} (g : G T lo F pend s) (hk : s.kind = .ellipsis) (nm : Bool) :
    G T lo F pend { s.next with augs := s.next.augs ++ [Aug.dots s.cur.off (s.cur.off + 3) nm] } := by
  obtain ⟨wf, laid, sub, lo_le, D, hD, hp, hb⟩ := g
  have hw : s.cur.width = 3 := by
    have : s.cur.kind = .ellipsis := hk
    simp [Tok.width, this]
  have hn := cur_next_le s wf laid
  rw [hw] at hn
  have hm := cur_next_mono s wf laid
  refine ⟨wf_next s wf, laid_nextToks _ laid, fun t ht => sub t (mem_nextToks _ _ ht), Nat.le_trans lo_le hm,
    D ++ [(s.cur.off, nm)], ?_, ?_, ?_⟩
  · show s.augs ++ _ = _
    rw [hD]; simp [dotsOf]
  · have hperm : (D.map (·.1) ++ pend) ++ [s.cur.off] |>.Perm ((D ++ [(s.cur.off, nm)]).map (·.1) ++ pend) := by
      simp only [List.map_append, List.map_cons, List.map_nil, List.append_assoc]
      exact List.Perm.append_left _ List.perm_append_comm
    refine (List.Perm.pairwise_iff (fun h => Spaced.symm h) hperm).1 ?_
    rw [List.pairwise_append]
    refine ⟨hp, by simp, fun a ha b hb' => ?_⟩
    simp only [List.mem_singleton] at hb'
    subst hb'
    exact Or.inl (hb a ha).2.1
  · intro o ho
    simp only [List.map_append, List.map_cons, List.map_nil, List.mem_append, List.mem_singleton, List.mem_map] at ho
    show lo ≤ o ∧ o + 3 ≤ s.next.cur.off ∧ OnEll T o
    rcases ho with (ho | rfl) | ho
    · have := hb o (List.mem_append_left _ (List.mem_map.2 ho))
      exact ⟨this.1, Nat.le_trans this.2.1 hm, this.2.2⟩
    · exact ⟨lo_le, hn, s.cur, sub _ (cur_mem s wf), hk, rfl⟩
    · have := hb o (List.mem_append_right _ ho)
      exact ⟨this.1, Nat.le_trans this.2.1 hm, this.2.2⟩

/-- an ELLIPSIS token inside a parameter list: held back until the list ends (`finder.fieldList`) -/
theorem G.hold {T lo F pend s} (g : G T lo F pend s) (hk : s.kind = .ellipsis) :
    G T lo F (pend ++ [s.cur.off]) s.next := by
  obtain ⟨wf, laid, sub, lo_le, D, hD, hp, hb⟩ := g
  have hw : s.cur.width = 3 := by
    have : s.cur.kind = .ellipsis := hk
    simp [Tok.width, this]
  have hn := cur_next_le s wf laid
  rw [hw] at hn
  have hm := cur_next_mono s wf laid
  refine ⟨wf_next s wf, laid_nextToks _ laid, fun t ht => sub t (mem_nextToks _ _ ht), Nat.le_trans lo_le hm,
    D, hD, ?_, ?_⟩
  · rw [← List.append_assoc, List.pairwise_append]
    refine ⟨hp, by simp, fun a ha b hb' => ?_⟩
    simp only [List.mem_singleton] at hb'
    subst hb'
    exact Or.inl (hb a ha).2.1
  · intro o ho
    rw [← List.append_assoc, List.mem_append, List.mem_singleton] at ho
    rcases ho with ho | rfl
    · exact ⟨(hb o ho).1, Nat.le_trans (hb o ho).2.1 hm, (hb o ho).2.2⟩
    · exact ⟨lo_le, hn, s.cur, sub _ (cur_mem s wf), hk, rfl⟩

/-- the end of a parameter list: what was held back is recorded -/
theorem G.flush {T lo F pend s} (ell : List Nat) (g : G T lo F (pend ++ ell) s) (nm : Bool) :
    G T lo F pend { s with augs := s.augs ++ ell.map (fun off => Aug.dots off (off + 3) nm) } := by
  obtain ⟨wf, laid, sub, lo_le, D, hD, hp, hb⟩ := g
  have hperm : (D.map (·.1) ++ (pend ++ ell)).Perm ((D ++ ell.map (fun o => (o, nm))).map (·.1) ++ pend) := by
    simp only [List.map_append, List.map_map, List.append_assoc]
    have : (List.map ((fun x : Nat × Bool => x.1) ∘ fun o => (o, nm)) ell) = ell := by
      clear hp hb
      induction ell with
      | nil => rfl
      | cons a l ih => simp [ih]
    rw [this]
    exact List.Perm.append_left _ List.perm_append_comm
  refine ⟨wf, laid, sub, lo_le, D ++ ell.map (fun o => (o, nm)), ?_, ?_, ?_⟩
  · show s.augs ++ _ = _
    rw [hD]; simp [dotsOf, List.map_map, Function.comp_def]
  · exact (List.Perm.pairwise_iff (fun h => Spaced.symm h) hperm).1 hp
  · intro o ho
    exact hb o (hperm.mem_iff.2 ho)

/-! ### steps that record nothing -/

/-- the scan moved on without recording anything -/
inductive Adv : St → St → Prop
  | refl (s : St) : Adv s s
  | tail {s s' : St} : Adv s s' → Adv s s'.next

theorem Adv.step (s : St) : Adv s s.next := .tail (.refl s)

theorem Adv.trans {a b c : St} (h1 : Adv a b) (h2 : Adv b c) : Adv a c := by
  induction h2 with
  | refl => exact h1
  | tail _ ih => exact .tail ih

theorem Adv.augs {a b : St} (h : Adv a b) : b.augs = a.augs := by
  induction h with
  | refl => rfl
  | tail _ ih => exact ih

theorem G.adv {T lo F pend a b} (g : G T lo F pend a) (h : Adv a b) : G T lo F pend b := by
  induction h with
  | refl => exact g
  | tail _ ih => exact ih.next

theorem ident_adv (s : St) : Adv s (ident s).st := by
  unfold ident
  simp only
  split
  · exact (Adv.step s).trans (Adv.step _)
  · exact Adv.step s

theorem ellipsis_G {T lo F pend s} (g : G T lo F pend s) (hk : s.kind = .ellipsis) : G T lo F pend (ellipsis s).st := by
  unfold ellipsis
  simp only
  split
  · exact g.next.next
  · exact g.dot hk false

/-! ### parameter lists and function types (the mutual recursion of `find.go`) -/

theorem Res.trans_st {a : St} (r : Res a) (r2 : Res r.st) : (r.trans r2).st = r2.st := rfl

theorem fieldLoop_G {T : List Tok} {lo : Nat} {F : List Aug} (N : Nat)
    (ihBody : ∀ s h pend, s.toks.length < N → G T lo F pend s → G T lo F pend (functionBody s h).st)
    (ihLoop : ∀ s h ell named pend, s.toks.length < N → G T lo F (pend ++ ell) s →
      G T lo F pend (fieldLoop s h ell named).st)
    (s : St) (h : WF s.toks) (ell : List Nat) (named : Bool) (pend : List Nat) (hN : s.toks.length = N)
    (g : G T lo F (pend ++ ell) s) : G T lo F pend (fieldLoop s h ell named).st := by
  rw [fieldLoop]
  split
  · exact G.flush ell g.next named
  · rename_i hstop
    have hne : s.kind ≠ .eof := fun hh => hstop (Or.inr hh)
    have hlt : s.next.toks.length < N := hN ▸ next_lt s h hne
    simp only
    split
    · -- a function type among the parameters
      have g1 := ihBody s.next (wf_next s h) _ hlt g.next
      have hlt2 : (functionBody s.next (wf_next s h)).st.toks.length < N :=
        Nat.lt_of_le_of_lt (functionBody s.next (wf_next s h)).le hlt
      exact ihLoop _ _ ell named pend hlt2 g1
    · split
      · -- IDENT, perhaps qualified
        rw [Res.trans_st]
        refine ihLoop _ _ ell _ pend ?_ ?_
        · split
          · exact Nat.lt_of_le_of_lt (Nat.le_trans (next_le _) (next_le _)) hlt
          · exact hlt
        · split
          · exact g.next.next.next
          · exact g.next
      · split
        · rename_i hk
          split
          · exact ihLoop _ _ ell named pend hlt g.next
          · have := g.hold hk
            rw [List.append_assoc] at this
            exact ihLoop _ _ (ell ++ [s.cur.off]) named pend hlt this
        · exact ihLoop _ _ ell named pend hlt g.next

theorem mutual_G {T : List Tok} {lo : Nat} {F : List Aug} : ∀ N : Nat,
    (∀ s h ell named pend, s.toks.length = N → G T lo F (pend ++ ell) s → G T lo F pend (fieldLoop s h ell named).st) ∧
    (∀ s h pend, s.toks.length = N → G T lo F pend s → G T lo F pend (fieldList s h).st) ∧
    (∀ s h pend, s.toks.length = N → G T lo F pend s → G T lo F pend (functionBody s h).st) := by
  intro N
  induction N using Nat.strongRecOn with
  | _ N ih =>
    have hLoop : ∀ s h ell named pend, s.toks.length ≤ N → G T lo F (pend ++ ell) s →
        G T lo F pend (fieldLoop s h ell named).st := by
      intro s h ell named pend hle g
      rcases Nat.lt_or_eq_of_le hle with hlt | heq
      · exact (ih _ hlt).1 s h ell named pend rfl g
      · exact fieldLoop_G N (fun s h pend hl g => (ih _ hl).2.2 s h pend rfl g)
          (fun s h ell named pend hl g => (ih _ hl).1 s h ell named pend rfl g) s h ell named pend heq g
    have hList : ∀ s h pend, s.toks.length ≤ N → G T lo F pend s → G T lo F pend (fieldList s h).st := by
      intro s h pend hle g
      rw [fieldList, Res.trans_st]
      refine hLoop _ _ [] false pend (Nat.le_trans (next_le s) hle) ?_
      rw [List.append_nil]
      exact g.next
    refine ⟨fun s h ell named pend he g => hLoop s h ell named pend (Nat.le_of_eq he) g,
      fun s h pend he g => hList s h pend (Nat.le_of_eq he) g, ?_⟩
    intro s h pend he g
    rw [functionBody]
    have g1 := hList s h pend (Nat.le_of_eq he) g
    split
    · rw [Res.trans_st]
      exact hList _ _ pend (he ▸ (fieldList s h).le) g1
    · exact g1

theorem functionBody_G {T lo F pend s} (h : WF s.toks) (g : G T lo F pend s) : G T lo F pend (functionBody s h).st :=
  (mutual_G (T := T) (lo := lo) (F := F) s.toks.length).2.2 s h pend rfl g

theorem process_G {T lo F pend s} (h : WF s.toks) (g : G T lo F pend s) : G T lo F pend (process s h).st := by
  unfold process
  split
  · exact g.adv (ident_adv s)
  · split
    · rename_i hk; exact ellipsis_G g hk
    · split
      · unfold function
        exact functionBody_G (s := s.next) _ g.next
      · exact g.next

theorem recvLoop_G {T lo F pend} : ∀ (N : Nat) (s : St) (h : WF s.toks), s.toks.length = N → G T lo F pend s →
    G T lo F pend (recvLoop s h).st := by
  intro N
  induction N using Nat.strongRecOn with
  | _ N ih =>
    intro s h hN g
    rw [recvLoop]
    split
    · exact g
    · rename_i hstop
      have hne : s.kind ≠ .eof := fun hh => hstop (Or.inr hh)
      simp only
      rw [Res.trans_st]
      exact ih _ (hN ▸ process_lt s h hne) _ _ rfl (process_G h g)

theorem findLoop_G {T lo F pend} : ∀ (N : Nat) (s : St) (h : WF s.toks), s.toks.length = N → G T lo F pend s →
    G T lo F pend (findLoop s h).st := by
  intro N
  induction N using Nat.strongRecOn with
  | _ N ih =>
    intro s h hN g
    rw [findLoop]
    split
    · exact g
    · rename_i hstop
      simp only
      rw [Res.trans_st]
      exact ih _ (hN ▸ process_lt s h hstop) _ _ rfl (process_G h g)

theorem funcDecl_G {T lo F pend s} (h : WF s.toks) (g : G T lo F pend s) : G T lo F pend (funcDecl s h).st := by
  unfold funcDecl
  simp only
  rw [Res.trans_st, Res.trans_st]
  refine functionBody_G _ (G.next ?_)
  split
  · rw [Res.trans_st, Res.trans_st, Res.trans_st]
    exact (recvLoop_G _ _ _ rfl g.next.next).next
  · exact g.next

/-! ### the package clause, the imports and the first declaration -/

theorem skipGroup_adv : ∀ (N : Nat) (s : St) (h : WF s.toks), s.toks.length = N → Adv s (skipGroup s h).st := by
  intro N
  induction N using Nat.strongRecOn with
  | _ N ih =>
    intro s h hN
    rw [skipGroup]
    split
    · exact .refl s
    · rename_i hstop
      have hne : s.kind ≠ .eof := fun hh => hstop (Or.inr hh)
      show Adv s (skipGroup s.next _).st
      exact (Adv.step s).trans (ih _ (hN ▸ next_lt s h hne) _ _ rfl)

theorem imports_adv : ∀ (N : Nat) (s : St) (h : WF s.toks), s.toks.length = N → Adv s (imports s h).st := by
  intro N
  induction N using Nat.strongRecOn with
  | _ N ih =>
    intro s h hN
    rw [imports]
    split
    · rename_i hi
      have hne : s.kind ≠ .eof := by rw [hi]; decide
      have hlt : s.next.toks.length < N := hN ▸ next_lt s h hne
      simp only
      split
      · rw [Res.trans_st]
        have ha := skipGroup_adv _ s.next (wf_next s h) rfl
        have hadv : Adv s (skipGroup s.next (wf_next s h)).st.next.next := ((Adv.step s).trans ha).tail.tail
        refine hadv.trans (ih _ ?_ _ _ rfl)
        exact Nat.lt_of_le_of_lt (Nat.le_trans (next_le _) (Nat.le_trans (next_le _) (skipGroup s.next (wf_next s h)).le)) hlt
      · split
        · exact Adv.step s
        · rw [Res.trans_st]
          have hA : Adv s.next (if (Res.step s).st.kind = K.period ∨ (Res.step s).st.kind = K.ident
              then Res.step (Res.step s).st else Res.refl (Res.step s).st).st := by
            split
            · exact Adv.step _
            · exact .refl _
          generalize (if (Res.step s).st.kind = K.period ∨ (Res.step s).st.kind = K.ident
              then Res.step (Res.step s).st else Res.refl (Res.step s).st) = A at hA ⊢
          refine (((Adv.step s).trans hA).tail.tail).trans (ih _ ?_ _ _ rfl)
          exact Nat.lt_of_le_of_lt (Nat.le_trans (next_le _) (Nat.le_trans (next_le _) A.le)) hlt
    · exact .refl s

theorem G.init {T : List Tok} {lo : Nat} {F : List Aug} {s : St} (wf : WF s.toks) (laid : Laid s.toks)
    (sub : ∀ t ∈ s.toks, t ∈ T) (lo_le : lo ≤ s.cur.off) (ha : s.augs = F) : G T lo F [] s :=
  ⟨wf, laid, sub, lo_le, [], by simp [dotsOf, ha], by simp, by simp⟩

def Aug.isFake : Aug → Prop
  | .dots _ _ _ => False
  | _ => True

/-- the augmentations that are not elisions: in order, none after `lo` -/
def FakesOK (F : List Aug) (lo : Nat) : Prop :=
  F.Pairwise (fun a b => a.start ≤ b.start) ∧ ∀ f ∈ F, f.isFake ∧ f.start ≤ lo

theorem pkg_shape (s0 : St) (wf : WF s0.toks) (laid : Laid s0.toks) (ha : s0.augs = []) :
    ∃ F1, FakesOK F1 s0.cur.off ∧ G s0.toks s0.cur.off F1 [] (pkg s0).st ∧ (pkg s0).st.augs = F1 := by
  unfold pkg
  split
  · refine ⟨[.fakePackage s0.cur.off], ⟨by simp, ?_⟩, ?_, ?_⟩
    · intro f hf
      simp only [List.mem_singleton] at hf
      subst hf
      exact ⟨trivial, Nat.le_refl _⟩
    · exact G.init (s := { s0 with augs := s0.augs ++ [.fakePackage s0.cur.off] }) wf laid (fun t ht => ht)
        (Nat.le_refl _) (by simp [ha])
    · show s0.augs ++ _ = _
      simp [ha]
  · have g0 : G s0.toks s0.cur.off [] [] s0 := G.init wf laid (fun t ht => ht) (Nat.le_refl _) ha
    refine ⟨[], ⟨by simp, by simp⟩, g0.next.next.next, ?_⟩
    exact ha

theorem top_shape {T : List Tok} {lo : Nat} {F1 : List Aug} (s : St) (h : WF s.toks) (g : G T lo F1 [] s)
    (ha : s.augs = F1) (hF : FakesOK F1 lo) :
    ∃ F2 lo2, FakesOK F2 lo2 ∧ G T lo2 F2 [] (topLevelDecl s h).st := by
  have hext : ∀ br, FakesOK (F1 ++ [.fakeFunc s.cur.off br]) s.cur.off := by
    intro br
    refine ⟨?_, ?_⟩
    · rw [List.pairwise_append]
      refine ⟨hF.1, by simp, fun a ha' b hb => ?_⟩
      simp only [List.mem_singleton] at hb
      subst hb
      exact Nat.le_trans (hF.2 a ha').2 g.lo_le
    · intro f hf
      rcases List.mem_append.1 hf with hf | hf
      · exact ⟨(hF.2 f hf).1, Nat.le_trans (hF.2 f hf).2 g.lo_le⟩
      · simp only [List.mem_singleton] at hf
        subst hf
        exact ⟨trivial, Nat.le_refl _⟩
  unfold topLevelDecl
  split
  · exact ⟨F1, lo, hF, g.next⟩
  · split
    · exact ⟨F1, lo, hF, funcDecl_G h g⟩
    · split
      · refine ⟨_, _, hext false, ?_⟩
        rw [Res.trans_st]
        exact (G.init (s := { s with augs := s.augs ++ [.fakeFunc s.cur.off false] }) g.wf g.laid g.sub
          (Nat.le_refl _) (by simp [ha])).next
      · refine ⟨_, _, hext true, ?_⟩
        exact G.init (s := { s with augs := s.augs ++ [.fakeFunc s.cur.off true] }) g.wf g.laid g.sub
          (Nat.le_refl _) (by simp [ha])

/-- what `find` returns: the fake package clause and the fake function, if any, in this order, then elisions; the
elisions stand on ELLIPSIS tokens of the stream, pairwise apart, none before the fakes -/
theorem find_shape (toks : List Tok) (h : WF toks) (hl : Laid toks) (n : Nat) (hb : ∀ t ∈ toks, t.off ≤ n) :
    ∃ F lo D, find toks h = F ++ dotsOf D ∧ FakesOK F lo ∧ lo ≤ n ∧ (D.map (·.1)).Pairwise Spaced ∧
      ∀ o ∈ D.map (·.1), lo ≤ o ∧ o + 3 ≤ n ∧ OnEll toks o := by
  have w1 : WF (pkg { toks := toks, augs := [] }).st.toks := (pkg { toks := toks, augs := [] }).wf h
  obtain ⟨F1, hF1, g1, ha1⟩ := pkg_shape { toks := toks, augs := [] } h hl rfl
  have adv2 := imports_adv _ (pkg { toks := toks, augs := [] }).st w1 rfl
  have g2 := g1.adv adv2
  have ha2 := adv2.augs.trans ha1
  have w2 := (imports _ w1).wf w1
  obtain ⟨F2, lo2, hF2, g3⟩ := top_shape _ w2 g2 ha2 hF1
  have w3 := (topLevelDecl _ w2).wf w2
  have g4 := findLoop_G _ _ w3 rfl g3
  obtain ⟨wf, laid, sub, lo_le, D, hD, hp, hbD⟩ := g4
  have hcur := hb _ (sub _ (cur_mem _ wf))
  refine ⟨F2, lo2, D, hD, hF2, Nat.le_trans lo_le hcur, by simpa using hp, fun o ho => ?_⟩
  have := hbD o (by simpa using ho)
  exact ⟨this.1, Nat.le_trans this.2.1 hcur, this.2.2⟩

/-! ### sorting by start, and the hypothesis of `Spec/RewriteSpec` -/

theorem mem_insertByStart (a b : Aug) : ∀ l, b ∈ insertByStart a l ↔ b = a ∨ b ∈ l
  | [] => by simp [insertByStart]
  | c :: cs => by
      simp only [insertByStart]
      split
      · simp
      · simp only [List.mem_cons, mem_insertByStart a b cs]
        constructor
        · rintro (h | h | h) <;> simp [h]
        · rintro (h | h | h) <;> simp [h]

theorem sortByStart_cons (a : Aug) (l : List Aug) : sortByStart (a :: l) = insertByStart a (sortByStart l) := rfl

theorem mem_sortByStart (b : Aug) : ∀ l, b ∈ sortByStart l ↔ b ∈ l
  | [] => by simp [sortByStart]
  | a :: l => by rw [sortByStart_cons, mem_insertByStart, mem_sortByStart b l]; simp

theorem insertByStart_perm (a : Aug) : ∀ l, (insertByStart a l).Perm (a :: l)
  | [] => by simp [insertByStart]
  | c :: cs => by
      simp only [insertByStart]
      split
      · exact List.Perm.refl _
      · exact ((insertByStart_perm a cs).cons c).trans (List.Perm.swap a c cs)

theorem sortByStart_perm : ∀ l, (sortByStart l).Perm l
  | [] => List.Perm.refl _
  | a :: l => by
      rw [sortByStart_cons]
      exact (insertByStart_perm a _).trans ((sortByStart_perm l).cons a)

theorem insertByStart_sorted (a : Aug) : ∀ l, l.Pairwise (fun x y => x.start ≤ y.start) →
    (insertByStart a l).Pairwise (fun x y => x.start ≤ y.start)
  | [], _ => by simp [insertByStart]
  | c :: cs, h => by
      simp only [insertByStart]
      rw [List.pairwise_cons] at h
      split
      · rename_i hac
        refine List.Pairwise.cons (fun x hx => ?_) (List.Pairwise.cons h.1 h.2)
        rcases List.mem_cons.1 hx with rfl | hx
        · exact hac
        · exact Nat.le_trans hac (h.1 x hx)
      · rename_i hac
        refine List.Pairwise.cons (fun x hx => ?_) (insertByStart_sorted a cs h.2)
        rcases (mem_insertByStart a x cs).1 hx with rfl | hx
        · omega
        · exact h.1 x hx

/-- the result of `sortByStart` is in order -/
theorem sortByStart_sorted : ∀ l, (sortByStart l).Pairwise (fun x y => x.start ≤ y.start)
  | [] => by simp [sortByStart]
  | a :: l => by rw [sortByStart_cons]; exact insertByStart_sorted a _ (sortByStart_sorted l)

/-- the sort is stable where it matters: what already stands in front, in order and not after the rest, stays in front -/
theorem sortByStart_append_min : ∀ (F X : List Aug), F.Pairwise (fun a b => a.start ≤ b.start) →
    (∀ f ∈ F, ∀ x ∈ X, f.start ≤ x.start) → sortByStart (F ++ X) = F ++ sortByStart X
  | [], X, _, _ => rfl
  | f :: F, X, hF, hFX => by
      rw [List.pairwise_cons] at hF
      rw [List.cons_append, sortByStart_cons,
        sortByStart_append_min F X hF.2 (fun a ha x hx => hFX a (List.mem_cons_of_mem _ ha) x hx)]
      have key : ∀ L : List Aug, (∀ c ∈ L, f.start ≤ c.start) → insertByStart f L = f :: L := by
        intro L hL
        cases L with
        | nil => rfl
        | cons c cs => simp [insertByStart, hL c (by simp)]
      rw [key]
      · rfl
      intro c hmem
      rcases List.mem_append.1 hmem with hm | hm
      · exact hF.1 c hm
      · exact hFX f (by simp) c ((mem_sortByStart c X).1 hm)

theorem off_le_max : ∀ (toks : List Tok) (t : Tok), t ∈ toks → t.off ≤ (toks.map (·.off)).foldr max 0
  | a :: l, t, ht => by
      simp only [List.map_cons, List.foldr_cons]
      rcases List.mem_cons.1 ht with rfl | ht
      · exact Nat.le_max_left _ _
      · exact Nat.le_trans (off_le_max l t ht) (Nat.le_max_right _ _)

theorem augsOK_antitone (src : List UInt8) {pos pos' : Nat} (hle : pos' ≤ pos) : ∀ l, AugsOK src pos l → AugsOK src pos' l
  | [], _ => trivial
  | _ :: _, h => ⟨⟨Nat.le_trans hle h.1.1, h.1.2⟩, h.2⟩

/-- elisions in order, pairwise apart, inside the source: each ends before the next begins -/
theorem augsOK_dots (src : List UInt8) : ∀ (Y : List Aug) (pos : Nat),
    (∀ y ∈ Y, ∃ o nm, y = Aug.dots o (o + 3) nm ∧ pos ≤ o ∧ o + 3 ≤ src.length) →
    Y.Pairwise (fun a b => a.start ≤ b.start) → Y.Pairwise (fun a b => Spaced a.start b.start) → AugsOK src pos Y
  | [], _, _, _, _ => trivial
  | y :: Y, pos, hy, hs, hp => by
      rw [List.pairwise_cons] at hs hp
      obtain ⟨o, nm, rfl, hpo, hon⟩ := hy y (by simp)
      refine ⟨⟨hpo, hon, Nat.le_add_right _ _, rfl⟩, ?_⟩
      refine augsOK_dots src Y _ (fun z hz => ?_) hs.2 hp.2
      obtain ⟨o', nm', rfl, _, hon'⟩ := hy z (List.mem_cons_of_mem _ hz)
      refine ⟨o', nm', rfl, ?_, hon'⟩
      have h1 := hs.1 _ hz
      have h2 := hp.1 _ hz
      simp only [Aug.start] at h1 h2
      show o + 3 ≤ o'
      rcases h2 with h2 | h2 <;> omega

/-- the fakes first, then whatever may follow `lo` -/
theorem augsOK_fakes_then (src : List UInt8) (lo : Nat) (B : List Aug) (hlo : lo ≤ src.length) (hB : AugsOK src lo B) :
    ∀ (F : List Aug) (pos : Nat), F.Pairwise (fun a b => a.start ≤ b.start) →
      (∀ f ∈ F, f.isFake ∧ pos ≤ f.start ∧ f.start ≤ lo) → pos ≤ lo → AugsOK src pos (F ++ B)
  | [], pos, _, _, hpl => augsOK_antitone src hpl B hB
  | f :: F, pos, hs, hf, _ => by
      rw [List.pairwise_cons] at hs
      obtain ⟨hfk, hpf, hfl⟩ := hf f (by simp)
      have hst : f.stop = f.start := by cases f <;> first | rfl | exact absurd hfk (by simp [Aug.isFake])
      refine ⟨⟨hpf, by rw [hst]; omega, by rw [hst]; exact Nat.le_refl _, ?_⟩, ?_⟩
      · cases f <;> first | trivial | exact absurd hfk (by simp [Aug.isFake])
      · rw [hst]
        exact augsOK_fakes_then src lo B hlo hB F f.start hs.2
          (fun a ha => ⟨(hf a (List.mem_cons_of_mem _ ha)).1, hs.1 a ha, (hf a (List.mem_cons_of_mem _ ha)).2.2⟩) hfl

/-- **the finder's output meets the hypothesis of the rewriter**: on a token stream that ends with its only EOF token, in
source order with three-byte ELLIPSIS tokens, inside a source of `src.length` bytes, the augmentations `find` returns,
sorted as `rewrite` sorts them, follow one another inside the source and every elision is three bytes long -/
theorem find_augs_ok (src : List UInt8) (toks : List Tok) (h : WF toks) (hl : Laid toks)
    (hb : ∀ t ∈ toks, t.off ≤ src.length) : AugsOK src 0 (sortByStart (find toks h)) := by
  obtain ⟨F, lo, D, hfind, hF, hlo, hp, hD⟩ := find_shape toks h hl src.length hb
  rw [hfind, sortByStart_append_min F (dotsOf D) hF.1 ?_]
  · refine augsOK_fakes_then src lo _ hlo ?_ F 0 hF.1 (fun f hf => ⟨(hF.2 f hf).1, Nat.zero_le _, (hF.2 f hf).2⟩)
      (Nat.zero_le _)
    refine augsOK_dots src _ lo (fun y hy => ?_) (sortByStart_sorted _) ?_
    · have hy' := (mem_sortByStart y _).1 hy
      simp only [dotsOf, List.mem_map] at hy'
      obtain ⟨p, hp', rfl⟩ := hy'
      have := hD p.1 (List.mem_map.2 ⟨p, hp', rfl⟩)
      exact ⟨p.1, p.2, rfl, this.1, this.2.1⟩
    · refine (List.Perm.pairwise_iff (fun h => Spaced.symm h) (sortByStart_perm (dotsOf D))).2 ?_
      simp only [dotsOf, List.pairwise_map, Aug.start]
      simpa [List.pairwise_map] using hp
  · intro f hf x hx
    simp only [dotsOf, List.mem_map] at hx
    obtain ⟨p, hp', rfl⟩ := hx
    exact Nat.le_trans (hF.2 f hf).2 (hD p.1 (List.mem_map.2 ⟨p, hp', rfl⟩)).1

/-- every elision `find` returns stands on an ELLIPSIS token of the stream and is three bytes long -/
theorem find_dots_on_ellipsis (toks : List Tok) (h : WF toks) (hl : Laid toks) (s e : Nat) (nm : Bool)
    (hm : Aug.dots s e nm ∈ find toks h) : e = s + 3 ∧ OnEll toks s := by
  obtain ⟨F, lo, D, hfind, hF, _, _, hD⟩ := find_shape toks h hl ((toks.map (·.off)).foldr max 0) (off_le_max toks)
  rw [hfind] at hm
  rcases List.mem_append.1 hm with hm | hm
  · exact absurd (hF.2 _ hm).1 (by simp [Aug.isFake])
  · simp only [dotsOf, List.mem_map] at hm
    obtain ⟨p, hp', heq⟩ := hm
    cases heq
    exact ⟨rfl, (hD p.1 (List.mem_map.2 ⟨p, hp', rfl⟩)).2.2⟩

end Gopatch.Fnd
