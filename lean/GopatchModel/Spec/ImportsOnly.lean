import GopatchModel.FileM
/-
  Spec/ImportsOnly.lean — making the import declarations follow a change of the import list
  (`syncImports`: what astutil.AddNamedImport / DeleteNamedImport do to the tree) touches
  import declarations only: every other declaration of the file stays where it is relative
  to the others, unchanged.
-/
namespace Gopatch

def notImport (d : V) : Bool := !isImportGenDecl d

theorem isImport_withSpecs (d : V) (specs : List V) : isImportGenDecl (withSpecs d specs) = isImportGenDecl d := by
  unfold withSpecs
  split
  · rename_i i t id doc tp tok lp e sp rest
    cases tok <;> simp [isImportGenDecl]
  · rfl

theorem isImport_newImportDecl (specs : List V) : isImportGenDecl (newImportDecl specs) = true := by
  simp [newImportDecl, isImportGenDecl]

theorem addSpecs_go_others (merged : V) (hm : isImportGenDecl merged = true) : ∀ (ds : List V) (seen : Bool),
    (addSpecs.go merged ds seen).filter notImport = ds.filter notImport
  | [], _ => by simp [addSpecs.go]
  | d :: rest, seen => by
    rw [addSpecs.go]
    by_cases hd : isImportGenDecl d = true
    · simp only [hd, ↓reduceIte]
      cases seen with
      | true =>
        simp only [↓reduceIte]
        rw [addSpecs_go_others merged hm rest true]
        simp [List.filter, notImport, hd]
      | false =>
        simp only [Bool.false_eq_true, ↓reduceIte]
        simp only [List.filter_cons, notImport, hm, hd, Bool.not_true, Bool.false_eq_true, ↓reduceIte]
        exact addSpecs_go_others merged hm rest true
    · simp only [hd, Bool.false_eq_true, ↓reduceIte]
      have hn : notImport d = true := by simp [notImport, hd]
      simp only [List.filter_cons, hn, ↓reduceIte]
      congr 1
      exact addSpecs_go_others merged hm rest seen

theorem addSpecs_others (added : List (Option String × String)) (ds : List V) :
    (addSpecs added ds).filter notImport = ds.filter notImport := by
  unfold addSpecs
  split
  · rfl
  · simp only []
    split
    · rename_i hnone
      simp [List.filter_cons, notImport, isImport_newImportDecl]
    · rename_i first hfirst
      have hf : isImportGenDecl first = true := by
        have := List.find?_some hfirst
        exact this
      exact addSpecs_go_others _ (by rw [isImport_withSpecs]; exact hf) ds false

theorem deleteSpecs_go_others (k : Option String × String) : ∀ (ds : List V) (done : Bool),
    (deleteSpecs.go k ds done).filter notImport = ds.filter notImport
  | [], _ => by simp [deleteSpecs.go]
  | d :: rest, done => by
    rw [deleteSpecs.go]
    split
    · rename_i hc
      simp only [Bool.and_eq_true] at hc
      have hd : isImportGenDecl d = true := hc.1.2
      simp only [List.filter_cons, notImport, isImport_withSpecs, hd, Bool.not_true, Bool.false_eq_true, ↓reduceIte]
      exact deleteSpecs_go_others k rest true
    · simp only [List.filter_cons]
      rw [deleteSpecs_go_others k rest done]

theorem deleteSpecs_others (gone : List (Option String × String)) (ds : List V) :
    (deleteSpecs gone ds).filter notImport = ds.filter notImport := by
  unfold deleteSpecs
  simp only []
  rw [List.filter_filter]
  have hstep : ∀ (gs : List (Option String × String)) (ds : List V),
      (gs.foldl (fun ds k => deleteSpecs.go k ds false) ds).filter notImport = ds.filter notImport := by
    intro gs
    induction gs with
    | nil => intro ds; rfl
    | cons g gs ih => intro ds; rw [List.foldl_cons, ih, deleteSpecs_go_others]
  have : ∀ l : List V, l.filter (fun a => notImport a && !(isImportGenDecl a && (specsOf a).isEmpty)) = l.filter notImport := by
    intro l
    apply List.filter_congr
    intro x _
    simp only [notImport]
    cases isImportGenDecl x <;> simp
  rw [this]
  exact hstep gone ds

/-- the declarations of a file other than import declarations, in order -/
def otherDecls : V → List V
  | .ptr _ _ (_ :: _ :: _ :: .slice _ decls :: _) => decls.filter notImport
  | _ => []

/-- **Import synchronisation touches import declarations only.** -/
theorem syncImports_other_decls (tree : V) (old new : List (Option String × String)) :
    otherDecls (syncImports tree old new) = otherDecls tree := by
  unfold syncImports
  split
  · simp only [otherDecls]
    rw [deleteSpecs_others, addSpecs_others]
  · rfl

end Gopatch
