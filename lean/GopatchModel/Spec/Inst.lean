import GopatchModel.Engine
/-
  Spec/Inst.lean — the declarative notion of "syntactic instance of a pattern":
  the same tree up to positions (validity only), comments and resolved objects,
  each metavariable standing for code of its declared kind (the same code at
  every occurrence), each elision standing for some run of elements.  No data
  store, no search order: one global substitution σ.
-/
namespace Gopatch

abbrev Subst := List (String × V)

mutual
inductive Inst (mt : Meta) (σ : Subst) : V → V → Prop
  | pos (v : Bool) (pk gk : Nat) : Inst mt σ (.pos v pk) (.pos v gk)
  | str (s : String) : Inst mt σ (.str s) (.str s)
  | int (n : Int) : Inst mt σ (.int n) (.int n)
  | bool (b : Bool) : Inst mt σ (.bool b) (.bool b)
  | ignoredNil (t : String) (g : V) : ignoredPtr t = true → Inst mt σ (.nilP t) g
  | ignoredPtr (t : String) (id : Nat) (fs : List V) (g : V) : ignoredPtr t = true → Inst mt σ (.ptr t id fs) g
  | nilP (t : String) (g : V) : g.isNil = true → Inst mt σ (.nilP t) g
  | nilI (i : String) (g : V) : g.isNil = true → Inst mt σ (.nilI i) g
  | nilS (e : String) (g : V) : dotsElem e = false → g.isNil = true → Inst mt σ (.nilS e) g
  | nilSNil (e e' : String) : dotsElem e = true → Inst mt σ (.nilS e) (.nilS e')
  | nilSEmpty (e e' : String) : dotsElem e = true → Inst mt σ (.nilS e) (.slice e' [])
  | iface (i j : String) (p g : V) : Inst mt σ p g → Inst mt σ (.iface i p) (.iface j g)
  | sliceDots (e e' : String) (ps gs : List V) : dotsElem e = true → InstSeq mt σ e ps gs →
      Inst mt σ (.slice e ps) (.slice e' gs)
  | sliceDotsNil (e e' : String) (ps : List V) : dotsElem e = true → InstSeq mt σ e ps [] →
      Inst mt σ (.slice e ps) (.nilS e')
  | slice (e e' : String) (ps gs : List V) : dotsElem e = false → InstList mt σ ps gs →
      Inst mt σ (.slice e ps) (.slice e' gs)
  | sliceEmptyNil (e e' : String) : dotsElem e = false → Inst mt σ (.slice e []) (.nilS e')
  | metavar (id : Nat) (fs : List V) (k : Kind) (g c : V) :
      mt.look (identName fs) = some k → kindOK k g = true → g.isNil = false →
      σ.lookup (identName fs) = some c → eqvM c g = true →
      Inst mt σ (.ptr "ast.Ident" id fs) g
  | forDots (t : String) (id : Nat) (fs : List V) (k : Nat) (t' : String) (id' : Nat) (gs : List V) (bi : Nat) (gb : V) :
      forDotsKeyOf t fs = some k → bodyIdxOf t' = some bi → gs[bi]? = some gb → InstNth mt σ fs 4 gb →
      Inst mt σ (.ptr t id fs) (.ptr t' id' gs)
  | ptr (t : String) (id id' : Nat) (fs gs : List V) :
      (t = "ast.Ident" → mt.look (identName fs) = none) → forDotsKeyOf t fs = none →
      InstList mt σ fs gs → Inst mt σ (.ptr t id fs) (.ptr t id' gs)
inductive InstList (mt : Meta) (σ : Subst) : List V → List V → Prop
  | nil : InstList mt σ [] []
  | cons (p g : V) (ps gs : List V) : Inst mt σ p g → InstList mt σ ps gs → InstList mt σ (p :: ps) (g :: gs)
inductive InstSeq (mt : Meta) (σ : Subst) : String → List V → List V → Prop
  | nil (e : String) : InstSeq mt σ e [] []
  | dots (e : String) (p : V) (k : Nat) (ps run rest : List V) : dotsKeyOf e p = some k →
      InstSeq mt σ e ps rest → InstSeq mt σ e (p :: ps) (run ++ rest)
  | elem (e : String) (p g : V) (ps gs : List V) : dotsKeyOf e p = none →
      Inst mt σ p g → InstSeq mt σ e ps gs → InstSeq mt σ e (p :: ps) (g :: gs)
inductive InstNth (mt : Meta) (σ : Subst) : List V → Nat → V → Prop
  | here (p g : V) (ps : List V) : Inst mt σ p g → InstNth mt σ (p :: ps) 0 g
  | there (p g : V) (ps : List V) (i : Nat) : InstNth mt σ ps i g → InstNth mt σ (p :: ps) (i + 1) g
end

/-- `σ` agrees with every binding of `d` -/
def Ext (d : Data) (σ : Subst) : Prop := ∀ n c, d.lookMv n = some c → σ.lookup n = some c

end Gopatch
