import GopatchModel.Spec.Typing
import GopatchModel.Spec.Complete
/-
  Spec/All.lean — the reference matcher: every way a pattern can match, as a
  list of resulting data stores.  It explores every choice of runs for every
  elision, everywhere in the pattern (the engine's matcher commits to the first
  run that lets the *rest of the same list* match and never revisits a choice
  made inside a nested list).

    allV_sound      every result is an instance (same statement as matchV_sound)
    matchV_sub      what the engine's matcher returns is one of the results
    allV_complete   if the code is an instance under some substitution by
                    well-typed code, there is a result (agreeing with it)
    allV_det        for patterns without elisions both matchers coincide

  so `allV ≠ []` decides "is a syntactic instance" and is what the C01 check
  uses as its oracle for the converse direction of the property.
-/
namespace Gopatch

mutual
def allV (mt : Meta) : V → V → Data → List Data
  | .pos pv pk, g, d => (matchV mt (.pos pv pk) g d).toList
  | .str s, g, d => (matchV mt (.str s) g d).toList
  | .int n, g, d => (matchV mt (.int n) g d).toList
  | .bool b, g, d => (matchV mt (.bool b) g d).toList
  | .nilP t, g, d => (matchV mt (.nilP t) g d).toList
  | .nilI i, g, d => (matchV mt (.nilI i) g d).toList
  | .nilS e, g, d => (matchV mt (.nilS e) g d).toList
  | .iface _ pv, g, d => match g with | .iface _ gv => allV mt pv gv d | _ => []
  | .slice e ps, g, d =>
      if dotsElem e then
        (match g with
         | .slice _ gs => allSeq mt e ps gs d
         | .nilS _ => allSeq mt e ps [] d
         | _ => [])
      else
        (match g with
         | .slice _ gs => allVs mt ps gs d
         | .nilS _ => if ps.isEmpty then [d] else []
         | _ => [])
  | .ptr t _ fs, g, d =>
      if ignoredPtr t then [d]
      else if t == "ast.Ident" then
        (match mt.look (identName fs) with
         | some k => (matchMetavar k (identName fs) g d).toList
         | none => match g with
            | .ptr t' _ gs => if t == t' then allVs mt fs gs d else []
            | _ => [])
      else match forDotsKeyOf t fs with
        | some k =>
            (match g with
             | .ptr t' _ gs =>
                 (match bodyIdxOf t' with
                  | some bi =>
                      (match gs[bi]? with
                       | some gb => allNth mt fs 4 gb
                                      (d.pushFor k { ty := t', bodyIdx := bi, fields := gs })
                       | none => [])
                  | none => [])
             | _ => [])
        | none => match g with
            | .ptr t' _ gs => if t == t' then allVs mt fs gs d else []
            | _ => []
def allVs (mt : Meta) : List V → List V → Data → List Data
  | [], [], d => [d]
  | p :: ps, g :: gs, d => (allV mt p g d).flatMap (allVs mt ps gs)
  | _, _, _ => []
def allSeq (mt : Meta) (e : String) : List V → List V → Data → List Data
  | [], gs, d => if gs.isEmpty then [d] else []
  | p :: ps, gs, d =>
      match dotsKeyOf e p with
      | some k => (splits gs).flatMap (fun sr => allSeq mt e ps sr.2 (d.pushDots k sr.1))
      | none => match gs with
          | [] => []
          | g :: gs' => (allV mt p g d).flatMap (allSeq mt e ps gs')
def allNth (mt : Meta) : List V → Nat → V → Data → List Data
  | [], _, _, _ => []
  | p :: _, 0, g, d => allV mt p g d
  | _ :: ps, i+1, g, d => allNth mt ps i g d
end

/-- "is a syntactic instance", decided -/
def isInstance (mt : Meta) (p g : V) (d : Data) : Bool := !(allV mt p g d).isEmpty

theorem mem_toList_iff {α} (o : Option α) (a : α) : a ∈ o.toList ↔ o = some a := by
  cases o <;> simp [eq_comm]

end Gopatch

namespace Gopatch

mutual
theorem allV_sound (mt : Meta) : ∀ (p g : V) (d d' : Data), d' ∈ allV mt p g d →
    Mono d d' ∧ ∀ σ, Ext d' σ → Inst mt σ p g
  | .pos pv pk, g, d, d', h => by
      rw [allV.eq_def] at h; exact matchV_sound mt _ g d d' ((mem_toList_iff _ _).1 h)
  | .str s, g, d, d', h => by
      rw [allV.eq_def] at h; exact matchV_sound mt _ g d d' ((mem_toList_iff _ _).1 h)
  | .int n, g, d, d', h => by
      rw [allV.eq_def] at h; exact matchV_sound mt _ g d d' ((mem_toList_iff _ _).1 h)
  | .bool b, g, d, d', h => by
      rw [allV.eq_def] at h; exact matchV_sound mt _ g d d' ((mem_toList_iff _ _).1 h)
  | .nilP t, g, d, d', h => by
      rw [allV.eq_def] at h; exact matchV_sound mt _ g d d' ((mem_toList_iff _ _).1 h)
  | .nilI i, g, d, d', h => by
      rw [allV.eq_def] at h; exact matchV_sound mt _ g d d' ((mem_toList_iff _ _).1 h)
  | .nilS e, g, d, d', h => by
      rw [allV.eq_def] at h; exact matchV_sound mt _ g d d' ((mem_toList_iff _ _).1 h)
  | .iface i pv, g, d, d', h => by
      rw [allV.eq_def] at h
      cases g <;> simp only at h <;> try (simp at h)
      rename_i j gv
      obtain ⟨m, hi⟩ := allV_sound mt pv gv d d' h
      exact ⟨m, fun σ hσ => Inst.iface i j pv gv (hi σ hσ)⟩
  | .slice e ps, g, d, d', h => by
      rw [allV.eq_def] at h
      simp only at h
      split at h
      · rename_i hde
        cases g <;> simp only at h <;> try (simp at h)
        · rename_i e'
          obtain ⟨m, hi⟩ := allSeq_sound mt e ps [] d d' h
          exact ⟨m, fun σ hσ => Inst.sliceDotsNil e e' ps hde (hi σ hσ)⟩
        · rename_i e' gs
          obtain ⟨m, hi⟩ := allSeq_sound mt e ps gs d d' h
          exact ⟨m, fun σ hσ => Inst.sliceDots e e' ps gs hde (hi σ hσ)⟩
      · rename_i hde
        have hde' : dotsElem e = false := by simpa using hde
        cases g <;> simp only at h <;> try (simp at h)
        · rename_i e'
          obtain ⟨hps, hd⟩ := h
          subst hd; subst hps
          exact ⟨Mono.refl _, fun σ _ => Inst.sliceEmptyNil e e' hde'⟩
        · rename_i e' gs
          obtain ⟨m, hi⟩ := allVs_sound mt ps gs d d' h
          exact ⟨m, fun σ hσ => Inst.slice e e' ps gs hde' (hi σ hσ)⟩
  | .ptr t id fs, g, d, d', h => by
      rw [allV.eq_def] at h
      simp only at h
      split at h
      · rename_i hig
        have hd : d' = d := by simpa using h
        subst hd
        exact ⟨Mono.refl _, fun σ _ => Inst.ignoredPtr t id fs g hig⟩
      · split at h
        · rename_i hid
          have ht : t = "ast.Ident" := by simpa using hid
          subst ht
          split at h
          · rename_i k hk
            exact matchMetavar_spec mt k id fs g d d' hk ((mem_toList_iff _ _).1 h)
          · cases g <;> simp only at h <;> try (simp at h)
            rename_i t' id' gs
            obtain ⟨ht'', h⟩ := h
            subst ht''
            obtain ⟨m, hi⟩ := allVs_sound mt fs gs d d' h
            exact ⟨m, fun σ hσ => Inst.ptr _ id id' fs gs (fun _ => by assumption) (by simp [forDotsKeyOf]) (hi σ hσ)⟩
        · split at h
          · rename_i k hk
            cases g <;> simp only at h <;> try (simp at h)
            rename_i t' id' gs
            split at h
            · rename_i bi hbi
              split at h
              · rename_i gb hgb
                obtain ⟨m, hi⟩ := allNth_sound mt fs 4 gb _ d' h
                exact ⟨(mono_pushFor d k _).trans m, fun σ hσ => Inst.forDots t id fs k t' id' gs bi gb hk hbi hgb (hi σ hσ)⟩
              · simp at h
            · simp at h
          · cases g <;> simp only at h <;> try (simp at h)
            rename_i t' id' gs
            obtain ⟨ht'', h⟩ := h
            subst ht''
            have hnid : ¬ (t == "ast.Ident") = true := by assumption
            have hfd : forDotsKeyOf t fs = none := by assumption
            obtain ⟨m, hi⟩ := allVs_sound mt fs gs d d' h
            exact ⟨m, fun σ hσ => Inst.ptr _ id id' fs gs (fun he => absurd he (by simpa using hnid)) hfd (hi σ hσ)⟩
theorem allVs_sound (mt : Meta) : ∀ (ps gs : List V) (d d' : Data), d' ∈ allVs mt ps gs d →
    Mono d d' ∧ ∀ σ, Ext d' σ → InstList mt σ ps gs
  | [], [], d, d', h => by
      rw [allVs.eq_def] at h; simp only [List.mem_singleton] at h; subst h
      exact ⟨Mono.refl _, fun σ _ => InstList.nil⟩
  | [], _ :: _, d, d', h => by rw [allVs.eq_def] at h; simp at h
  | _ :: _, [], d, d', h => by rw [allVs.eq_def] at h; simp at h
  | p :: ps, g :: gs, d, d', h => by
      rw [allVs.eq_def] at h
      simp only [List.mem_flatMap] at h
      obtain ⟨d1, h1, h2⟩ := h
      obtain ⟨m1, i1⟩ := allV_sound mt p g d d1 h1
      obtain ⟨m2, i2⟩ := allVs_sound mt ps gs d1 d' h2
      exact ⟨m1.trans m2, fun σ hσ => InstList.cons p g ps gs (i1 σ (hσ.mono m2)) (i2 σ hσ)⟩
theorem allSeq_sound (mt : Meta) (e : String) : ∀ (ps gs : List V) (d d' : Data), d' ∈ allSeq mt e ps gs d →
    Mono d d' ∧ ∀ σ, Ext d' σ → InstSeq mt σ e ps gs
  | [], gs, d, d', h => by
      rw [allSeq.eq_def] at h
      simp only at h
      cases gs with
      | nil => simp at h; subst h; exact ⟨Mono.refl _, fun σ _ => InstSeq.nil e⟩
      | cons g gs => simp at h
  | p :: ps, gs, d, d', h => by
      rw [allSeq.eq_def] at h
      simp only at h
      split at h
      · rename_i k hk
        simp only [List.mem_flatMap] at h
        obtain ⟨a, ha, hb⟩ := h
        obtain ⟨m, hi⟩ := allSeq_sound mt e ps a.2 _ d' hb
        have hcat := splits_cat gs a.1 a.2 ha
        refine ⟨(mono_pushDots d k a.1).trans m, fun σ hσ => ?_⟩
        rw [← hcat]
        exact InstSeq.dots e p k ps a.1 a.2 hk (hi σ hσ)
      · rename_i hk
        cases gs with
        | nil => simp at h
        | cons g gs' =>
          simp only [List.mem_flatMap] at h
          obtain ⟨d1, h1, h2⟩ := h
          obtain ⟨m1, i1⟩ := allV_sound mt p g d d1 h1
          obtain ⟨m2, i2⟩ := allSeq_sound mt e ps gs' d1 d' h2
          exact ⟨m1.trans m2, fun σ hσ => InstSeq.elem e p g ps gs' hk (i1 σ (hσ.mono m2)) (i2 σ hσ)⟩
theorem allNth_sound (mt : Meta) : ∀ (ps : List V) (i : Nat) (g : V) (d d' : Data), d' ∈ allNth mt ps i g d →
    Mono d d' ∧ ∀ σ, Ext d' σ → InstNth mt σ ps i g
  | [], _, _, _, _, h => by rw [allNth.eq_def] at h; simp at h
  | p :: ps, 0, g, d, d', h => by
      rw [allNth.eq_def] at h; simp only at h
      obtain ⟨m, hi⟩ := allV_sound mt p g d d' h
      exact ⟨m, fun σ hσ => InstNth.here p g ps (hi σ hσ)⟩
  | p :: ps, i + 1, g, d, d', h => by
      rw [allNth.eq_def] at h; simp only at h
      obtain ⟨m, hi⟩ := allNth_sound mt ps i g d d' h
      exact ⟨m, fun σ hσ => InstNth.there p g ps i (hi σ hσ)⟩
end

end Gopatch

namespace Gopatch

mutual
/-- whatever the engine's matcher returns is one of the results of the reference matcher -/
theorem matchV_sub (mt : Meta) : ∀ (p g : V) (d d' : Data), matchV mt p g d = some d' → d' ∈ allV mt p g d
  | .pos pv pk, g, d, d', h => by rw [allV.eq_def]; exact (mem_toList_iff _ _).2 h
  | .str s, g, d, d', h => by rw [allV.eq_def]; exact (mem_toList_iff _ _).2 h
  | .int n, g, d, d', h => by rw [allV.eq_def]; exact (mem_toList_iff _ _).2 h
  | .bool b, g, d, d', h => by rw [allV.eq_def]; exact (mem_toList_iff _ _).2 h
  | .nilP t, g, d, d', h => by rw [allV.eq_def]; exact (mem_toList_iff _ _).2 h
  | .nilI i, g, d, d', h => by rw [allV.eq_def]; exact (mem_toList_iff _ _).2 h
  | .nilS e, g, d, d', h => by rw [allV.eq_def]; exact (mem_toList_iff _ _).2 h
  | .iface i pv, g, d, d', h => by
      rw [matchV.eq_def] at h
      rw [allV.eq_def]
      cases g <;> simp only at h ⊢ <;> try (cases h)
      rename_i j gv
      exact matchV_sub mt pv gv d d' h
  | .slice e ps, g, d, d', h => by
      rw [matchV.eq_def] at h
      rw [allV.eq_def]
      simp only at h ⊢
      split at h
      · rename_i hde
        simp only [hde, ↓reduceIte]
        cases g <;> simp only at h ⊢ <;> try (cases h)
        · exact matchSeq_sub mt e ps [] d d' h
        · rename_i e' gs; exact matchSeq_sub mt e ps gs d d' h
      · rename_i hde
        simp only [hde, ↓reduceIte]
        cases g <;> simp only at h ⊢ <;> try (cases h)
        · split at h
          · rename_i hem; cases h; simp [hem]
          · cases h
        · rename_i e' gs; exact matchVs_sub mt ps gs d d' h
  | .ptr t id fs, g, d, d', h => by
      rw [matchV.eq_def] at h
      rw [allV.eq_def]
      simp only at h ⊢
      split at h
      · rename_i hig; cases h; simp [hig]
      · rename_i hig
        split at h
        · rename_i hid
          split at h
          · rename_i k hk
            simp only [hig, hid, hk, Bool.false_eq_true, ↓reduceIte]
            exact (mem_toList_iff _ _).2 h
          · rename_i hk
            cases g <;> simp only at h <;> try (cases h)
            rename_i t' id' gs
            split at h
            · rename_i ht'
              simp only [hig, hid, hk, ht', Bool.false_eq_true, ↓reduceIte]
              exact matchVs_sub mt fs gs d d' h
            · cases h
        · rename_i hid
          split at h
          · rename_i k hk
            cases g <;> simp only at h <;> try (cases h)
            rename_i t' id' gs
            split at h
            · rename_i bi hbi
              split at h
              · rename_i gb hgb
                simp only [hig, hid, hk, hbi, hgb, Bool.false_eq_true, ↓reduceIte]
                exact matchNth_sub mt fs 4 gb _ d' h
              · cases h
            · cases h
          · rename_i hk
            cases g <;> simp only at h <;> try (cases h)
            rename_i t' id' gs
            split at h
            · rename_i ht'
              simp only [hig, hid, hk, ht', Bool.false_eq_true, ↓reduceIte]
              exact matchVs_sub mt fs gs d d' h
            · cases h
theorem matchVs_sub (mt : Meta) : ∀ (ps gs : List V) (d d' : Data), matchVs mt ps gs d = some d' → d' ∈ allVs mt ps gs d
  | [], [], d, d', h => by
      rw [matchVs.eq_def] at h; simp only at h; cases h
      rw [allVs.eq_def]; simp
  | [], _ :: _, d, d', h => by rw [matchVs.eq_def] at h; simp only at h; cases h
  | _ :: _, [], d, d', h => by rw [matchVs.eq_def] at h; simp only at h; cases h
  | p :: ps, g :: gs, d, d', h => by
      rw [matchVs.eq_def] at h
      simp only [Option.bind_eq_some_iff] at h
      obtain ⟨d1, h1, h2⟩ := h
      rw [allVs.eq_def]
      simp only [List.mem_flatMap]
      exact ⟨d1, matchV_sub mt p g d d1 h1, matchVs_sub mt ps gs d1 d' h2⟩
theorem matchSeq_sub (mt : Meta) (e : String) : ∀ (ps gs : List V) (d d' : Data), matchSeq mt e ps gs d = some d' →
    d' ∈ allSeq mt e ps gs d
  | [], gs, d, d', h => by
      rw [matchSeq.eq_def] at h
      rw [allSeq.eq_def]
      simp only at h ⊢
      split at h
      · rename_i hg; cases h; simp [hg]
      · cases h
  | p :: ps, gs, d, d', h => by
      rw [matchSeq.eq_def] at h
      rw [allSeq.eq_def]
      simp only at h ⊢
      split at h
      · rename_i k hk
        obtain ⟨a, ha, hb⟩ := firstSome_mem _ _ _ h
        simp only [hk]
        exact List.mem_flatMap.2 ⟨a, ha, matchSeq_sub mt e ps a.2 _ d' hb⟩
      · rename_i hk
        cases gs with
        | nil => simp only at h; cases h
        | cons g gs' =>
          simp only [Option.bind_eq_some_iff] at h
          obtain ⟨d1, h1, h2⟩ := h
          simp only [hk]
          exact List.mem_flatMap.2 ⟨d1, matchV_sub mt p g d d1 h1, matchSeq_sub mt e ps gs' d1 d' h2⟩
theorem matchNth_sub (mt : Meta) : ∀ (ps : List V) (i : Nat) (g : V) (d d' : Data), matchNth mt ps i g d = some d' →
    d' ∈ allNth mt ps i g d
  | [], _, _, _, _, h => by rw [matchNth.eq_def] at h; simp only at h; cases h
  | p :: ps, 0, g, d, d', h => by
      rw [matchNth.eq_def] at h; simp only at h
      rw [allNth.eq_def]; exact matchV_sub mt p g d d' h
  | p :: ps, i + 1, g, d, d', h => by
      rw [matchNth.eq_def] at h; simp only at h
      rw [allNth.eq_def]; exact matchNth_sub mt ps i g d d' h
end

end Gopatch

namespace Gopatch

/-! ### Completeness of the reference matcher -/

/-- code a metavariable may stand for: a node (not a comment or object), well-typed, in parser normal form -/
def GoodV (sc : Schema) (v : V) : Prop := dynOK v = true ∧ wtv sc v = true ∧ nf v = true
def GoodSubst (sc : Schema) (σ : Subst) : Prop := ∀ n c, σ.lookup n = some c → GoodV sc c
/-- every binding made so far stands for code that the substitution's value matches -/
def Compat (sc : Schema) (d : Data) (σ : Subst) : Prop :=
  ∀ n v, d.lookMv n = some v → GoodV sc v ∧ ∃ c, σ.lookup n = some c ∧ eqvM c v = true

theorem Compat.of_mv_eq {sc : Schema} {d d' : Data} {σ : Subst} (h : d'.mv = d.mv) (hc : Compat sc d σ) : Compat sc d' σ := by
  intro n v hv
  apply hc n v
  simpa [Data.lookMv, h] using hv

def isLeaf : V → Bool
  | .iface _ _ => false
  | .slice _ _ => false
  | .ptr _ _ _ => false
  | _ => true

theorem matchV_leaf_mv (mt : Meta) (p g : V) (d d' : Data) (hl : isLeaf p = true) (h : matchV mt p g d = some d') :
    d'.mv = d.mv := by
  cases p <;> simp [isLeaf] at hl <;> rw [matchV.eq_def] at h <;> simp only at h
  · cases g <;> simp only at h <;> try (cases h)
    split at h
    · cases h; split <;> rfl
    · cases h
  · cases g <;> simp only at h <;> try (cases h)
    split at h <;> cases h; rfl
  · cases g <;> simp only at h <;> try (cases h)
    split at h <;> cases h; rfl
  · cases g <;> simp only at h <;> try (cases h)
    split at h <;> cases h; rfl
  · split at h <;> cases h; rfl
  · split at h <;> cases h; rfl
  · split at h
    · match g, h with
      | .nilS _, h => cases h; rfl
      | .slice _ [], h => cases h; rfl
    · split at h <;> cases h; rfl

theorem leaf_ground (mt : Meta) (p : V) (hl : isLeaf p = true) : ground mt p = true := by
  cases p <;> simp [isLeaf] at hl <;> rw [ground.eq_def]

theorem exprType_not_ignored (t : String) (h : isExprType t = true) : ignoredPtr t = false := by
  cases hi : ignoredPtr t with
  | false => rfl
  | true =>
    simp only [ignoredPtr, Bool.or_eq_true, beq_iff_eq] at hi
    rcases hi with rfl | rfl <;> revert h <;> decide

theorem kind_dynOK (k : Kind) (g : V) (hk : kindOK k g = true) (hn : g.isNil = false) : dynOK g = true := by
  cases g <;> simp [V.isNil] at hn <;> cases k <;> simp [kindOK] at hk
  · rename_i t id fs
    simp [dynOK, exprType_not_ignored t hk]
  · rename_i t id fs
    subst hk
    simp [dynOK]; decide

theorem bodyIdx_not_ignored (t : String) (bi : Nat) (h : bodyIdxOf t = some bi) : ignoredPtr t = false := by
  unfold bodyIdxOf at h
  by_cases h1 : (t == "ast.ForStmt") = true
  · have : t = "ast.ForStmt" := by simpa using h1
    subst this; decide
  · by_cases h2 : (t == "ast.RangeStmt") = true
    · have : t = "ast.RangeStmt" := by simpa using h2
      subst this; decide
    · simp [h1, h2] at h

theorem wtvs_get (sc : Schema) : ∀ (gs : List V) (i : Nat) (v : V), wtvs sc gs = true → gs[i]? = some v → wtv sc v = true
  | [], _, _, _, h => by simp at h
  | g :: gs, 0, v, hw, h => by
      simp only [wtvs, Bool.and_eq_true] at hw
      simp at h; subst h; exact hw.1
  | g :: gs, i + 1, v, hw, h => by
      simp only [wtvs, Bool.and_eq_true] at hw
      simp at h; exact wtvs_get sc gs i v hw.2 h

theorem nfs_get : ∀ (gs : List V) (i : Nat) (v : V), nfs gs = true → gs[i]? = some v → nf v = true
  | [], _, _, _, h => by simp at h
  | g :: gs, 0, v, hw, h => by
      simp only [nfs, Bool.and_eq_true] at hw
      simp at h; subst h; exact hw.1
  | g :: gs, i + 1, v, hw, h => by
      simp only [nfs, Bool.and_eq_true] at hw
      simp at h; exact nfs_get gs i v hw.2 h

theorem wtvs_append_right (sc : Schema) : ∀ (a b : List V), wtvs sc (a ++ b) = true → wtvs sc b = true
  | [], _, h => h
  | x :: a, b, h => by
      simp only [List.cons_append, wtvs, Bool.and_eq_true] at h
      exact wtvs_append_right sc a b h.2

theorem nfs_append_right : ∀ (a b : List V), nfs (a ++ b) = true → nfs b = true
  | [], _, h => h
  | x :: a, b, h => by
      simp only [List.cons_append, nfs, Bool.and_eq_true] at h
      exact nfs_append_right a b h.2

/-- the metavariable step: a later occurrence agrees with the first one -/
theorem matchMetavar_complete (sc : Schema) (σ : Subst) (hσ : GoodSubst sc σ) (k : Kind) (name : String) (g c : V) (d : Data)
    (hk : kindOK k g = true) (hn : g.isNil = false) (hl : σ.lookup name = some c) (he : eqvM c g = true)
    (wg : wtv sc g = true) (ng : nf g = true) (hc : Compat sc d σ) :
    ∃ d', matchMetavar k name g d = some d' ∧ Compat sc d' σ := by
  have hdg : dynOK g = true := kind_dynOK k g hk hn
  have hgc := hσ name c hl
  unfold matchMetavar
  simp only [hk, hn, Bool.not_true, Bool.or_self, Bool.false_eq_true, ↓reduceIte]
  cases hv : d.lookMv name with
  | some v =>
    obtain ⟨gv, c', hc', hev⟩ := hc name v hv
    rw [hl] at hc'; cases hc'
    have : eqvM v g = true :=
      eqvM_euclid sc c v g hgc.2.1 gv.2.1 wg gv.2.2 ng
        (dyn_tag_eq c v hgc.1 gv.1 hev) (dyn_tag_eq c g hgc.1 hdg he) hev he
    simp only [this, ↓reduceIte]
    exact ⟨d, rfl, hc⟩
  | none =>
    refine ⟨d.pushMv name g, rfl, ?_⟩
    intro n v hnv
    simp only [Data.lookMv, Data.pushMv, List.lookup_cons] at hnv
    by_cases hne : n = name
    · subst hne
      simp at hnv; subst hnv
      exact ⟨⟨hdg, wg, ng⟩, c, hl, he⟩
    · have : (n == name) = false := by simpa using hne
      simp only [this] at hnv
      exact hc n v hnv

end Gopatch

namespace Gopatch

mutual
/-- If the code is an instance of the pattern under a substitution by well-typed code, and the bindings
made so far agree with that substitution, the reference matcher has a result that still agrees with it. -/
theorem allV_complete (sc : Schema) (mt : Meta) (σ : Subst) (hσ : GoodSubst sc σ) : ∀ (p g : V), Inst mt σ p g →
    wtv sc g = true → nf g = true → ∀ d, Compat sc d σ → ∃ d', d' ∈ allV mt p g d ∧ Compat sc d' σ
  | .pos pv pk, g, hi, _, _, d, hc => by
      obtain ⟨d', h⟩ := matchV_complete mt σ _ g (leaf_ground mt _ rfl) hi d
      exact ⟨d', by rw [allV.eq_def]; exact (mem_toList_iff _ _).2 h, hc.of_mv_eq (matchV_leaf_mv mt _ g d d' rfl h)⟩
  | .str s, g, hi, _, _, d, hc => by
      obtain ⟨d', h⟩ := matchV_complete mt σ _ g (leaf_ground mt _ rfl) hi d
      exact ⟨d', by rw [allV.eq_def]; exact (mem_toList_iff _ _).2 h, hc.of_mv_eq (matchV_leaf_mv mt _ g d d' rfl h)⟩
  | .int n, g, hi, _, _, d, hc => by
      obtain ⟨d', h⟩ := matchV_complete mt σ _ g (leaf_ground mt _ rfl) hi d
      exact ⟨d', by rw [allV.eq_def]; exact (mem_toList_iff _ _).2 h, hc.of_mv_eq (matchV_leaf_mv mt _ g d d' rfl h)⟩
  | .bool b, g, hi, _, _, d, hc => by
      obtain ⟨d', h⟩ := matchV_complete mt σ _ g (leaf_ground mt _ rfl) hi d
      exact ⟨d', by rw [allV.eq_def]; exact (mem_toList_iff _ _).2 h, hc.of_mv_eq (matchV_leaf_mv mt _ g d d' rfl h)⟩
  | .nilP t, g, hi, _, _, d, hc => by
      obtain ⟨d', h⟩ := matchV_complete mt σ _ g (leaf_ground mt _ rfl) hi d
      exact ⟨d', by rw [allV.eq_def]; exact (mem_toList_iff _ _).2 h, hc.of_mv_eq (matchV_leaf_mv mt _ g d d' rfl h)⟩
  | .nilI i, g, hi, _, _, d, hc => by
      obtain ⟨d', h⟩ := matchV_complete mt σ _ g (leaf_ground mt _ rfl) hi d
      exact ⟨d', by rw [allV.eq_def]; exact (mem_toList_iff _ _).2 h, hc.of_mv_eq (matchV_leaf_mv mt _ g d d' rfl h)⟩
  | .nilS e, g, hi, _, _, d, hc => by
      obtain ⟨d', h⟩ := matchV_complete mt σ _ g (leaf_ground mt _ rfl) hi d
      exact ⟨d', by rw [allV.eq_def]; exact (mem_toList_iff _ _).2 h, hc.of_mv_eq (matchV_leaf_mv mt _ g d d' rfl h)⟩
  | .iface i pv, g, hi, wg, ng, d, hc => by
      cases hi with
      | iface _ j _ gv h1 =>
        rw [wtv.eq_def] at wg; simp only [Bool.and_eq_true] at wg
        rw [nf.eq_def] at ng; simp only at ng
        rw [allV.eq_def]; simp only
        exact allV_complete sc mt σ hσ pv gv h1 wg.2 ng d hc
  | .slice e ps, g, hi, wg, ng, d, hc => by
      rw [allV.eq_def]; simp only
      cases hi with
      | sliceDots _ e' _ gs hd hs =>
        simp only [hd, ↓reduceIte]
        rw [wtv.eq_def] at wg; simp only [Bool.and_eq_true] at wg
        rw [nf.eq_def] at ng; simp only [Bool.and_eq_true] at ng
        exact allSeq_complete sc mt σ hσ e ps gs hs wg.2 ng.2 d hc
      | sliceDotsNil _ e' _ hd hs =>
        simp only [hd, ↓reduceIte]
        exact allSeq_complete sc mt σ hσ e ps [] hs rfl rfl d hc
      | slice _ e' _ gs hd hl =>
        simp only [hd, Bool.false_eq_true, ↓reduceIte]
        rw [wtv.eq_def] at wg; simp only [Bool.and_eq_true] at wg
        rw [nf.eq_def] at ng; simp only [Bool.and_eq_true] at ng
        exact allVs_complete sc mt σ hσ ps gs hl wg.2 ng.2 d hc
      | sliceEmptyNil _ e' hd =>
        simp only [hd, Bool.false_eq_true, ↓reduceIte, List.isEmpty_nil]
        exact ⟨d, by simp, hc⟩
  | .ptr t id fs, g, hi, wg, ng, d, hc => by
      rw [allV.eq_def]; simp only
      by_cases hig : ignoredPtr t = true
      · simp only [hig, ↓reduceIte]
        exact ⟨d, by simp, hc⟩
      · simp only [hig, Bool.false_eq_true, ↓reduceIte]
        cases hi with
        | ignoredPtr _ _ _ _ h => exact absurd h hig
        | metavar _ _ k _ c hk hko hn hl he =>
          simp only [beq_self_eq_true, ↓reduceIte, hk]
          obtain ⟨d', h, hc'⟩ := matchMetavar_complete sc σ hσ k (identName fs) g c d hko hn hl he wg ng hc
          exact ⟨d', (mem_toList_iff _ _).2 h, hc'⟩
        | forDots _ _ _ k t' id' gs bi gb hk hbi hgb hn =>
          have hnid : (t == "ast.Ident") = false := by
            unfold forDotsKeyOf at hk
            by_cases ht : (t == "ast.ForStmt") = true
            · have : t = "ast.ForStmt" := by simpa using ht
              subst this; decide
            · simp [ht] at hk
          simp only [hnid, Bool.false_eq_true, ↓reduceIte, hk, hbi, hgb]
          have hig' := bodyIdx_not_ignored t' bi hbi
          rw [wtv.eq_def] at wg; simp only [hig', Bool.false_or] at wg
          rw [nf.eq_def] at ng; simp only [hig', Bool.false_or] at ng
          cases hs : sc.fields t' with
          | none => simp [hs] at wg
          | some tags =>
            simp only [hs, Bool.and_eq_true] at wg
            exact allNth_complete sc mt σ hσ fs 4 gb hn (wtvs_get sc gs bi gb wg.2 hgb) (nfs_get gs bi gb ng hgb) _
              (hc.of_mv_eq rfl)
        | ptr _ _ id' _ gs hnone hfd hl =>
          rw [wtv.eq_def] at wg; simp only [hig, Bool.false_eq_true, Bool.false_or] at wg
          rw [nf.eq_def] at ng; simp only [hig, Bool.false_eq_true, Bool.false_or] at ng
          cases hs : sc.fields t with
          | none => simp [hs] at wg
          | some tags =>
            simp only [hs, Bool.and_eq_true] at wg
            by_cases hid : (t == "ast.Ident") = true
            · have : t = "ast.Ident" := by simpa using hid
              simp only [hid, ↓reduceIte, hnone this, beq_self_eq_true]
              exact allVs_complete sc mt σ hσ fs gs hl wg.2 ng d hc
            · simp only [hid, Bool.false_eq_true, ↓reduceIte, hfd, beq_self_eq_true]
              exact allVs_complete sc mt σ hσ fs gs hl wg.2 ng d hc
theorem allVs_complete (sc : Schema) (mt : Meta) (σ : Subst) (hσ : GoodSubst sc σ) : ∀ (ps gs : List V), InstList mt σ ps gs →
    wtvs sc gs = true → nfs gs = true → ∀ d, Compat sc d σ → ∃ d', d' ∈ allVs mt ps gs d ∧ Compat sc d' σ
  | [], gs, hi, _, _, d, hc => by
      cases hi; rw [allVs.eq_def]; exact ⟨d, by simp, hc⟩
  | p :: ps, gs, hi, wg, ng, d, hc => by
      cases hi with
      | cons _ g _ gs' h1 h2 =>
        simp only [wtvs, Bool.and_eq_true] at wg
        simp only [nfs, Bool.and_eq_true] at ng
        obtain ⟨d1, m1, c1⟩ := allV_complete sc mt σ hσ p g h1 wg.1 ng.1 d hc
        obtain ⟨d2, m2, c2⟩ := allVs_complete sc mt σ hσ ps gs' h2 wg.2 ng.2 d1 c1
        exact ⟨d2, by rw [allVs.eq_def]; exact List.mem_flatMap.2 ⟨d1, m1, m2⟩, c2⟩
theorem allSeq_complete (sc : Schema) (mt : Meta) (σ : Subst) (hσ : GoodSubst sc σ) (e : String) : ∀ (ps gs : List V),
    InstSeq mt σ e ps gs → wtvs sc gs = true → nfs gs = true → ∀ d, Compat sc d σ →
    ∃ d', d' ∈ allSeq mt e ps gs d ∧ Compat sc d' σ
  | [], gs, hi, _, _, d, hc => by
      cases hi; rw [allSeq.eq_def]; exact ⟨d, by simp, hc⟩
  | p :: ps, gs, hi, wg, ng, d, hc => by
      rw [allSeq.eq_def]; simp only
      cases hi with
      | dots _ _ k _ run rest hk hs =>
        simp only [hk]
        obtain ⟨d2, m2, c2⟩ := allSeq_complete sc mt σ hσ e ps rest hs (wtvs_append_right sc run rest wg)
          (nfs_append_right run rest ng) (d.pushDots k run) (hc.of_mv_eq rfl)
        exact ⟨d2, List.mem_flatMap.2 ⟨(run, rest), splits_mem run rest, m2⟩, c2⟩
      | elem _ _ g _ gs' hk h1 hs =>
        simp only [hk]
        simp only [wtvs, Bool.and_eq_true] at wg
        simp only [nfs, Bool.and_eq_true] at ng
        obtain ⟨d1, m1, c1⟩ := allV_complete sc mt σ hσ p g h1 wg.1 ng.1 d hc
        obtain ⟨d2, m2, c2⟩ := allSeq_complete sc mt σ hσ e ps gs' hs wg.2 ng.2 d1 c1
        exact ⟨d2, List.mem_flatMap.2 ⟨d1, m1, m2⟩, c2⟩
theorem allNth_complete (sc : Schema) (mt : Meta) (σ : Subst) (hσ : GoodSubst sc σ) : ∀ (ps : List V) (i : Nat) (g : V),
    InstNth mt σ ps i g → wtv sc g = true → nf g = true → ∀ d, Compat sc d σ →
    ∃ d', d' ∈ allNth mt ps i g d ∧ Compat sc d' σ
  | [], _, _, hi, _, _, _, _ => by cases hi
  | p :: ps, 0, g, hi, wg, ng, d, hc => by
      cases hi with
      | here _ _ _ h => rw [allNth.eq_def]; exact allV_complete sc mt σ hσ p g h wg ng d hc
  | p :: ps, i + 1, g, hi, wg, ng, d, hc => by
      cases hi with
      | there _ _ _ _ h => rw [allNth.eq_def]; exact allNth_complete sc mt σ hσ ps i g h wg ng d hc
end

end Gopatch

namespace Gopatch

/-! ### Patterns without elisions: the engine's matcher is the reference matcher -/

def noDotsElems (e : String) : List V → Bool
  | [] => true
  | v :: vs => (dotsKeyOf e v).isNone && noDotsElems e vs

mutual
def dotsFree : V → Bool
  | .iface _ v => dotsFree v
  | .slice e vs => noDotsElems e vs && dotsFreeL vs
  | .ptr t _ fs => ignoredPtr t || ((forDotsKeyOf t fs).isNone && dotsFreeL fs)
  | _ => true
def dotsFreeL : List V → Bool
  | [] => true
  | v :: vs => dotsFree v && dotsFreeL vs
end

theorem toList_flatMap_bind {α β} (o : Option α) (f : α → Option β) :
    o.toList.flatMap (fun x => (f x).toList) = (o.bind f).toList := by
  cases o <;> simp

mutual
theorem allV_det (mt : Meta) : ∀ (p g : V) (d : Data), dotsFree p = true → allV mt p g d = (matchV mt p g d).toList
  | .pos pv pk, g, d, _ => by rw [allV.eq_def]
  | .str s, g, d, _ => by rw [allV.eq_def]
  | .int n, g, d, _ => by rw [allV.eq_def]
  | .bool b, g, d, _ => by rw [allV.eq_def]
  | .nilP t, g, d, _ => by rw [allV.eq_def]
  | .nilI i, g, d, _ => by rw [allV.eq_def]
  | .nilS e, g, d, _ => by rw [allV.eq_def]
  | .iface i pv, g, d, h => by
      rw [dotsFree.eq_def] at h; simp only at h
      rw [allV.eq_def, matchV.eq_def]; simp only
      cases g <;> simp only [Option.toList_none]
      rename_i j gv
      exact allV_det mt pv gv d h
  | .slice e ps, g, d, h => by
      rw [dotsFree.eq_def] at h; simp only [Bool.and_eq_true] at h
      rw [allV.eq_def, matchV.eq_def]; simp only
      by_cases hd : dotsElem e = true
      · simp only [hd, ↓reduceIte]
        cases g <;> simp only [Option.toList_none]
        · exact allSeq_det mt e ps [] d h.1 h.2
        · rename_i e' gs; exact allSeq_det mt e ps gs d h.1 h.2
      · simp only [hd, Bool.false_eq_true, ↓reduceIte]
        cases g <;> simp only [Option.toList_none]
        · by_cases he : ps.isEmpty = true <;> simp [he]
        · rename_i e' gs; exact allVs_det mt ps gs d h.2
  | .ptr t id fs, g, d, h => by
      rw [dotsFree.eq_def] at h; simp only at h
      rw [allV.eq_def, matchV.eq_def]; simp only
      by_cases hig : ignoredPtr t = true
      · simp [hig]
      · simp only [hig, Bool.false_eq_true, Bool.false_or, Bool.and_eq_true, Option.isNone_iff_eq_none] at h
        simp only [hig, Bool.false_eq_true, ↓reduceIte, h.1]
        by_cases hid : (t == "ast.Ident") = true
        · simp only [hid, ↓reduceIte]
          cases hk : mt.look (identName fs) with
          | some k => simp only
          | none =>
            simp only
            cases g <;> simp only [Option.toList_none]
            rename_i t' id' gs
            by_cases ht : (t == t') = true
            · simp only [ht, ↓reduceIte]; exact allVs_det mt fs gs d h.2
            · simp [ht]
        · simp only [hid, Bool.false_eq_true, ↓reduceIte]
          cases g <;> simp only [Option.toList_none]
          rename_i t' id' gs
          by_cases ht : (t == t') = true
          · simp only [ht, ↓reduceIte]; exact allVs_det mt fs gs d h.2
          · simp [ht]
theorem allVs_det (mt : Meta) : ∀ (ps gs : List V) (d : Data), dotsFreeL ps = true →
    allVs mt ps gs d = (matchVs mt ps gs d).toList
  | [], [], d, _ => by rw [allVs.eq_def, matchVs.eq_def]; simp
  | [], _ :: _, d, _ => by rw [allVs.eq_def, matchVs.eq_def]; simp
  | _ :: _, [], d, _ => by rw [allVs.eq_def, matchVs.eq_def]; simp
  | p :: ps, g :: gs, d, h => by
      rw [dotsFreeL.eq_def] at h; simp only [Bool.and_eq_true] at h
      rw [allVs.eq_def, matchVs.eq_def]; simp only
      rw [allV_det mt p g d h.1]
      have : (fun x => allVs mt ps gs x) = (fun x => (matchVs mt ps gs x).toList) := by
        funext x; exact allVs_det mt ps gs x h.2
      show List.flatMap (fun x => allVs mt ps gs x) _ = _
      rw [this]
      exact toList_flatMap_bind _ _
theorem allSeq_det (mt : Meta) (e : String) : ∀ (ps gs : List V) (d : Data), noDotsElems e ps = true → dotsFreeL ps = true →
    allSeq mt e ps gs d = (matchSeq mt e ps gs d).toList
  | [], gs, d, _, _ => by
      rw [allSeq.eq_def, matchSeq.eq_def]; simp only
      by_cases hg : gs.isEmpty = true <;> simp [hg]
  | p :: ps, gs, d, hn, h => by
      rw [dotsFreeL.eq_def] at h; simp only [Bool.and_eq_true] at h
      simp only [noDotsElems, Bool.and_eq_true, Option.isNone_iff_eq_none] at hn
      rw [allSeq.eq_def, matchSeq.eq_def]; simp only [hn.1]
      cases gs with
      | nil => simp
      | cons g gs' =>
        simp only
        rw [allV_det mt p g d h.1]
        have : (fun x => allSeq mt e ps gs' x) = (fun x => (matchSeq mt e ps gs' x).toList) := by
          funext x; exact allSeq_det mt e ps gs' x hn.2 h.2
        show List.flatMap (fun x => allSeq mt e ps gs' x) _ = _
        rw [this]
        exact toList_flatMap_bind _ _
end

/-- Completeness of the engine's matcher for patterns without elisions, repeated metavariables included:
every instance (under a substitution by well-typed code) is matched. -/
theorem matchV_complete_nodots (sc : Schema) (mt : Meta) (σ : Subst) (hσ : GoodSubst sc σ) (p g : V)
    (hp : dotsFree p = true) (hi : Inst mt σ p g) (wg : wtv sc g = true) (ng : nf g = true)
    (d : Data) (hc : Compat sc d σ) : ∃ d', matchV mt p g d = some d' ∧ Compat sc d' σ := by
  obtain ⟨d', hm, hc'⟩ := allV_complete sc mt σ hσ p g hi wg ng d hc
  rw [allV_det mt p g d hp] at hm
  exact ⟨d', (mem_toList_iff _ _).1 hm, hc'⟩

end Gopatch

namespace Gopatch

/-! ### every binding is well-typed code: the reference matcher decides exactly "is an instance" -/

def AllGood (sc : Schema) (d : Data) : Prop := ∀ n v, d.lookMv n = some v → GoodV sc v

theorem AllGood.of_mv_eq {sc : Schema} {d d' : Data} (h : d'.mv = d.mv) (hc : AllGood sc d) : AllGood sc d' := by
  intro n v hv
  apply hc n v
  simpa [Data.lookMv, h] using hv

theorem matchMetavar_good (sc : Schema) (k : Kind) (name : String) (g : V) (d d' : Data)
    (h : matchMetavar k name g d = some d') (wg : wtv sc g = true) (ng : nf g = true) (hc : AllGood sc d) : AllGood sc d' := by
  unfold matchMetavar at h
  split at h
  · cases h
  · rename_i hcond
    simp only [Bool.or_eq_true, Bool.not_eq_true', not_or, Bool.not_eq_false, Bool.not_eq_true] at hcond
    split at h
    · split at h <;> cases h; exact hc
    · cases h
      intro n v hnv
      simp only [Data.lookMv, Data.pushMv, List.lookup_cons] at hnv
      by_cases hne : n = name
      · subst hne
        simp at hnv; subst hnv
        exact ⟨kind_dynOK k g hcond.1 hcond.2, wg, ng⟩
      · have : (n == name) = false := by simpa using hne
        simp only [this] at hnv
        exact hc n v hnv

mutual
theorem allV_good (sc : Schema) (mt : Meta) : ∀ (p g : V) (d d' : Data), d' ∈ allV mt p g d →
    wtv sc g = true → nf g = true → AllGood sc d → AllGood sc d'
  | .pos pv pk, g, d, d', h, _, _, hc => by
      rw [allV.eq_def] at h; exact hc.of_mv_eq (matchV_leaf_mv mt _ g d d' rfl ((mem_toList_iff _ _).1 h))
  | .str s, g, d, d', h, _, _, hc => by
      rw [allV.eq_def] at h; exact hc.of_mv_eq (matchV_leaf_mv mt _ g d d' rfl ((mem_toList_iff _ _).1 h))
  | .int n, g, d, d', h, _, _, hc => by
      rw [allV.eq_def] at h; exact hc.of_mv_eq (matchV_leaf_mv mt _ g d d' rfl ((mem_toList_iff _ _).1 h))
  | .bool b, g, d, d', h, _, _, hc => by
      rw [allV.eq_def] at h; exact hc.of_mv_eq (matchV_leaf_mv mt _ g d d' rfl ((mem_toList_iff _ _).1 h))
  | .nilP t, g, d, d', h, _, _, hc => by
      rw [allV.eq_def] at h; exact hc.of_mv_eq (matchV_leaf_mv mt _ g d d' rfl ((mem_toList_iff _ _).1 h))
  | .nilI i, g, d, d', h, _, _, hc => by
      rw [allV.eq_def] at h; exact hc.of_mv_eq (matchV_leaf_mv mt _ g d d' rfl ((mem_toList_iff _ _).1 h))
  | .nilS e, g, d, d', h, _, _, hc => by
      rw [allV.eq_def] at h; exact hc.of_mv_eq (matchV_leaf_mv mt _ g d d' rfl ((mem_toList_iff _ _).1 h))
  | .iface i pv, g, d, d', h, wg, ng, hc => by
      rw [allV.eq_def] at h
      cases g <;> simp only at h <;> try (simp at h)
      rename_i j gv
      rw [wtv.eq_def] at wg; simp only [Bool.and_eq_true] at wg
      rw [nf.eq_def] at ng; simp only at ng
      exact allV_good sc mt pv gv d d' h wg.2 ng hc
  | .slice e ps, g, d, d', h, wg, ng, hc => by
      rw [allV.eq_def] at h
      simp only at h
      split at h
      · cases g <;> simp only at h <;> try (simp at h)
        · exact allSeq_good sc mt e ps [] d d' h rfl rfl hc
        · rename_i e' gs
          rw [wtv.eq_def] at wg; simp only [Bool.and_eq_true] at wg
          rw [nf.eq_def] at ng; simp only [Bool.and_eq_true] at ng
          exact allSeq_good sc mt e ps gs d d' h wg.2 ng.2 hc
      · cases g <;> simp only at h <;> try (simp at h)
        · obtain ⟨_, hd⟩ := h; subst hd; exact hc
        · rename_i e' gs
          rw [wtv.eq_def] at wg; simp only [Bool.and_eq_true] at wg
          rw [nf.eq_def] at ng; simp only [Bool.and_eq_true] at ng
          exact allVs_good sc mt ps gs d d' h wg.2 ng.2 hc
  | .ptr t id fs, g, d, d', h, wg, ng, hc => by
      rw [allV.eq_def] at h
      simp only at h
      by_cases hig : ignoredPtr t = true
      · simp only [hig, ↓reduceIte] at h
        have hd : d' = d := by simpa using h
        subst hd; exact hc
      · simp only [hig, Bool.false_eq_true, ↓reduceIte] at h
        -- the fields of a matching node of the same type are well-typed and normal
        have fields_ok : ∀ (id' : Nat) (gs : List V), g = .ptr t id' gs → wtvs sc gs = true ∧ nfs gs = true := by
          intro id' gs hg
          subst hg
          rw [wtv.eq_def] at wg; simp only [hig, Bool.false_eq_true, Bool.false_or] at wg
          rw [nf.eq_def] at ng; simp only [hig, Bool.false_eq_true, Bool.false_or] at ng
          cases hs : sc.fields t with
          | none => simp [hs] at wg
          | some tags =>
            simp only [hs, Bool.and_eq_true] at wg
            exact ⟨wg.2, ng⟩
        by_cases hid : (t == "ast.Ident") = true
        · simp only [hid, ↓reduceIte] at h
          cases hk : mt.look (identName fs) with
          | some k =>
            simp only [hk] at h
            exact matchMetavar_good sc k _ g d d' ((mem_toList_iff _ _).1 h) wg ng hc
          | none =>
            simp only [hk] at h
            cases g <;> simp only at h <;> try (simp at h)
            rename_i t' id' gs
            obtain ⟨ht'', h⟩ := h
            subst ht''
            obtain ⟨w, n⟩ := fields_ok id' gs rfl
            exact allVs_good sc mt fs gs d d' h w n hc
        · simp only [hid, Bool.false_eq_true, ↓reduceIte] at h
          cases hk : forDotsKeyOf t fs with
          | some k =>
            simp only [hk] at h
            cases g <;> simp only at h <;> try (simp at h)
            rename_i t' id' gs
            cases hbi : bodyIdxOf t' with
            | none => simp [hbi] at h
            | some bi =>
              simp only [hbi] at h
              cases hgb : gs[bi]? with
              | none => simp [hgb] at h
              | some gb =>
                simp only [hgb] at h
                have hig' := bodyIdx_not_ignored t' bi hbi
                rw [wtv.eq_def] at wg; simp only [hig', Bool.false_or] at wg
                rw [nf.eq_def] at ng; simp only [hig', Bool.false_or] at ng
                cases hs : sc.fields t' with
                | none => simp [hs] at wg
                | some tags =>
                  simp only [hs, Bool.and_eq_true] at wg
                  exact allNth_good sc mt fs 4 gb _ d' h (wtvs_get sc gs bi gb wg.2 hgb) (nfs_get gs bi gb ng hgb) (hc.of_mv_eq rfl)
          | none =>
            simp only [hk] at h
            cases g <;> simp only at h <;> try (simp at h)
            rename_i t' id' gs
            obtain ⟨ht'', h⟩ := h
            subst ht''
            obtain ⟨w, n⟩ := fields_ok id' gs rfl
            exact allVs_good sc mt fs gs d d' h w n hc
theorem allVs_good (sc : Schema) (mt : Meta) : ∀ (ps gs : List V) (d d' : Data), d' ∈ allVs mt ps gs d →
    wtvs sc gs = true → nfs gs = true → AllGood sc d → AllGood sc d'
  | [], [], d, d', h, _, _, hc => by
      rw [allVs.eq_def] at h; simp only [List.mem_singleton] at h; subst h; exact hc
  | [], _ :: _, d, d', h, _, _, _ => by rw [allVs.eq_def] at h; simp at h
  | _ :: _, [], d, d', h, _, _, _ => by rw [allVs.eq_def] at h; simp at h
  | p :: ps, g :: gs, d, d', h, wg, ng, hc => by
      rw [allVs.eq_def] at h
      simp only [List.mem_flatMap] at h
      obtain ⟨d1, h1, h2⟩ := h
      simp only [wtvs, Bool.and_eq_true] at wg
      simp only [nfs, Bool.and_eq_true] at ng
      exact allVs_good sc mt ps gs d1 d' h2 wg.2 ng.2 (allV_good sc mt p g d d1 h1 wg.1 ng.1 hc)
theorem allSeq_good (sc : Schema) (mt : Meta) (e : String) : ∀ (ps gs : List V) (d d' : Data), d' ∈ allSeq mt e ps gs d →
    wtvs sc gs = true → nfs gs = true → AllGood sc d → AllGood sc d'
  | [], gs, d, d', h, _, _, hc => by
      rw [allSeq.eq_def] at h
      simp only at h
      cases gs with
      | nil => simp at h; subst h; exact hc
      | cons g gs => simp at h
  | p :: ps, gs, d, d', h, wg, ng, hc => by
      rw [allSeq.eq_def] at h
      simp only at h
      split at h
      · rename_i k hk
        simp only [List.mem_flatMap] at h
        obtain ⟨a, ha, hb⟩ := h
        have hcat := splits_cat gs a.1 a.2 ha
        rw [← hcat] at wg ng
        exact allSeq_good sc mt e ps a.2 _ d' hb (wtvs_append_right sc a.1 a.2 wg) (nfs_append_right a.1 a.2 ng) (hc.of_mv_eq rfl)
      · cases gs with
        | nil => simp at h
        | cons g gs' =>
          simp only [List.mem_flatMap] at h
          obtain ⟨d1, h1, h2⟩ := h
          simp only [wtvs, Bool.and_eq_true] at wg
          simp only [nfs, Bool.and_eq_true] at ng
          exact allSeq_good sc mt e ps gs' d1 d' h2 wg.2 ng.2 (allV_good sc mt p g d d1 h1 wg.1 ng.1 hc)
theorem allNth_good (sc : Schema) (mt : Meta) : ∀ (ps : List V) (i : Nat) (g : V) (d d' : Data), d' ∈ allNth mt ps i g d →
    wtv sc g = true → nf g = true → AllGood sc d → AllGood sc d'
  | [], _, _, _, _, h, _, _, _ => by rw [allNth.eq_def] at h; simp at h
  | p :: ps, 0, g, d, d', h, wg, ng, hc => by
      rw [allNth.eq_def] at h; simp only at h
      exact allV_good sc mt p g d d' h wg ng hc
  | p :: ps, i + 1, g, d, d', h, wg, ng, hc => by
      rw [allNth.eq_def] at h; simp only at h
      exact allNth_good sc mt ps i g d d' h wg ng hc
end

/-- **The reference matcher decides "is a syntactic instance"**: on a well-typed tree in parser normal form it has
a result exactly when some substitution of well-typed code for the metavariables (and some run for every elision)
makes the code an instance of the pattern. -/
theorem isInstance_iff (sc : Schema) (mt : Meta) (p g : V) (wg : wtv sc g = true) (ng : nf g = true) :
    isInstance mt p g Data.empty = true ↔ ∃ σ, GoodSubst sc σ ∧ Inst mt σ p g := by
  have hempty : ∀ n v, (Data.empty).lookMv n = some v → False := by
    intro n v h; simp [Data.lookMv, Data.empty] at h
  constructor
  · intro h
    unfold isInstance at h
    cases hl : allV mt p g Data.empty with
    | nil => simp [hl] at h
    | cons d' rest =>
      have hm : d' ∈ allV mt p g Data.empty := by rw [hl]; simp
      have hg := allV_good sc mt p g Data.empty d' hm wg ng (fun n v hv => (hempty n v hv).elim)
      refine ⟨d'.mv, ?_, (allV_sound mt p g Data.empty d' hm).2 d'.mv (fun _ _ hc => hc)⟩
      intro n c hc
      exact hg n c hc
  · rintro ⟨σ, hσ, hi⟩
    obtain ⟨d', hm, _⟩ := allV_complete sc mt σ hσ p g hi wg ng Data.empty (fun n v hv => (hempty n v hv).elim)
    unfold isInstance
    cases hl : allV mt p g Data.empty with
    | nil => rw [hl] at hm; simp at hm
    | cons _ _ => rfl

end Gopatch
