import GopatchModel.Spec.FrameFile
import GopatchModel.Spec.ImportsOnly
/-
  FrameImports.lean — the frame of a change that also edits the import declarations.

  `applyChange` runs the replacement loop, then makes the import declarations follow the new import list
  (`syncImports`: specs added to the first import declaration or a new declaration in front, specs deleted, emptied
  declarations dropped — the element indexes of `File.Decls` shift), then numbers the nodes the replacer built.
  What is left of the frame when indexes shift: the declarations other than import declarations are, in order, the ones the
  replacement loop left, which are index by index the original ones once the slots of the sites are blanked.
-/
namespace Gopatch

/-- the declaration list of a file node -/
def declsOf : V → List V
  | .ptr _ _ (_ :: _ :: _ :: .slice _ decls :: _) => decls
  | _ => []

theorem otherDecls_eq (t : V) : otherDecls t = (declsOf t).filter notImport := by
  unfold otherDecls declsOf
  split <;> simp

/-- the token stored in a field, if the field holds one -/
def tokOf : V → Option Int
  | .int k => some k
  | _ => none

theorem renumV_ptr (t : String) (id : Nat) (fs : List V) (n : Nat) :
    (renumV (.ptr t id fs) n).1 = .ptr t (if id == 0 then n else id) (renumVs fs (if id == 0 then n + 1 else n)).1 := by
  rw [renumV.eq_def]
  by_cases h : (id == 0) = true <;> simp [h]

theorem tokOf_renum (c : V) (m : Nat) : tokOf (renumV c m).1 = tokOf c := by
  cases c with
  | iface i v => rw [renumV_iface]; simp [tokOf]
  | slice e vs => rw [renumV_slice]; simp [tokOf]
  | ptr t id fs => rw [renumV_ptr]; simp [tokOf]
  | _ => simp [renumV, tokOf]

theorem isImport_fields (i t : String) (id : Nat) (a b c : V) (rest : List V) :
    isImportGenDecl (.iface i (.ptr t id (a :: b :: c :: rest))) = (t == "ast.GenDecl" && tokOf c == some tokIMPORT) := by
  cases c <;> simp [isImportGenDecl, tokOf]

/-- numbering keeps what kind of declaration an element is -/
theorem isImport_renum (x : V) (n : Nat) : isImportGenDecl (renumV x n).1 = isImportGenDecl x := by
  cases x with
  | iface i v =>
    rw [renumV_iface]
    cases v with
    | ptr t id fs =>
      rw [renumV_ptr]
      match fs with
      | [] => simp [renumVs, isImportGenDecl]
      | [a] => simp [renumVs, isImportGenDecl]
      | [a, b] => simp [renumVs, isImportGenDecl]
      | a :: b :: c :: rest => simp only [renumVs_cons, isImport_fields, tokOf_renum]
    | iface j w => rw [renumV_iface]; simp [isImportGenDecl]
    | slice e vs => rw [renumV_slice]; simp [isImportGenDecl]
    | _ => simp [renumV, isImportGenDecl]
  | slice e vs => rw [renumV_slice]; simp [isImportGenDecl]
  | ptr t id fs => rw [renumV_ptr]; simp [isImportGenDecl]
  | _ => simp [renumV, isImportGenDecl]

/-- numbering a list of declarations: the declarations other than import declarations stay what they were once the
slots of `P` are blanked, whatever numbers the import declarations in between used up -/
theorem renumVs_others_masked (P : Slots) : ∀ (ds : List V) (n : Nat),
    (∀ x ∈ ds, notImport x = true → FreshUnder P noq x) →
    ((renumVs ds n).1.filter notImport).map (maskP P) = (ds.filter notImport).map (maskP P)
  | [], n, _ => by simp [renumVs]
  | x :: xs, n, h => by
    rw [renumVs_cons]
    have ih := renumVs_others_masked P xs (renumV x n).2 (fun y hy => h y (List.mem_cons_of_mem _ hy))
    have hk : notImport (renumV x n).1 = notImport x := by simp [notImport, isImport_renum]
    by_cases hx : notImport x = true
    · simp only [List.filter_cons, hk, hx, ↓reduceIte, List.map_cons, ih]
      rw [renumbering_keeps_frame P x n (h x (List.mem_cons_self) hx)]
    · simp only [List.filter_cons, hk, hx, Bool.false_eq_true, ↓reduceIte, ih]

theorem blankP_allfalse (q : Option Nat → Bool) (h : ∀ idx, q idx = false) (v : V) : blankP q v = v := by
  have : q = noq := funext (fun idx => by simp [h idx, noq])
  rw [this, blankP_noq]

theorem freshElems_all (P : Slots) (q : Option Nat → Bool) (hq : ∀ idx, q idx = false) :
    ∀ (j : Nat) (xs : List V), FreshElems P q j xs → ∀ x ∈ xs, FreshUnder P noq x
  | _, [], _, x, hx => by simp at hx
  | j, y :: ys, h, x, hx => by
    simp only [FreshElems] at h
    rcases List.mem_cons.mp hx with rfl | hx'
    · rcases h.1 with h1 | h1
      · simp [hq] at h1
      · exact h1
    · exact freshElems_all P q hq (j + 1) ys h.2 x hx'

/-- in a file node none of whose declaration slots is in the set, every declaration satisfies the condition on its own -/
theorem fresh_decls (P : Slots) (t : String) (id : Nat) (doc pk nm : V) (e : String) (decls rest : List V)
    (hP : ∀ idx, P id 3 idx = false)
    (h : FreshUnder P noq (.ptr t id (doc :: pk :: nm :: .slice e decls :: rest))) : ∀ x ∈ decls, FreshUnder P noq x := by
  simp only [FreshUnder, FreshFields] at h
  rcases h.2.2.2.2.1 with h1 | h1
  · have h1' : P id 3 none = true := h1
    rw [hP] at h1'; cases h1'
  · have h1' : FreshUnder P (P id 3) (.slice e decls) := h1
    simp only [FreshUnder] at h1'
    exact freshElems_all P (P id 3) hP 0 decls h1'

/-- a tree that is, slots of the set blanked, a file node none of whose declaration slots is in the set, is a file node with
the same identity whose declarations are index by index the same once blanked -/
theorem mask_file_shape (P : Slots) (t : String) (id : Nat) (doc pk nm : V) (e : String) (decls rest : List V)
    (hP : ∀ idx, P id 3 idx = false) (tree1 : V)
    (h : maskP P tree1 = maskP P (.ptr t id (doc :: pk :: nm :: .slice e decls :: rest))) :
    ∃ a b c ds1 rest1, tree1 = .ptr t id (a :: b :: c :: .slice e ds1 :: rest1) ∧ maskPs P ds1 = maskPs P decls := by
  rw [maskP_ptr P t id] at h
  cases tree1 with
  | ptr t1 id1 fs1 =>
    rw [maskP_ptr] at h
    injection h with ht hid hfs
    subst ht; subst hid
    simp only [maskFields_cons] at hfs
    match fs1, hfs with
    | a :: b :: c :: d :: rest1, hfs =>
      simp only [maskFields_cons, List.cons.injEq] at hfs
      have h4 := hfs.2.2.2.1
      rw [blankP_allfalse _ hP, blankP_allfalse _ hP, maskP_slice] at h4
      cases d with
      | slice e1 ds1 =>
        rw [maskP_slice] at h4
        injection h4 with he hds
        subst he
        exact ⟨a, b, c, ds1, rest1, rfl, hds⟩
      | iface i v => rw [maskP_iface] at h4; cases h4
      | ptr t2 id2 fs2 => rw [maskP_ptr] at h4; cases h4
      | _ => simp [maskP] at h4
    | [], hfs => simp [maskFields_nil] at hfs
    | [a], hfs => simp [maskFields_cons, maskFields_nil] at hfs
    | [a, b], hfs => simp [maskFields_cons, maskFields_nil] at hfs
    | [a, b, c], hfs => simp [maskFields_cons, maskFields_nil] at hfs
  | iface i v => rw [maskP_iface] at h; cases h
  | slice e1 vs => rw [maskP_slice] at h; cases h
  | _ => simp [maskP] at h

theorem declsOf_renum (t : String) (id : Nat) (a b c : V) (e : String) (ds rest : List V) (n : Nat) :
    ∃ m, declsOf (renumV (.ptr t id (a :: b :: c :: .slice e ds :: rest)) n).1 = (renumVs ds m).1 := by
  rw [renumV_ptr]
  simp only [renumVs_cons, renumV_slice, declsOf]
  exact ⟨_, rfl⟩

/-- **The import synchronisation and the numbering keep the other declarations.** For a file node whose nodes without
identity lie in slots of the set: after the import declarations were made to follow the new import list and the new nodes
were numbered, the declarations other than import declarations are, in order and slots blanked, what they were. -/
theorem sync_then_numbering_keeps_others (P : Slots) (t : String) (id : Nat) (a b c : V) (e : String) (ds rest : List V)
    (old new : List (Option String × String)) (n : Nat) (hP : ∀ idx, P id 3 idx = false)
    (hf : FreshUnder P noq (.ptr t id (a :: b :: c :: .slice e ds :: rest))) :
    (otherDecls (renumV (syncImports (.ptr t id (a :: b :: c :: .slice e ds :: rest)) old new) n).1).map (maskP P)
      = (ds.filter notImport).map (maskP P) := by
  have hso := syncImports_other_decls (.ptr t id (a :: b :: c :: .slice e ds :: rest)) old new
  simp only [syncImports] at hso ⊢
  simp only [otherDecls] at hso
  obtain ⟨m, hm⟩ := declsOf_renum t id a b c e (deleteSpecs (diffImports old new) (addSpecs (diffImports new old) ds)) rest n
  rw [otherDecls_eq, hm]
  rw [renumVs_others_masked P _ m, hso]
  intro x hx hn
  have hx' : x ∈ (deleteSpecs (diffImports old new) (addSpecs (diffImports new old) ds)).filter notImport :=
    List.mem_filter.mpr ⟨hx, hn⟩
  rw [hso] at hx'
  exact fresh_decls P t id a b c e ds rest hP hf x (List.mem_filter.mp hx').1

/-- non-vacuity: a file with one function; an import is added (a new declaration in front: the function's index shifts from 0
to 1); the declarations other than import declarations are what they were -/
def exFile : V := .ptr "ast.File" 1 [.nilP "doc", .pos true 0, .str "p",
  .slice "ast.Decl" [.iface "ast.Decl" (.ptr "ast.FuncDecl" 2 [.nilP "doc", .nilP "recv", .str "f"])], .pos true 1]
example : (declsOf (renumV (syncImports exFile [] [(none, "fmt")]) 10).1).length = 2 ∧ (declsOf exFile).length = 1 := by
  decide +kernel
example : otherDecls (renumV (syncImports exFile [] [(none, "fmt")]) 10).1 = otherDecls exFile := by
  rfl

end Gopatch
