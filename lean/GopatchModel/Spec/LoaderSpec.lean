import GopatchModel.Loader
/-
  Spec/LoaderSpec.lean — what `loadPatches` guarantees: all sources in order or nothing at all;
  a `-P` list of paths is the same as those paths given with `-p`, in the same order.
-/
namespace Gopatch.Load

theorem loadAll_all_good (good : Src → Bool) : ∀ (srcs : List Src), (∀ s ∈ srcs, good s = true) →
    loadAll good srcs = (srcs, none)
  | [], _ => rfl
  | s :: ss, h => by
    have hs := h s (List.mem_cons_self ..)
    have ih := loadAll_all_good good ss (fun x hx => h x (List.mem_cons_of_mem _ hx))
    simp [loadAll, hs, ih]

/-- a failure is the first source that does not load, and nothing of what was loaded before it is returned -/
theorem loadAll_first_bad (good : Src → Bool) : ∀ (srcs l : List Src) (s : Src), loadAll good srcs = (l, some s) →
    good s = false ∧ ∃ pre post, srcs = pre ++ s :: post ∧ ∀ x ∈ pre, good x = true
  | [], l, s, h => by simp [loadAll] at h
  | a :: as, l, s, h => by
    by_cases ha : good a = true
    · simp only [loadAll, ha, ↓reduceIte] at h
      cases hr : loadAll good as with
      | mk l' e' =>
        simp only [hr, Prod.mk.injEq] at h
        obtain ⟨_, he⟩ := h
        subst he
        obtain ⟨hb, pre, post, hsplit, hpre⟩ := loadAll_first_bad good as l' s hr
        refine ⟨hb, a :: pre, post, by simp [hsplit], ?_⟩
        intro x hx
        rcases List.mem_cons.1 hx with rfl | hx
        · exact ha
        · exact hpre x hx
    · have ha' : good a = false := by simpa using ha
      simp only [loadAll, ha', Bool.false_eq_true, ↓reduceIte, Prod.mk.injEq, Option.some.injEq] at h
      obtain ⟨_, hs⟩ := h
      subst hs
      exact ⟨ha', [], as, rfl, by simp⟩

theorem loadAll_none (good : Src → Bool) : ∀ (srcs l : List Src), loadAll good srcs = (l, none) →
    l = srcs ∧ ∀ s ∈ srcs, good s = true
  | [], l, h => by simp [loadAll] at h; exact ⟨h, by simp⟩
  | a :: as, l, h => by
    by_cases ha : good a = true
    · simp only [loadAll, ha, ↓reduceIte] at h
      cases hr : loadAll good as with
      | mk l' e' =>
        simp only [hr, Prod.mk.injEq] at h
        obtain ⟨hl, he⟩ := h
        subst he
        obtain ⟨hl', hall⟩ := loadAll_none good as l' hr
        refine ⟨by rw [← hl, hl'], ?_⟩
        intro s hs
        rcases List.mem_cons.1 hs with rfl | hs
        · exact ha
        · exact hall s hs
    · have ha' : good a = false := by simpa using ha
      simp [loadAll, ha'] at h

/-- **All sources, in the order of the plan, or nothing.** `loadPatches` hands over programs only when every source
of the plan loaded, and then exactly the plan, in its order. -/
theorem loaded_is_the_whole_plan (good : Src → Bool) (patches : List Bytes) (listPath : Bytes) (listContent : Option Bytes)
    (l : List Src) (h : loadPatches good patches listPath listContent = .loaded l) :
    l = (plan patches listPath listContent).1 ∧ (∀ s ∈ l, good s = true) ∧ (plan patches listPath listContent).2 = true := by
  unfold loadPatches at h
  cases hp : plan patches listPath listContent with
  | mk srcs ok =>
    simp only [hp] at h
    cases hr : loadAll good srcs with
    | mk l' e =>
      simp only [hr] at h
      cases e with
      | some s => simp at h
      | none =>
        obtain ⟨hl, hall⟩ := loadAll_none good srcs l' hr
        by_cases hok : ok = true
        · simp only [hok, ↓reduceIte, Outcome.loaded.injEq] at h
          subst h
          subst hl
          exact ⟨rfl, hall, hok⟩
        · simp [hok] at h

/-! ### a list of paths is those paths given as flags -/

def joinNl : List Bytes → Bytes
  | [] => []
  | p :: ps => p ++ [10] ++ joinNl ps

/-- a path as a list may hold it: not empty, no newline in it, no carriage return at its end -/
def PathOK (p : Bytes) : Prop := p ≠ [] ∧ (∀ b ∈ p, b ≠ 10) ∧ p.getLast? ≠ some 13

theorem dropCR_ok (p : Bytes) (h : p.getLast? ≠ some 13) : dropCR p = p := by
  unfold dropCR
  split
  · rename_i h'; exact absurd h' h
  · rfl

theorem scanFrom_line (p : Bytes) (hp : ∀ b ∈ p, b ≠ 10) (rest : Bytes) : ∀ (acc : Bytes),
    scanFrom acc (p ++ 10 :: rest) = dropCR (acc.reverse ++ p) :: scanFrom [] rest := by
  induction p with
  | nil => intro acc; simp [scanFrom]
  | cons b bs ih =>
    intro acc
    have hb : (b == 10) = false := by
      have := hp b (List.mem_cons_self ..)
      simpa using this
    simp only [List.cons_append, scanFrom, hb, Bool.false_eq_true, ↓reduceIte]
    rw [ih (fun x hx => hp x (List.mem_cons_of_mem _ hx)) (b :: acc)]
    simp

theorem scanLines_joinNl : ∀ (ps : List Bytes), (∀ p ∈ ps, PathOK p) → scanLines (joinNl ps) = ps
  | [], _ => by simp [scanLines, joinNl, scanFrom]
  | p :: ps, h => by
    obtain ⟨_, hnl, hcr⟩ := h p (List.mem_cons_self ..)
    have ih := scanLines_joinNl ps (fun x hx => h x (List.mem_cons_of_mem _ hx))
    unfold scanLines at ih ⊢
    simp only [joinNl, List.append_assoc, List.singleton_append]
    rw [scanFrom_line p hnl (joinNl ps) []]
    simp only [List.reverse_nil, List.nil_append, dropCR_ok p hcr, ih]

/-- **A list of patches is the same patches given with `-p`, in the same order.** -/
theorem list_is_flags (good : Src → Bool) (paths : List Bytes) (hne : paths ≠ []) (hok : ∀ p ∈ paths, PathOK p)
    (listPath : Bytes) (hlp : listPath ≠ []) :
    loadPatches good [] listPath (some (joinNl paths)) = loadPatches good paths [] none := by
  unfold loadPatches plan
  have h1 : listPath.isEmpty = false := by cases listPath <;> simp_all
  have h2 : paths.isEmpty = false := by cases paths <;> simp_all
  have hfilter : (scanLines (joinNl paths)).filter (fun l => !l.isEmpty) = paths := by
    rw [scanLines_joinNl paths hok, List.filter_eq_self]
    intro p hp
    have := (hok p hp).1
    cases p <;> simp_all
  simp [h1, h2, hfilter]

/-- and `-p` files come before the files of the `-P` list -/
theorem flags_before_list (patches : List Bytes) (listPath c : Bytes) (hlp : listPath ≠ []) :
    ∃ fromList, (plan patches listPath (some c)).1 = patches.map Src.file ++ fromList := by
  have h1 : listPath.isEmpty = false := by cases listPath <;> simp_all
  refine ⟨((scanLines c).filter (fun l => !l.isEmpty)).map Src.file, ?_⟩
  simp [plan, h1]

end Gopatch.Load
