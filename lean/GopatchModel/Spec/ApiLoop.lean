import GopatchModel.FileM
/-
  ApiLoop.lean — the change loop of `patch.File.Apply` (`applyChangesApi`): helper results for Props/C09.
-/
namespace Gopatch

/-- the library's loop only ever adds to the errors it has recorded -/
theorem api_errors_grow (dmg : Change → FileM → FileM) : ∀ (cs : List Change) (f : FileM) (m : Bool) (es : List Err),
    ∃ g m' es', applyChangesApi dmg cs f m es = (g, m', es ++ es')
  | [], f, m, es => ⟨f, m, [], by simp [applyChangesApi]⟩
  | c :: cs, f, m, es => by
    cases ha : applyChange c f with
    | noMatch =>
      obtain ⟨g, m', es', h⟩ := api_errors_grow dmg cs f m es
      exact ⟨g, m', es', by simp [applyChangesApi, ha, h]⟩
    | ok f' k =>
      obtain ⟨g, m', es', h⟩ := api_errors_grow dmg cs f' true es
      exact ⟨g, m', es', by simp [applyChangesApi, ha, h]⟩
    | fail e =>
      obtain ⟨g, m', es', h⟩ := api_errors_grow dmg cs (dmg c f) m (es ++ [e])
      exact ⟨g, m', e :: es', by simp [applyChangesApi, ha, h]⟩

end Gopatch
