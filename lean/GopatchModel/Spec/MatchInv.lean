import GopatchModel.Spec.DotsKeys
/-
  Spec/MatchInv.lean — a property of data stores that every kind of recording preserves is
  preserved by matching: the general induction over the matcher, once.
-/
namespace Gopatch

/-- `P` survives everything the matcher can record -/
structure PushInv (mt : Meta) (P : Data → Prop) : Prop where
  pos : ∀ d k, P d → P (d.pushPos k)
  dots : ∀ d k run, P d → P (d.pushDots k run)
  mv : ∀ d name g k, P d → mt.look name = some k → kindOK k g = true → g.isNil = false → d.lookMv name = none →
    P (d.pushMv name g)
  loop : ∀ d k t' bi gs gb, P d → bodyIdxOf t' = some bi → gs[bi]? = some gb →
    P (d.pushFor k { ty := t', bodyIdx := bi, fields := gs })

theorem matchMetavar_inv {mt : Meta} {P : Data → Prop} (hP : PushInv mt P) (k : Kind) (name : String) (g : V) (d d' : Data)
    (hk : mt.look name = some k) (h : matchMetavar k name g d = some d') (hd : P d) : P d' := by
  unfold matchMetavar at h
  split at h
  · cases h
  · rename_i hc
    simp only [Bool.or_eq_true, Bool.not_eq_true', not_or, Bool.not_eq_false, Bool.not_eq_true] at hc
    split at h
    · split at h <;> cases h; exact hd
    · rename_i hl
      cases h
      exact hP.mv d name g k hd hk hc.1 hc.2 hl

mutual
theorem matchV_inv {mt : Meta} {P : Data → Prop} (hP : PushInv mt P) : ∀ (p g : V) (d d' : Data), matchV mt p g d = some d' → P d → P d'
  | .pos pv pk, g, d, d', h, hd => by
      rw [matchV.eq_def] at h
      cases g <;> simp only at h <;> try (cases h)
      split at h
      · cases h; split
        · exact hP.pos d pk hd
        · exact hd
      · cases h
  | .str s, g, d, d', h, hd => by
      rw [matchV.eq_def] at h
      cases g <;> simp only at h <;> try (cases h)
      split at h <;> cases h; exact hd
  | .int n, g, d, d', h, hd => by
      rw [matchV.eq_def] at h
      cases g <;> simp only at h <;> try (cases h)
      split at h <;> cases h; exact hd
  | .bool b, g, d, d', h, hd => by
      rw [matchV.eq_def] at h
      cases g <;> simp only at h <;> try (cases h)
      split at h <;> cases h; exact hd
  | .nilP t, g, d, d', h, hd => by
      rw [matchV.eq_def] at h; simp only at h
      split at h <;> cases h; exact hd
  | .nilI i, g, d, d', h, hd => by
      rw [matchV.eq_def] at h; simp only at h
      split at h <;> cases h; exact hd
  | .nilS e, g, d, d', h, hd => by
      rw [matchV.eq_def] at h; simp only at h
      split at h
      · match g, h with
        | .nilS _, h => cases h; exact hd
        | .slice _ [], h => cases h; exact hd
      · split at h <;> cases h; exact hd
  | .iface i pv, g, d, d', h, hd => by
      rw [matchV.eq_def] at h
      cases g <;> simp only at h <;> try (cases h)
      rename_i j gv
      exact matchV_inv hP pv gv d d' h hd
  | .slice e ps, g, d, d', h, hd => by
      rw [matchV.eq_def] at h; simp only at h
      split at h
      · cases g <;> simp only at h <;> try (cases h)
        · exact matchSeq_inv hP e ps [] d d' h hd
        · rename_i e' gs; exact matchSeq_inv hP e ps gs d d' h hd
      · cases g <;> simp only at h <;> try (cases h)
        · split at h <;> cases h; exact hd
        · rename_i e' gs; exact matchVs_inv hP ps gs d d' h hd
  | .ptr t id fs, g, d, d', h, hd => by
      rw [matchV.eq_def] at h; simp only at h
      split at h
      · cases h; exact hd
      · split at h
        · split at h
          · rename_i k hk
            exact matchMetavar_inv hP k _ g d d' hk h hd
          · cases g <;> simp only at h <;> try (cases h)
            rename_i t' id' gs
            split at h
            · exact matchVs_inv hP fs gs d d' h hd
            · cases h
        · split at h
          · rename_i k hk
            cases g <;> simp only at h <;> try (cases h)
            rename_i t' id' gs
            split at h
            · rename_i bi hbi
              split at h
              · rename_i gb hgb
                exact matchNth_inv hP fs 4 gb _ d' h (hP.loop d k t' bi gs gb hd hbi hgb)
              · cases h
            · cases h
          · cases g <;> simp only at h <;> try (cases h)
            rename_i t' id' gs
            split at h
            · exact matchVs_inv hP fs gs d d' h hd
            · cases h
theorem matchVs_inv {mt : Meta} {P : Data → Prop} (hP : PushInv mt P) : ∀ (ps gs : List V) (d d' : Data), matchVs mt ps gs d = some d' → P d → P d'
  | [], [], d, d', h, hd => by rw [matchVs.eq_def] at h; simp only at h; cases h; exact hd
  | [], _ :: _, d, d', h, _ => by rw [matchVs.eq_def] at h; simp only at h; cases h
  | _ :: _, [], d, d', h, _ => by rw [matchVs.eq_def] at h; simp only at h; cases h
  | p :: ps, g :: gs, d, d', h, hd => by
      rw [matchVs.eq_def] at h
      simp only [Option.bind_eq_some_iff] at h
      obtain ⟨d1, h1, h2⟩ := h
      exact matchVs_inv hP ps gs d1 d' h2 (matchV_inv hP p g d d1 h1 hd)
theorem matchSeq_inv {mt : Meta} {P : Data → Prop} (hP : PushInv mt P) (e : String) : ∀ (ps gs : List V) (d d' : Data), matchSeq mt e ps gs d = some d' → P d → P d'
  | [], gs, d, d', h, hd => by
      rw [matchSeq.eq_def] at h; simp only at h
      split at h <;> cases h; exact hd
  | p :: ps, gs, d, d', h, hd => by
      rw [matchSeq.eq_def] at h; simp only at h
      split at h
      · rename_i k hk
        obtain ⟨a, _, hb⟩ := firstSome_elim _ _ _ h
        exact matchSeq_inv hP e ps a.2 _ d' hb (hP.dots d k a.1 hd)
      · cases gs with
        | nil => simp only at h; cases h
        | cons g gs' =>
          simp only [Option.bind_eq_some_iff] at h
          obtain ⟨d1, h1, h2⟩ := h
          exact matchSeq_inv hP e ps gs' d1 d' h2 (matchV_inv hP p g d d1 h1 hd)
theorem matchNth_inv {mt : Meta} {P : Data → Prop} (hP : PushInv mt P) : ∀ (ps : List V) (i : Nat) (g : V) (d d' : Data), matchNth mt ps i g d = some d' → P d → P d'
  | [], _, _, _, _, h, _ => by rw [matchNth.eq_def] at h; simp only at h; cases h
  | p :: ps, 0, g, d, d', h, hd => by
      rw [matchNth.eq_def] at h; simp only at h
      exact matchV_inv hP p g d d' h hd
  | p :: ps, i + 1, g, d, d', h, hd => by
      rw [matchNth.eq_def] at h; simp only at h
      exact matchNth_inv hP ps i g d d' h hd
end

end Gopatch
