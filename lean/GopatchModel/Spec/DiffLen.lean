import GopatchModel.AstDiff
/-
  Spec/DiffLen.lean — the edit script of `diff.Difference` always accounts for both lists
  completely: it consumes exactly `nx` elements of the first and `ny` of the second, whatever
  the comparison function says and whether or not the search budget ran out.
-/
namespace Gopatch.AD

/-- elements of the first list the script consumes -/
def lenX : List Ed → Nat
  | [] => 0
  | .id :: es => lenX es + 1
  | .md :: es => lenX es + 1
  | .ux :: es => lenX es + 1
  | .uy :: es => lenX es
/-- elements of the second list the script consumes -/
def lenY : List Ed → Nat
  | [] => 0
  | .id :: es => lenY es + 1
  | .md :: es => lenY es + 1
  | .ux :: es => lenY es
  | .uy :: es => lenY es + 1

theorem lenX_append : ∀ (a b : List Ed), lenX (a ++ b) = lenX a + lenX b
  | [], b => by simp [lenX]
  | .id :: a, b => by simp [lenX, lenX_append a b]; omega
  | .md :: a, b => by simp [lenX, lenX_append a b]; omega
  | .ux :: a, b => by simp [lenX, lenX_append a b]; omega
  | .uy :: a, b => by simp [lenX, lenX_append a b]
theorem lenY_append : ∀ (a b : List Ed), lenY (a ++ b) = lenY a + lenY b
  | [], b => by simp [lenY]
  | .id :: a, b => by simp [lenY, lenY_append a b]; omega
  | .md :: a, b => by simp [lenY, lenY_append a b]; omega
  | .ux :: a, b => by simp [lenY, lenY_append a b]
  | .uy :: a, b => by simp [lenY, lenY_append a b]; omega
theorem lenX_reverse : ∀ (a : List Ed), lenX a.reverse = lenX a
  | [] => rfl
  | t :: a => by
    rw [List.reverse_cons, lenX_append, lenX_reverse a]
    cases t <;> simp [lenX]
theorem lenY_reverse : ∀ (a : List Ed), lenY a.reverse = lenY a
  | [] => rfl
  | t :: a => by
    rw [List.reverse_cons, lenY_append, lenY_reverse a]
    cases t <;> simp [lenY]

/-- a forward path stands where its script says -/
def FwdOK (p : Path) : Prop := p.dir = 1 ∧ p.x = (lenX p.es : Int) ∧ p.y = (lenY p.es : Int)
/-- a reverse path stands where its script says, counted from the far corner -/
def RevOK (nx ny : Nat) (p : Path) : Prop := p.dir = -1 ∧ p.x = (nx : Int) - (lenX p.es : Int) ∧ p.y = (ny : Int) - (lenY p.es : Int)

theorem FwdOK.app {p : Path} (h : FwdOK p) (t : Ed) : FwdOK (p.app t) := by
  obtain ⟨hd, hx, hy⟩ := h
  cases t <;> simp [Path.app, FwdOK, lenX, lenY, hd, hx, hy]

theorem RevOK.app {nx ny : Nat} {p : Path} (h : RevOK nx ny p) (t : Ed) : RevOK nx ny (p.app t) := by
  obtain ⟨hd, hx, hy⟩ := h
  cases t <;> simp [Path.app, RevOK, lenX, lenY, hd, hx, hy] <;> omega

theorem app_x_fwd {p : Path} (hd : p.dir = 1) (t : Ed) :
    (p.app t).dir = 1 ∧ p.x ≤ (p.app t).x ∧ (p.app t).x ≤ p.x + 1 ∧ p.y ≤ (p.app t).y ∧ (p.app t).y ≤ p.y + 1 := by
  cases t <;> simp [Path.app, hd] <;> omega

/-- `connect` forward keeps the path sound, never passes the target, and reaches it given enough fuel -/
theorem connectFwd_spec (f : Int → Int → Res) : ∀ (fuel : Nat) (p : Path) (dx dy : Int), FwdOK p → p.x ≤ dx → p.y ≤ dy →
    FwdOK (connectFwd f fuel p dx dy) ∧
    (dx - p.x + (dy - p.y) ≤ (fuel : Int) → (connectFwd f fuel p dx dy).x = dx ∧ (connectFwd f fuel p dx dy).y = dy)
  | 0, p, dx, dy, h, hx, hy => by
    simp only [connectFwd]
    refine ⟨h, fun hf => ?_⟩
    constructor <;> omega
  | fuel + 1, p, dx, dy, h, hx, hy => by
    rw [connectFwd]
    by_cases c1 : (dx > p.x && dy > p.y) = true
    · simp only [c1, ↓reduceIte]
      simp only [Bool.and_eq_true, decide_eq_true_eq] at c1
      generalize ht : (if (f p.x p.y).equal = true then Ed.id else if (f p.x p.y).similar = true then Ed.md
        else if dx - p.x ≥ dy - p.y then Ed.ux else Ed.uy) = t
      have hb := app_x_fwd h.1 t
      have ih := connectFwd_spec f fuel (p.app t) dx dy (h.app t) (by
        cases t <;> simp [Path.app, h.1] <;> omega) (by
        cases t <;> simp [Path.app, h.1] <;> omega)
      refine ⟨ih.1, fun hf => ih.2 ?_⟩
      cases t <;> simp [Path.app, h.1] <;> omega
    · simp only [c1, Bool.false_eq_true, ↓reduceIte]
      simp only [Bool.and_eq_true, decide_eq_true_eq] at c1
      by_cases c2 : dx > p.x
      · simp only [c2, ↓reduceIte]
        have ih := connectFwd_spec f fuel (p.app .ux) dx dy (h.app .ux) (by simp [Path.app, h.1]; omega) (by simpa [Path.app] using hy)
        refine ⟨ih.1, fun hf => ih.2 ?_⟩
        simp [Path.app, h.1]; omega
      · simp only [c2, ↓reduceIte]
        by_cases c3 : dy > p.y
        · simp only [c3, ↓reduceIte]
          have ih := connectFwd_spec f fuel (p.app .uy) dx dy (h.app .uy) (by simpa [Path.app] using hx) (by simp [Path.app, h.1]; omega)
          refine ⟨ih.1, fun hf => ih.2 ?_⟩
          simp [Path.app, h.1]; omega
        · simp only [c3, ↓reduceIte]
          refine ⟨h, fun _ => ?_⟩
          constructor <;> omega

/-- `connect` in reverse: the same -/
theorem connectRev_spec (f : Int → Int → Res) (nx ny : Nat) : ∀ (fuel : Nat) (p : Path) (dx dy : Int), RevOK nx ny p → dx ≤ p.x → dy ≤ p.y →
    RevOK nx ny (connectRev f fuel p dx dy) ∧
    (p.x - dx + (p.y - dy) ≤ (fuel : Int) → (connectRev f fuel p dx dy).x = dx ∧ (connectRev f fuel p dx dy).y = dy)
  | 0, p, dx, dy, h, hx, hy => by
    simp only [connectRev]
    refine ⟨h, fun hf => ?_⟩
    constructor <;> omega
  | fuel + 1, p, dx, dy, h, hx, hy => by
    rw [connectRev]
    by_cases c1 : (p.x > dx && p.y > dy) = true
    · simp only [c1, ↓reduceIte]
      simp only [Bool.and_eq_true, decide_eq_true_eq] at c1
      generalize ht : (if (f (p.x - 1) (p.y - 1)).equal = true then Ed.id else if (f (p.x - 1) (p.y - 1)).similar = true then Ed.md
        else if p.y - dy ≥ p.x - dx then Ed.uy else Ed.ux) = t
      have ih := connectRev_spec f nx ny fuel (p.app t) dx dy (h.app t) (by
        cases t <;> simp [Path.app, h.1] <;> omega) (by
        cases t <;> simp [Path.app, h.1] <;> omega)
      refine ⟨ih.1, fun hf => ih.2 ?_⟩
      cases t <;> simp [Path.app, h.1] <;> omega
    · simp only [c1, Bool.false_eq_true, ↓reduceIte]
      simp only [Bool.and_eq_true, decide_eq_true_eq] at c1
      by_cases c2 : p.x > dx
      · simp only [c2, ↓reduceIte]
        have ih := connectRev_spec f nx ny fuel (p.app .ux) dx dy (h.app .ux) (by simp [Path.app, h.1]; omega) (by simpa [Path.app] using hy)
        refine ⟨ih.1, fun hf => ih.2 ?_⟩
        simp [Path.app, h.1]; omega
      · simp only [c2, ↓reduceIte]
        by_cases c3 : p.y > dy
        · simp only [c3, ↓reduceIte]
          have ih := connectRev_spec f nx ny fuel (p.app .uy) dx dy (h.app .uy) (by simpa [Path.app] using hx) (by simp [Path.app, h.1]; omega)
          refine ⟨ih.1, fun hf => ih.2 ?_⟩
          simp [Path.app, h.1]; omega
        · simp only [c3, ↓reduceIte]
          refine ⟨h, fun _ => ?_⟩
          constructor <;> omega

/-- the forward path is sound and has not passed the reverse path -/
def Between (nx ny : Nat) (fwd rev : Path) : Prop :=
  FwdOK fwd ∧ RevOK nx ny rev ∧ fwd.x ≤ rev.x ∧ fwd.y ≤ rev.y

theorem runFwd_spec (f : Int → Int → Res) (nx ny : Nat) : ∀ (fuel : Nat) (fwd rev : Path), Between nx ny fwd rev →
    Between nx ny (runFwd f fuel fwd rev) rev
  | 0, fwd, rev, h => by simpa [runFwd] using h
  | fuel + 1, fwd, rev, h => by
    rw [runFwd]
    split
    · rename_i c
      simp only [Bool.and_eq_true, decide_eq_true_eq] at c
      split
      · apply runFwd_spec f nx ny fuel
        refine ⟨h.1.app .id, h.2.1, ?_, ?_⟩ <;> simp [Path.app, h.1.1] <;> omega
      · exact h
    · exact h

theorem runRev_spec (f : Int → Int → Res) (nx ny : Nat) : ∀ (fuel : Nat) (fwd rev : Path), Between nx ny fwd rev →
    Between nx ny fwd (runRev f fuel fwd rev)
  | 0, fwd, rev, h => by simpa [runRev] using h
  | fuel + 1, fwd, rev, h => by
    rw [runRev]
    split
    · rename_i c
      simp only [Bool.and_eq_true, decide_eq_true_eq] at c
      split
      · apply runRev_spec f nx ny fuel
        refine ⟨h.1, h.2.1.app .id, ?_, ?_⟩ <;> simp [Path.app, h.2.1.1] <;> omega
      · exact h
    · exact h

/-- what the searches preserve: both paths sound, the forward one not past the reverse one, both inside the grid -/
def DSInv (nx ny : Nat) (s : DS) : Prop :=
  Between nx ny s.fwd s.rev ∧ 0 ≤ s.fwd.x ∧ 0 ≤ s.fwd.y ∧ s.rev.x ≤ nx ∧ s.rev.y ≤ ny

theorem fwdSearch_inv (f : Int → Int → Res) (nx ny big : Nat) (hbig : nx + ny ≤ big) : ∀ (fuel : Nat) (s1 s2 : Bool) (i : Nat) (s : DS),
    DSInv nx ny s → DSInv nx ny (fwdSearch f big fuel s1 s2 i s)
  | 0, _, _, _, s, h => by rw [fwdSearch]; exact h
  | fuel + 1, s1, s2, i, s, h => by
    rw [fwdSearch]
    split
    · exact h
    · simp only []
      split
      · exact fwdSearch_inv f nx ny big hbig fuel true s2 (i + 1) s h
      · split
        · exact fwdSearch_inv f nx ny big hbig fuel s1 true (i + 1) s h
        · rename_i c1 c2
          simp only [Bool.or_eq_true, decide_eq_true_eq, not_or, Int.not_le, Int.not_lt] at c1 c2
          split
          · obtain ⟨⟨hf, hr, hx, hy⟩, h0x, h0y, hnx, hny⟩ := h
            have hc := connectFwd_spec f big s.fwd (s.ffx + zigzag i) (s.ffy - zigzag i) hf (by omega) (by omega)
            have hreach := hc.2 (by omega)
            have hb : Between nx ny ((connectFwd f big s.fwd (s.ffx + zigzag i) (s.ffy - zigzag i)).app .id) s.rev := by
              refine ⟨hc.1.app .id, hr, ?_, ?_⟩ <;> simp [Path.app, hc.1.1, hreach.1, hreach.2] <;> omega
            have hrun := runFwd_spec f nx ny big _ _ hb
            refine ⟨hrun, ?_, ?_, hnx, hny⟩
            · have h1 := hrun.1.2.1
              show (0 : Int) ≤ (runFwd f big _ s.rev).x
              omega
            · have h1 := hrun.1.2.2
              show (0 : Int) ≤ (runFwd f big _ s.rev).y
              omega
          · exact fwdSearch_inv f nx ny big hbig fuel s1 s2 (i + 1) { s with budget := s.budget - 1 } h

theorem revSearch_inv (f : Int → Int → Res) (nx ny big : Nat) (hbig : nx + ny ≤ big) : ∀ (fuel : Nat) (s1 s2 : Bool) (i : Nat) (s : DS),
    DSInv nx ny s → DSInv nx ny (revSearch f big fuel s1 s2 i s)
  | 0, _, _, _, s, h => by rw [revSearch]; exact h
  | fuel + 1, s1, s2, i, s, h => by
    rw [revSearch]
    split
    · exact h
    · simp only []
      split
      · exact revSearch_inv f nx ny big hbig fuel true s2 (i + 1) s h
      · split
        · exact revSearch_inv f nx ny big hbig fuel s1 true (i + 1) s h
        · rename_i c1 c2
          simp only [Bool.or_eq_true, decide_eq_true_eq, not_or, Int.not_le, Int.not_lt] at c1 c2
          split
          · obtain ⟨⟨hf, hr, hx, hy⟩, h0x, h0y, hnx, hny⟩ := h
            have hc := connectRev_spec f nx ny big s.rev (s.rfx - zigzag i) (s.rfy + zigzag i) hr (by omega) (by omega)
            have hreach := hc.2 (by omega)
            have hb : Between nx ny s.fwd ((connectRev f big s.rev (s.rfx - zigzag i) (s.rfy + zigzag i)).app .id) := by
              refine ⟨hf, hc.1.app .id, ?_, ?_⟩ <;> simp [Path.app, hc.1.1, hreach.1, hreach.2] <;> omega
            have hrun := runRev_spec f nx ny big _ _ hb
            refine ⟨hrun, h0x, h0y, ?_, ?_⟩
            · have h1 := hrun.2.1.2.1
              show (runRev f big s.fwd _).x ≤ (nx : Int)
              omega
            · have h1 := hrun.2.1.2.2
              show (runRev f big s.fwd _).y ≤ (ny : Int)
              omega
          · exact revSearch_inv f nx ny big hbig fuel s1 s2 (i + 1) { s with budget := s.budget - 1 } h

theorem rounds_inv (f : Int → Int → Res) (nx ny big : Nat) (hbig : nx + ny ≤ big) : ∀ (fuel : Nat) (s : DS),
    DSInv nx ny s → DSInv nx ny (rounds f big fuel s)
  | 0, s, h => by rw [rounds]; exact h
  | fuel + 1, s, h => by
    rw [rounds]
    split
    · exact h
    · simp only []
      have h1 := fwdSearch_inv f nx ny big hbig big false false 0 s h
      generalize fwdSearch f big big false false 0 s = sa at h1
      have h2 : DSInv nx ny (if sa.rev.x - sa.ffx ≥ sa.rev.y - sa.ffy then { sa with ffx := sa.ffx + 1 } else { sa with ffy := sa.ffy + 1 }) := by
        split <;> exact h1
      generalize (if sa.rev.x - sa.ffx ≥ sa.rev.y - sa.ffy then { sa with ffx := sa.ffx + 1 } else { sa with ffy := sa.ffy + 1 }) = sb at h2
      split
      · exact h2
      · have h3 := revSearch_inv f nx ny big hbig big false false 0 sb h2
        generalize revSearch f big big false false 0 sb = sc at h3
        apply rounds_inv f nx ny big hbig fuel
        split <;> exact h3

/-- **The script of `diff.Difference` accounts for both lists completely.** -/
theorem difference_len (nx ny : Nat) (f : Int → Int → Res) :
    lenX (difference nx ny f).1 = nx ∧ lenY (difference nx ny f).1 = ny := by
  unfold difference
  simp only []
  have hbig : nx + ny ≤ 8 * (nx + ny) + 32 := by omega
  have h0 : DSInv nx ny { fwd := { dir := 1, x := 0, y := 0, es := [] }, rev := { dir := -1, x := (nx : Int), y := (ny : Int), es := [] },
                          ffx := 0, ffy := 0, rfx := (nx : Int), rfy := (ny : Int), budget := 4 * (nx + ny) } := by
    refine ⟨⟨⟨rfl, by simp [lenX], by simp [lenY]⟩, ⟨rfl, by simp [lenX], by simp [lenY]⟩, ?_, ?_⟩, ?_, ?_, ?_, ?_⟩ <;> simp
  have hs := rounds_inv f nx ny _ hbig (8 * (nx + ny) + 32) _ h0
  generalize rounds f (8 * (nx + ny) + 32) (8 * (nx + ny) + 32) _ = s at hs
  obtain ⟨⟨hf, hr, hx, hy⟩, h0x, h0y, hnx, hny⟩ := hs
  have hc := connectFwd_spec f (8 * (nx + ny) + 32) s.fwd s.rev.x s.rev.y hf hx hy
  have hreach := hc.2 (by omega)
  generalize connectFwd f (8 * (nx + ny) + 32) s.fwd s.rev.x s.rev.y = c at hc hreach
  have hfold : ∀ (l : List Ed) (p : Path), (l.foldl (fun p t => p.app t) p).es = l.reverse ++ p.es := by
    intro l
    induction l with
    | nil => intro p; rfl
    | cons t l ih =>
      intro p
      rw [List.foldl_cons, ih]
      cases t <;> simp [Path.app]
  rw [hfold, lenX_reverse, lenY_reverse, lenX_append, lenY_append, lenX_reverse, lenY_reverse]
  have e1 := hc.1.2.1
  have e2 := hc.1.2.2
  have e3 := hr.2.1
  have e4 := hr.2.2
  constructor <;> omega

end Gopatch.AD
