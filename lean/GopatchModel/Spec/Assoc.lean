import GopatchModel.FileM
/-
  Spec/Assoc.lean — what `connectDots` computes: every '+' elision is associated
  with the nearest '-' elision at or before it in patch order; in particular an
  elision on a context line (same position on both sides) is associated with itself.
-/
namespace Gopatch

theorem nb_fold_spec (r : Nat) : ∀ (lhs : List Nat) (acc : Option Nat),
    (∀ a, acc = some a → a ≤ r) →
    match lhs.foldl (nbStep r) acc with
    | none => acc = none ∧ ∀ l ∈ lhs, ¬ l ≤ r
    | some m => m ≤ r ∧ (m ∈ lhs ∨ acc = some m) ∧ (∀ a, acc = some a → a ≤ m) ∧ ∀ l ∈ lhs, l ≤ r → l ≤ m
  | [], acc, hacc => by
      cases acc with
      | none => simp
      | some a => simp [hacc a rfl]
  | l :: ls, acc, hacc => by
      simp only [List.foldl_cons]
      have hstep : ∀ a, nbStep r acc l = some a → a ≤ r := by
        intro a ha
        unfold nbStep at ha
        by_cases hl : l ≤ r
        · simp only [hl, ↓reduceIte] at ha
          cases acc with
          | none => simp at ha; omega
          | some b =>
            simp only at ha
            by_cases hb : b ≤ l
            · simp [hb] at ha; omega
            · simp [hb] at ha; have := hacc b rfl; omega
        · simp only [hl, ↓reduceIte] at ha
          exact hacc a ha
      have ih := nb_fold_spec r ls (nbStep r acc l) hstep
      cases hres : ls.foldl (nbStep r) (nbStep r acc l) with
      | none =>
        rw [hres] at ih
        simp only at ih ⊢
        obtain ⟨h1, h2⟩ := ih
        unfold nbStep at h1
        by_cases hl : l ≤ r
        · simp only [hl, ↓reduceIte] at h1
          cases acc with
          | none => simp at h1
          | some b => simp only at h1; by_cases hb : b ≤ l <;> simp [hb] at h1
        · simp only [hl, ↓reduceIte] at h1
          refine ⟨h1, ?_⟩
          intro x hx
          rcases List.mem_cons.1 hx with rfl | hx
          · exact hl
          · exact h2 x hx
      | some m =>
        rw [hres] at ih
        simp only at ih ⊢
        obtain ⟨hmr, hmem, hge, hmax⟩ := ih
        refine ⟨hmr, ?_, ?_, ?_⟩
        · rcases hmem with hm | hm
          · exact Or.inl (by simp [hm])
          · unfold nbStep at hm
            by_cases hl : l ≤ r
            · simp only [hl, ↓reduceIte] at hm
              cases acc with
              | none => simp at hm; left; simp [hm]
              | some b =>
                simp only at hm
                by_cases hb : b ≤ l
                · simp [hb] at hm; left; simp [hm]
                · simp [hb] at hm; right; rw [hm]
            · simp only [hl, ↓reduceIte] at hm
              exact Or.inr hm
        · intro a ha
          subst ha
          unfold nbStep at hge
          by_cases hl : l ≤ r
          · simp only [hl, ↓reduceIte] at hge
            by_cases hb : a ≤ l
            · have := hge l (by simp [hb]); omega
            · exact hge a (by simp [hb])
          · simp only [hl, ↓reduceIte] at hge
            exact hge a rfl
        · intro x hx hxr
          rcases List.mem_cons.1 hx with rfl | hx
          · unfold nbStep at hge
            simp only [hxr, ↓reduceIte] at hge
            cases acc with
            | none => exact hge x (by simp)
            | some b =>
              by_cases hb : b ≤ x
              · exact hge x (by simp [hb])
              · have := hge b (by simp [hb]); omega
          · exact hmax x hx hxr

/-- `nearestBefore lhs r` is the greatest element of `lhs` that is ≤ `r` -/
theorem nearestBefore_spec (lhs : List Nat) (r m : Nat) (h : nearestBefore lhs r = some m) :
    m ∈ lhs ∧ m ≤ r ∧ ∀ l ∈ lhs, l ≤ r → l ≤ m := by
  have := nb_fold_spec r lhs none (by simp)
  unfold nearestBefore at h
  rw [h] at this
  simp only at this
  obtain ⟨h1, h2, _, h4⟩ := this
  refine ⟨?_, h1, h4⟩
  rcases h2 with h2 | h2
  · exact h2
  · cases h2

theorem nearestBefore_exists (lhs : List Nat) (r l : Nat) (hl : l ∈ lhs) (hle : l ≤ r) :
    ∃ m, nearestBefore lhs r = some m := by
  have := nb_fold_spec r lhs none (by simp)
  unfold nearestBefore
  cases hres : lhs.foldl (nbStep r) none with
  | some m => exact ⟨m, rfl⟩
  | none =>
    rw [hres] at this
    exact absurd hle (this.2 l hl)

/-- an elision position that occurs on the '-' side is its own nearest predecessor -/
theorem nearestBefore_self (lhs : List Nat) (k : Nat) (hk : k ∈ lhs) : nearestBefore lhs k = some k := by
  obtain ⟨m, hm⟩ := nearestBefore_exists lhs k k hk (Nat.le_refl k)
  obtain ⟨_, h2, h3⟩ := nearestBefore_spec lhs k m hm
  have := h3 k hk (Nat.le_refl k)
  have : m = k := by omega
  rw [hm, this]

/-- the loop only adds associations, for the positions it processes -/
theorem connectDotsGo_lookup_kept (lhs : List Nat) : ∀ (rs : List Nat) (conns : List (Nat × Nat)) (k v : Nat),
    conns.lookup k = some v → k ∉ rs → (connectDotsGo lhs rs conns).lookup k = some v
  | [], conns, k, v, h, _ => by simpa [connectDotsGo] using h
  | r :: rs, conns, k, v, h, hk => by
      simp only [connectDotsGo]
      cases hn : nearestBefore lhs r with
      | none => simpa using h
      | some l =>
        simp only
        split
        · exact h
        · apply connectDotsGo_lookup_kept lhs rs ((r, l) :: conns) k v
          · have : k ≠ r := fun hh => hk (by simp [hh])
            have hb : (k == r) = false := by simpa using this
            simp [List.lookup_cons, hb, h]
          · intro hh; exact hk (by simp [hh])

/-- **An elision on an unchanged context line is associated with itself**, and more generally an
elision whose position occurs on both sides: provided every '+' elision has some '-' elision at or
before it (always the case for statement patterns, whose implicit leading elision comes first)
and no position is listed twice. -/
theorem connectDotsGo_self (lhs : List Nat) : ∀ (rs : List Nat) (conns : List (Nat × Nat)) (k : Nat),
    k ∈ lhs → k ∈ rs → rs.Nodup → (∀ r ∈ rs, ∃ l ∈ lhs, l ≤ r) → (∀ r ∈ rs, conns.lookup r = none) →
    (connectDotsGo lhs rs conns).lookup k = some k
  | [], _, k, _, hk, _, _, _ => by simp at hk
  | r :: rs, conns, k, hkl, hkr, hnd, hall, hfree => by
      simp only [connectDotsGo]
      obtain ⟨l0, hl0, hle0⟩ := hall r (by simp)
      obtain ⟨m, hm⟩ := nearestBefore_exists lhs r l0 hl0 hle0
      simp only [hm]
      have hfr : conns.lookup r = none := hfree r (by simp)
      simp only [hfr, Option.isSome_none, Bool.false_eq_true, ↓reduceIte]
      have hnd' := List.nodup_cons.1 hnd
      by_cases hkr' : k = r
      · subst hkr'
        have hself := nearestBefore_self lhs k hkl
        rw [hself] at hm
        cases hm
        apply connectDotsGo_lookup_kept lhs rs ((k, k) :: conns) k k
        · simp [List.lookup_cons]
        · exact hnd'.1
      · have hk2 : k ∈ rs := by
          rcases List.mem_cons.1 hkr with h | h
          · exact absurd h hkr'
          · exact h
        apply connectDotsGo_self lhs rs ((r, m) :: conns) k hkl hk2 hnd'.2
        · intro x hx; exact hall x (by simp [hx])
        · intro x hx
          have hxr : x ≠ r := fun hh => hnd'.1 (hh ▸ hx)
          have hb : (x == r) = false := by simpa using hxr
          simp [List.lookup_cons, hb, hfree x (by simp [hx])]

end Gopatch

namespace Gopatch

theorem mem_insertAsc (x y : Nat) : ∀ l, y ∈ insertAsc x l ↔ y = x ∨ y ∈ l
  | [] => by simp [insertAsc]
  | z :: zs => by
      unfold insertAsc
      by_cases h : x ≤ z
      · simp [h]
      · simp only [h, ↓reduceIte, List.mem_cons, mem_insertAsc x y zs]
        constructor
        · rintro (h1 | h1 | h1)
          · exact Or.inr (Or.inl h1)
          · exact Or.inl h1
          · exact Or.inr (Or.inr h1)
        · rintro (h1 | h1 | h1)
          · exact Or.inr (Or.inl h1)
          · exact Or.inl h1
          · exact Or.inr (Or.inr h1)

theorem mem_sortAsc (y : Nat) : ∀ l, y ∈ sortAsc l ↔ y ∈ l
  | [] => by simp [sortAsc]
  | x :: xs => by
      have : sortAsc (x :: xs) = insertAsc x (sortAsc xs) := by simp [sortAsc]
      rw [this, mem_insertAsc, mem_sortAsc y xs]; simp

theorem nodup_insertAsc (x : Nat) : ∀ l, x ∉ l → l.Nodup → (insertAsc x l).Nodup
  | [], _, _ => by simp [insertAsc]
  | z :: zs, hx, hn => by
      unfold insertAsc
      have hn' := List.nodup_cons.1 hn
      by_cases h : x ≤ z
      · simp only [h, ↓reduceIte]
        exact List.nodup_cons.2 ⟨hx, hn⟩
      · simp only [h, ↓reduceIte]
        have hxz : x ∉ zs := fun hh => hx (by simp [hh])
        refine List.nodup_cons.2 ⟨?_, nodup_insertAsc x zs hxz hn'.2⟩
        rw [mem_insertAsc]
        rintro (h1 | h1)
        · exact hx (by simp [h1])
        · exact hn'.1 h1

theorem nodup_sortAsc : ∀ l : List Nat, l.Nodup → (sortAsc l).Nodup
  | [], _ => by simp [sortAsc]
  | x :: xs, h => by
      have : sortAsc (x :: xs) = insertAsc x (sortAsc xs) := by simp [sortAsc]
      rw [this]
      have h' := List.nodup_cons.1 h
      exact nodup_insertAsc x _ (by rw [mem_sortAsc]; exact h'.1) (nodup_sortAsc xs h'.2)

/-- `connectDots` associates a position that carries an elision on both sides with itself -/
theorem connectDots_self (lhs rhs : List Nat) (k : Nat) (hkl : k ∈ lhs) (hkr : k ∈ rhs)
    (hnd : rhs.Nodup) (hall : ∀ r ∈ rhs, ∃ l ∈ lhs, l ≤ r) :
    (connectDots lhs rhs).lookup k = some k := by
  unfold connectDots
  apply connectDotsGo_self lhs (sortAsc rhs) [] k hkl
  · rw [mem_sortAsc]; exact hkr
  · exact nodup_sortAsc rhs hnd
  · intro r hr; rw [mem_sortAsc] at hr; exact hall r hr
  · intro r _; rfl

end Gopatch
