import GopatchModel.Spec.Frame
/-
  Spec/FrameAll.lean — the frame of a whole change: blank, in one pass, every
  slot that belongs to a set `P` of slots; the replacement loop `applySites`
  over sites whose slots are all in `P` leaves the blanked tree as it was.
-/
namespace Gopatch

/-- a set of slots: (parent identity, field number, element index) -/
abbrev Slots := Nat → Nat → Option Nat → Bool

/-- blank the elements of a list field that belong to the set (`j` = index of the first element) -/
def blankElems (q : Option Nat → Bool) : Nat → List V → List V
  | _, [] => []
  | j, x :: xs => (if q (some j) then hole else x) :: blankElems q (j + 1) xs

/-- blank what the set holds of one field: the whole field, or some of its elements -/
def blankP (q : Option Nat → Bool) (slot : V) : V :=
  if q none then hole else
  match slot with
  | .slice e vs => .slice e (blankElems q 0 vs)
  | s => s

mutual
/-- blank every slot of the set `P`, everywhere in the tree, in one pass -/
def maskP (P : Slots) : V → V
  | .iface i v => .iface i (maskP P v)
  | .slice e vs => .slice e (maskPs P vs)
  | .ptr t id fs => .ptr t id (maskFields P id 0 fs)
  | v => v
def maskPs (P : Slots) : List V → List V
  | [] => []
  | v :: vs => maskP P v :: maskPs P vs
/-- the fields of node `id`, from field number `k` on -/
def maskFields (P : Slots) (id : Nat) : Nat → List V → List V
  | _, [] => []
  | k, v :: vs => blankP (P id k) (maskP P v) :: maskFields P id (k + 1) vs
end

theorem maskP_iface (P : Slots) (i : String) (v : V) : maskP P (.iface i v) = .iface i (maskP P v) := by rw [maskP.eq_def]
theorem maskP_slice (P : Slots) (e : String) (vs : List V) : maskP P (.slice e vs) = .slice e (maskPs P vs) := by rw [maskP.eq_def]
theorem maskP_ptr (P : Slots) (t : String) (id : Nat) (fs : List V) :
    maskP P (.ptr t id fs) = .ptr t id (maskFields P id 0 fs) := by rw [maskP.eq_def]
theorem maskPs_cons (P : Slots) (v : V) (vs : List V) : maskPs P (v :: vs) = maskP P v :: maskPs P vs := by rw [maskPs.eq_def]
theorem maskPs_nil (P : Slots) : maskPs P [] = [] := by rw [maskPs.eq_def]
theorem maskFields_cons (P : Slots) (id k : Nat) (v : V) (vs : List V) :
    maskFields P id k (v :: vs) = blankP (P id k) (maskP P v) :: maskFields P id (k + 1) vs := by rw [maskFields.eq_def]
theorem maskFields_nil (P : Slots) (id k : Nat) : maskFields P id k [] = [] := by rw [maskFields.eq_def]

/-- blanking the element at `i` (which is in the set) forgets what was stored there -/
theorem blankElems_absorb (P : Slots) (q : Option Nat → Bool) (W : V → V) :
    ∀ (vs : List V) (j i : Nat), q (some (j + i)) = true →
      blankElems q j (maskPs P (modifyAt W vs i)) = blankElems q j (maskPs P vs)
  | [], _, _, _ => by simp [modifyAt]
  | v :: vs, j, 0, h => by
      simp only [modifyAt, maskPs_cons, blankElems]
      have : q (some j) = true := by simpa using h
      simp [this]
  | v :: vs, j, i + 1, h => by
      simp only [modifyAt, maskPs_cons, blankElems]
      have h' : q (some (j + 1 + i)) = true := by
        have : j + 1 + i = j + (i + 1) := by omega
        rw [this]; exact h
      rw [blankElems_absorb P q W vs (j + 1) i h']

/-- blanking a slot of the set forgets what `setSlot` stored in it -/
theorem blankP_absorbs_set (P : Slots) (q : Option Nat → Bool) (idx : Option Nat) (nv : V) (hq : q idx = true) (slot : V) :
    blankP q (maskP P (setSlot idx nv slot)) = blankP q (maskP P slot) := by
  cases idx with
  | none => simp [blankP, hq]
  | some i =>
    by_cases hn : q none = true
    · simp [blankP, hn]
    · cases slot with
      | slice e vs =>
        simp only [setSlot, maskP_slice, blankP, hn, Bool.false_eq_true, ↓reduceIte]
        congr 1
        exact blankElems_absorb P q _ vs 0 i (by simpa using hq)
      | _ => rfl

/-- a field list in which the slot `n` (in the set) was overwritten blanks to the same list -/
theorem maskFields_absorb (P : Slots) (id : Nat) (idx : Option Nat) (nv : V) :
    ∀ (fs : List V) (k n : Nat), P id (k + n) idx = true →
      maskFields P id k (modifyAt (setSlot idx nv) fs n) = maskFields P id k fs
  | [], _, _, _ => by simp [modifyAt]
  | v :: vs, k, 0, h => by
      simp only [modifyAt, maskFields_cons]
      rw [blankP_absorbs_set P (P id k) idx nv (by simpa using h) v]
  | v :: vs, k, n + 1, h => by
      simp only [modifyAt, maskFields_cons]
      have h' : P id (k + 1 + n) idx = true := by
        have : k + 1 + n = k + (n + 1) := by omega
        rw [this]; exact h
      rw [maskFields_absorb P id idx nv vs (k + 1) n h']

mutual
/-- **Frame for a set of slots.** Storing a value in a slot of the set leaves the blanked tree as it was. -/
theorem set_in_slots (P : Slots) (pid fld : Nat) (idx : Option Nat) (nv : V) (hp : P pid fld idx = true) :
    ∀ v, maskP P (setV pid fld idx nv v) = maskP P v
  | .pos _ _ => by simp [setV]
  | .str _ => by simp [setV]
  | .int _ => by simp [setV]
  | .bool _ => by simp [setV]
  | .nilP _ => by simp [setV]
  | .nilI _ => by simp [setV]
  | .nilS _ => by simp [setV]
  | .iface i v => by rw [setV_iface, maskP_iface, maskP_iface, set_in_slots P pid fld idx nv hp v]
  | .slice e vs => by rw [setV_slice, maskP_slice, maskP_slice, sets_in_slots P pid fld idx nv hp vs]
  | .ptr t id fs => by
      rw [setV_ptr]
      by_cases h : (id == pid) = true
      · simp only [h, ↓reduceIte]
        have hid : id = pid := by simpa using h
        rw [maskP_ptr, maskP_ptr, setField_eq]
        congr 1
        rw [maskFields_absorb P id idx nv _ 0 fld (by simpa [hid] using hp)]
        exact setf_in_slots P pid fld idx nv hp id 0 fs
      · simp only [h, Bool.false_eq_true, ↓reduceIte]
        rw [maskP_ptr, maskP_ptr]
        congr 1
        exact setf_in_slots P pid fld idx nv hp id 0 fs
theorem sets_in_slots (P : Slots) (pid fld : Nat) (idx : Option Nat) (nv : V) (hp : P pid fld idx = true) :
    ∀ vs, maskPs P (setVs pid fld idx nv vs) = maskPs P vs
  | [] => by simp [setVs]
  | v :: vs => by
      rw [setVs_cons, maskPs_cons, maskPs_cons, set_in_slots P pid fld idx nv hp v,
        sets_in_slots P pid fld idx nv hp vs]
theorem setf_in_slots (P : Slots) (pid fld : Nat) (idx : Option Nat) (nv : V) (hp : P pid fld idx = true) (id : Nat) :
    ∀ (k : Nat) (vs : List V), maskFields P id k (setVs pid fld idx nv vs) = maskFields P id k vs
  | _, [] => by simp [setVs]
  | k, v :: vs => by
      rw [setVs_cons, maskFields_cons, maskFields_cons, set_in_slots P pid fld idx nv hp v,
        setf_in_slots P pid fld idx nv hp id (k + 1) vs]
end

/-- the slots of a list of sites -/
def slotsOf (sites : List Site) : Slots :=
  fun p f i => sites.any (fun s => s.parent == p && s.field == f && s.index == i)

theorem slotsOf_mem (sites : List Site) (s : Site) (h : s ∈ sites) : slotsOf sites s.parent s.field s.index = true := by
  simp only [slotsOf, List.any_eq_true]
  exact ⟨s, h, by simp⟩

/-- **Frame of the replacement loop.** Whatever values the replacer generates, whichever of them
are admissible, in whatever order the sites come: once every slot of the set is blanked, the tree
after all replacements is the tree before them. -/
theorem applySites_in_slots (c : Change) (assoc : List (Nat × Nat)) (P : Slots) :
    ∀ (sites : List Site) (tree tree' : V), (∀ s ∈ sites, P s.parent s.field s.index = true) →
      applySites c assoc sites tree = .ok tree' → maskP P tree' = maskP P tree
  | [], tree, tree', _, h => by
      simp only [applySites, pure, Except.pure, Except.ok.injEq] at h
      rw [h]
  | s :: ss, tree, tree', hin, h => by
      cases hg : nodeReplace c assoc s.data with
      | error e => simp [applySites, hg, bind, Except.bind] at h
      | ok give =>
        simp only [applySites, hg, bind, Except.bind] at h
        have ih := applySites_in_slots c assoc P ss _ tree' (fun s' hs' => hin s' (List.mem_cons_of_mem _ hs')) h
        rw [ih]
        by_cases ha : assignable give s.slotTy = true
        · simp only [ha, ↓reduceIte]
          exact set_in_slots P s.parent s.field s.index give (hin s (List.mem_cons_self ..)) tree
        · simp [ha]

theorem blankElems_false : ∀ (j : Nat) (vs : List V), blankElems (fun _ => false) j vs = vs
  | _, [] => rfl
  | j, v :: vs => by simp [blankElems, blankElems_false (j + 1) vs]

mutual
/-- blanking the empty set of slots is the identity: `maskP` hides nothing but the set -/
theorem maskP_empty : ∀ v, maskP (fun _ _ _ => false) v = v
  | .pos _ _ => by simp [maskP]
  | .str _ => by simp [maskP]
  | .int _ => by simp [maskP]
  | .bool _ => by simp [maskP]
  | .nilP _ => by simp [maskP]
  | .nilI _ => by simp [maskP]
  | .nilS _ => by simp [maskP]
  | .iface i v => by rw [maskP_iface, maskP_empty v]
  | .slice e vs => by rw [maskP_slice, maskPs_empty vs]
  | .ptr t id fs => by rw [maskP_ptr, maskFields_empty id 0 fs]
theorem maskPs_empty : ∀ vs, maskPs (fun _ _ _ => false) vs = vs
  | [] => by simp [maskPs]
  | v :: vs => by rw [maskPs_cons, maskP_empty v, maskPs_empty vs]
theorem maskFields_empty (id : Nat) : ∀ (k : Nat) (vs : List V), maskFields (fun _ _ _ => false) id k vs = vs
  | _, [] => by simp [maskFields]
  | k, v :: vs => by
      rw [maskFields_cons, maskP_empty v, maskFields_empty id (k + 1) vs]
      cases v <;> simp [blankP, blankElems_false]
end

end Gopatch
