import GopatchModel.Spec.FrameAll
/-
  Spec/FrameFile.lean — the frame of a whole change on a file: after the replacement loop the
  nodes built by the replacer get fresh identities (`renumV`); they all sit inside slots of
  the matched sites, so with those slots blanked the renumbered tree is still the tree before.
-/
namespace Gopatch

/-- no element of a list field is in the set -/
def noq : Option Nat → Bool := fun _ => false

mutual
/-- nodes without identity (built by a replacement, not yet numbered) occur only inside slots of the set `P`;
`q` tells which elements are in the set when the value is a list field of its parent -/
def FreshUnder (P : Slots) (q : Option Nat → Bool) : V → Prop
  | .iface _ v => FreshUnder P noq v
  | .slice _ vs => FreshElems P q 0 vs
  | .ptr _ id fs => id ≠ 0 ∧ FreshFields P id 0 fs
  | _ => True
def FreshElems (P : Slots) (q : Option Nat → Bool) : Nat → List V → Prop
  | _, [] => True
  | j, x :: xs => (q (some j) = true ∨ FreshUnder P noq x) ∧ FreshElems P q (j + 1) xs
/-- the fields of node `id` from field number `k` on: a field wholly in the set is free -/
def FreshFields (P : Slots) (id : Nat) : Nat → List V → Prop
  | _, [] => True
  | k, v :: vs => (P id k none = true ∨ FreshUnder P (P id k) v) ∧ FreshFields P id (k + 1) vs
end

theorem renumV_iface (i : String) (v : V) (n : Nat) : (renumV (.iface i v) n).1 = .iface i (renumV v n).1 := by
  rw [renumV.eq_def]
theorem renumV_slice (e : String) (vs : List V) (n : Nat) : (renumV (.slice e vs) n).1 = .slice e (renumVs vs n).1 := by
  rw [renumV.eq_def]
theorem renumVs_cons (v : V) (vs : List V) (n : Nat) :
    (renumVs (v :: vs) n).1 = (renumV v n).1 :: (renumVs vs (renumV v n).2).1 := by
  rw [renumVs.eq_def]

theorem blankP_noq (x : V) : blankP noq x = x := by
  cases x <;> simp [blankP, noq]
  exact blankElems_false 0 _

mutual
theorem renum_masked (P : Slots) : ∀ (v : V) (q : Option Nat → Bool) (n : Nat), q none = false → FreshUnder P q v →
    blankP q (maskP P (renumV v n).1) = blankP q (maskP P v)
  | .pos _ _, q, n, _, _ => by simp [renumV]
  | .str _, q, n, _, _ => by simp [renumV]
  | .int _, q, n, _, _ => by simp [renumV]
  | .bool _, q, n, _, _ => by simp [renumV]
  | .nilP _, q, n, _, _ => by simp [renumV]
  | .nilI _, q, n, _, _ => by simp [renumV]
  | .nilS _, q, n, _, _ => by simp [renumV]
  | .iface i v, q, n, hq, h => by
    simp only [FreshUnder] at h
    have ih := renum_masked P v noq n rfl h
    rw [blankP_noq, blankP_noq] at ih
    rw [renumV_iface, maskP_iface, maskP_iface, ih]
  | .slice e vs, q, n, hq, h => by
    simp only [FreshUnder] at h
    rw [renumV_slice, maskP_slice, maskP_slice]
    simp only [blankP, hq, Bool.false_eq_true, ↓reduceIte]
    congr 1
    exact renumE_masked P q 0 vs n h
  | .ptr t id fs, q, n, hq, h => by
    simp only [FreshUnder] at h
    obtain ⟨hid, hf⟩ := h
    rw [renumV.eq_def]
    have : (id == 0) = false := by simpa using hid
    simp only [this, Bool.false_eq_true, ↓reduceIte]
    rw [maskP_ptr, maskP_ptr, renumF_masked P id 0 fs n hf]
theorem renumE_masked (P : Slots) (q : Option Nat → Bool) : ∀ (j : Nat) (xs : List V) (n : Nat), FreshElems P q j xs →
    blankElems q j (maskPs P (renumVs xs n).1) = blankElems q j (maskPs P xs)
  | _, [], n, _ => by simp [renumVs]
  | j, x :: xs, n, h => by
    simp only [FreshElems] at h
    obtain ⟨h1, h2⟩ := h
    rw [renumVs_cons, maskPs_cons, maskPs_cons]
    simp only [blankElems]
    rw [renumE_masked P q (j + 1) xs _ h2]
    by_cases hq : q (some j) = true
    · simp [hq]
    · simp only [hq, Bool.false_eq_true, ↓reduceIte]
      have ih := renum_masked P x noq n rfl (h1.resolve_left hq)
      rw [blankP_noq, blankP_noq] at ih
      rw [ih]
theorem renumF_masked (P : Slots) (id : Nat) : ∀ (k : Nat) (vs : List V) (n : Nat), FreshFields P id k vs →
    maskFields P id k (renumVs vs n).1 = maskFields P id k vs
  | _, [], n, _ => by simp [renumVs]
  | k, v :: vs, n, h => by
    simp only [FreshFields] at h
    obtain ⟨h1, h2⟩ := h
    rw [renumVs_cons, maskFields_cons, maskFields_cons, renumF_masked P id (k + 1) vs _ h2]
    congr 1
    by_cases hq : P id k none = true
    · simp [blankP, hq]
    · exact renum_masked P v (P id k) n (by simpa using hq) (h1.resolve_left hq)
end

/-- **Numbering the new nodes changes nothing outside the slots.** -/
theorem renumbering_keeps_frame (P : Slots) (v : V) (n : Nat) (h : FreshUnder P noq v) :
    maskP P (renumV v n).1 = maskP P v := by
  have := renum_masked P v noq n rfl h
  rwa [blankP_noq, blankP_noq] at this

mutual
/-- a tree in which every node has an identity satisfies the condition for every set -/
theorem fresh_of_noZero (P : Slots) : ∀ (v : V) (q : Option Nat → Bool), hasId 0 v = false → FreshUnder P q v
  | .pos _ _, _, _ => by simp [FreshUnder]
  | .str _, _, _ => by simp [FreshUnder]
  | .int _, _, _ => by simp [FreshUnder]
  | .bool _, _, _ => by simp [FreshUnder]
  | .nilP _, _, _ => by simp [FreshUnder]
  | .nilI _, _, _ => by simp [FreshUnder]
  | .nilS _, _, _ => by simp [FreshUnder]
  | .iface i v, q, h => by
    simp only [hasId] at h
    simp only [FreshUnder]
    exact fresh_of_noZero P v noq h
  | .slice e vs, q, h => by
    simp only [hasId] at h
    simp only [FreshUnder]
    exact freshE_of_noZero P q 0 vs h
  | .ptr t id fs, q, h => by
    simp only [hasId, Bool.or_eq_false_iff] at h
    simp only [FreshUnder]
    exact ⟨by simpa using h.1, freshF_of_noZero P id 0 fs h.2⟩
theorem freshE_of_noZero (P : Slots) (q : Option Nat → Bool) : ∀ (j : Nat) (xs : List V), hasIdL 0 xs = false → FreshElems P q j xs
  | _, [], _ => by simp [FreshElems]
  | j, x :: xs, h => by
    simp only [hasIdL, Bool.or_eq_false_iff] at h
    simp only [FreshElems]
    exact ⟨Or.inr (fresh_of_noZero P x noq h.1), freshE_of_noZero P q (j + 1) xs h.2⟩
theorem freshF_of_noZero (P : Slots) (id : Nat) : ∀ (k : Nat) (vs : List V), hasIdL 0 vs = false → FreshFields P id k vs
  | _, [], _ => by simp [FreshFields]
  | k, v :: vs, h => by
    simp only [hasIdL, Bool.or_eq_false_iff] at h
    simp only [FreshFields]
    exact ⟨Or.inr (fresh_of_noZero P v _ h.1), freshF_of_noZero P id (k + 1) vs h.2⟩
end

/-- replacing an element that is in the set keeps the condition on the elements -/
theorem freshE_modify (P : Slots) (q : Option Nat → Bool) (W : V → V) : ∀ (xs : List V) (j i : Nat), q (some (j + i)) = true →
    FreshElems P q j xs → FreshElems P q j (modifyAt W xs i)
  | [], _, _, _, h => by simpa [modifyAt] using h
  | x :: xs, j, 0, hq, h => by
    simp only [FreshElems] at h
    simp only [modifyAt, FreshElems]
    exact ⟨Or.inl (by simpa using hq), h.2⟩
  | x :: xs, j, i + 1, hq, h => by
    simp only [FreshElems] at h
    simp only [modifyAt, FreshElems]
    refine ⟨h.1, freshE_modify P q W xs (j + 1) i ?_ h.2⟩
    have : j + 1 + i = j + (i + 1) := by omega
    rw [this]; exact hq

/-- storing into a slot of the set keeps the condition on the fields of that node -/
theorem freshF_set (P : Slots) (id : Nat) (idx : Option Nat) (nv : V) : ∀ (fs : List V) (k n : Nat), P id (k + n) idx = true →
    FreshFields P id k fs → FreshFields P id k (modifyAt (setSlot idx nv) fs n)
  | [], _, _, _, h => by simpa [modifyAt] using h
  | v :: vs, k, 0, hp, h => by
    simp only [FreshFields] at h
    simp only [modifyAt, FreshFields]
    refine ⟨?_, h.2⟩
    have hp' : P id k idx = true := by simpa using hp
    cases idx with
    | none => exact Or.inl hp'
    | some i =>
      rcases h.1 with h1 | h1
      · exact Or.inl h1
      · right
        cases v with
        | slice e xs =>
          simp only [setSlot, FreshUnder] at h1 ⊢
          exact freshE_modify P _ _ xs 0 i (by simpa using hp') h1
        | pos _ _ => simpa [setSlot] using h1
        | str _ => simpa [setSlot] using h1
        | int _ => simpa [setSlot] using h1
        | bool _ => simpa [setSlot] using h1
        | nilP _ => simpa [setSlot] using h1
        | nilI _ => simpa [setSlot] using h1
        | nilS _ => simpa [setSlot] using h1
        | iface _ _ => simpa [setSlot] using h1
        | ptr _ _ _ => simpa [setSlot] using h1
  | v :: vs, k, n + 1, hp, h => by
    simp only [FreshFields] at h
    simp only [modifyAt, FreshFields]
    refine ⟨h.1, freshF_set P id idx nv vs (k + 1) n ?_ h.2⟩
    have : k + 1 + n = k + (n + 1) := by omega
    rw [this]; exact hp

mutual
/-- storing a value (with or without nodes lacking identity) in a slot of the set keeps the condition -/
theorem set_fresh (P : Slots) (pid fld : Nat) (idx : Option Nat) (nv : V) (hp : P pid fld idx = true) :
    ∀ (v : V) (q : Option Nat → Bool), FreshUnder P q v → FreshUnder P q (setV pid fld idx nv v)
  | .pos _ _, _, h => by simpa [setV] using h
  | .str _, _, h => by simpa [setV] using h
  | .int _, _, h => by simpa [setV] using h
  | .bool _, _, h => by simpa [setV] using h
  | .nilP _, _, h => by simpa [setV] using h
  | .nilI _, _, h => by simpa [setV] using h
  | .nilS _, _, h => by simpa [setV] using h
  | .iface i v, q, h => by
    rw [setV_iface]
    simp only [FreshUnder] at h ⊢
    exact set_fresh P pid fld idx nv hp v noq h
  | .slice e vs, q, h => by
    rw [setV_slice]
    simp only [FreshUnder] at h ⊢
    exact setE_fresh P pid fld idx nv hp q 0 vs h
  | .ptr t id fs, q, h => by
    rw [setV_ptr]
    simp only [FreshUnder] at h
    obtain ⟨hid, hf⟩ := h
    have ih := setF_fresh P pid fld idx nv hp id 0 fs hf
    by_cases hc : (id == pid) = true
    · simp only [hc, ↓reduceIte, FreshUnder]
      have : id = pid := by simpa using hc
      refine ⟨hid, ?_⟩
      rw [setField_eq]
      exact freshF_set P id idx nv _ 0 fld (by simpa [this] using hp) ih
    · simp only [hc, Bool.false_eq_true, ↓reduceIte, FreshUnder]
      exact ⟨hid, ih⟩
theorem setE_fresh (P : Slots) (pid fld : Nat) (idx : Option Nat) (nv : V) (hp : P pid fld idx = true) (q : Option Nat → Bool) :
    ∀ (j : Nat) (xs : List V), FreshElems P q j xs → FreshElems P q j (setVs pid fld idx nv xs)
  | _, [], h => by simpa [setVs] using h
  | j, x :: xs, h => by
    rw [setVs_cons]
    simp only [FreshElems] at h ⊢
    refine ⟨?_, setE_fresh P pid fld idx nv hp q (j + 1) xs h.2⟩
    rcases h.1 with h1 | h1
    · exact Or.inl h1
    · exact Or.inr (set_fresh P pid fld idx nv hp x noq h1)
theorem setF_fresh (P : Slots) (pid fld : Nat) (idx : Option Nat) (nv : V) (hp : P pid fld idx = true) (id : Nat) :
    ∀ (k : Nat) (vs : List V), FreshFields P id k vs → FreshFields P id k (setVs pid fld idx nv vs)
  | _, [], h => by simpa [setVs] using h
  | k, v :: vs, h => by
    rw [setVs_cons]
    simp only [FreshFields] at h ⊢
    refine ⟨?_, setF_fresh P pid fld idx nv hp id (k + 1) vs h.2⟩
    rcases h.1 with h1 | h1
    · exact Or.inl h1
    · exact Or.inr (set_fresh P pid fld idx nv hp v _ h1)
end

/-- after the replacement loop the nodes without identity sit inside the slots of the sites -/
theorem applySites_fresh (c : Change) (assoc : List (Nat × Nat)) (P : Slots) :
    ∀ (sites : List Site) (tree tree' : V), (∀ s ∈ sites, P s.parent s.field s.index = true) →
      FreshUnder P noq tree → applySites c assoc sites tree = .ok tree' → FreshUnder P noq tree'
  | [], tree, tree', _, hf, h => by
      simp only [applySites, pure, Except.pure, Except.ok.injEq] at h
      rw [← h]; exact hf
  | s :: ss, tree, tree', hin, hf, h => by
      cases hg : nodeReplace c assoc s.data with
      | error e => simp [applySites, hg, bind, Except.bind] at h
      | ok give =>
        simp only [applySites, hg, bind, Except.bind] at h
        refine applySites_fresh c assoc P ss _ tree' (fun s' hs' => hin s' (List.mem_cons_of_mem _ hs')) ?_ h
        by_cases ha : assignable give s.slotTy = true
        · simp only [ha, ↓reduceIte]
          exact set_fresh P s.parent s.field s.index give (hin s (List.mem_cons_self ..)) tree noq hf
        · simpa [ha] using hf

/-- **The frame of the replacement loop and the numbering after it**: a tree in which every node has an identity, the loop over
the matched sites, then fresh identities for what the replacer built — with the slots of the sites blanked, still the tree before. -/
theorem sites_then_numbering (c : Change) (assoc : List (Nat × Nat)) (sites : List Site) (tree tree' : V) (n : Nat)
    (hz : hasId 0 tree = false) (h : applySites c assoc sites tree = .ok tree') :
    maskP (slotsOf sites) (renumV tree' n).1 = maskP (slotsOf sites) tree := by
  have hin : ∀ s ∈ sites, slotsOf sites s.parent s.field s.index = true := fun s hs => slotsOf_mem sites s hs
  have hf := applySites_fresh c assoc (slotsOf sites) sites tree tree' hin (fresh_of_noZero _ tree noq hz) h
  rw [renumbering_keeps_frame _ tree' n hf]
  exact applySites_in_slots c assoc (slotsOf sites) sites tree tree' hin h

end Gopatch
