import GopatchModel.Spec.Sound
/-
  Spec/Complete.lean — the converse of soundness for patterns without
  metavariables: every syntactic instance is accepted by the matcher, whatever
  data it is started with.  (For patterns with metavariables the matcher binds
  the first occurrence and compares the others against it; that case is covered
  by the differential tie, see DESIGN.md section 6, C01.)
-/
namespace Gopatch

mutual
/-- no identifier of the pattern is a declared metavariable -/
def ground (mt : Meta) : V → Bool
  | .iface _ v => ground mt v
  | .slice _ vs => groundL mt vs
  | .ptr t _ fs =>
      ignoredPtr t || (!(t == "ast.Ident" && (mt.look (identName fs)).isSome) && groundL mt fs)
  | _ => true
def groundL (mt : Meta) : List V → Bool
  | [] => true
  | v :: vs => ground mt v && groundL mt vs
end

theorem firstSome_of_mem {α β} (f : α → Option β) : ∀ (l : List α) (a : α) (b : β),
    a ∈ l → f a = some b → ∃ b', firstSome l f = some b'
  | [], _, _, h, _ => by simp at h
  | x :: xs, a, b, h, hf => by
      unfold firstSome
      cases hx : f x with
      | some b' => exact ⟨b', rfl⟩
      | none =>
        simp only
        rcases List.mem_cons.1 h with rfl | h'
        · rw [hf] at hx; cases hx
        · exact firstSome_of_mem f xs a b h' hf

theorem splits_mem {α} : ∀ (a b : List α), (a, b) ∈ splits (a ++ b)
  | [], [] => by simp [splits]
  | [], x :: xs => by simp [splits]
  | x :: a, b => by
      simp only [List.cons_append, splits, List.mem_cons, List.mem_map]
      right
      exact ⟨(a, b), splits_mem a b, rfl⟩

mutual
theorem matchV_complete (mt : Meta) (σ : Subst) : ∀ (p g : V), ground mt p = true → Inst mt σ p g →
    ∀ d, ∃ d', matchV mt p g d = some d'
  | .pos pv pk, g, _, hi, d => by
      cases hi
      rw [matchV.eq_def]; simp
  | .str s, g, _, hi, d => by cases hi; rw [matchV.eq_def]; simp
  | .int n, g, _, hi, d => by cases hi; rw [matchV.eq_def]; simp
  | .bool b, g, _, hi, d => by cases hi; rw [matchV.eq_def]; simp
  | .nilP t, g, _, hi, d => by
      rw [matchV.eq_def]
      cases hi with
      | ignoredNil _ _ h => simp [h]
      | nilP _ _ h => simp [h]
  | .nilI i, g, _, hi, d => by
      rw [matchV.eq_def]
      cases hi with
      | nilI _ _ h => simp [h]
  | .nilS e, g, _, hi, d => by
      rw [matchV.eq_def]
      cases hi with
      | nilS _ _ hd h => simp [hd, h]
      | nilSNil _ e' hd => simp [hd]
      | nilSEmpty _ e' hd => simp [hd]
  | .iface i pv, g, hg, hi, d => by
      cases hi with
      | iface _ j _ gv h1 =>
        rw [matchV.eq_def]; simp only
        rw [ground.eq_def] at hg; simp only at hg
        exact matchV_complete mt σ pv gv hg h1 d
  | .slice e ps, g, hg, hi, d => by
      rw [ground.eq_def] at hg; simp only at hg
      rw [matchV.eq_def]; simp only
      cases hi with
      | sliceDots _ e' _ gs hd hs =>
        simp only [hd, ↓reduceIte]
        exact matchSeq_complete' mt σ e ps gs hg hs d
      | sliceDotsNil _ e' _ hd hs =>
        simp only [hd, ↓reduceIte]
        exact matchSeq_complete' mt σ e ps [] hg hs d
      | slice _ e' _ gs hd hl =>
        simp only [hd, Bool.false_eq_true, ↓reduceIte]
        exact matchVs_complete mt σ ps gs hg hl d
      | sliceEmptyNil _ e' hd =>
        simp [hd]
  | .ptr t id fs, g, hg, hi, d => by
      rw [ground.eq_def] at hg; simp only at hg
      rw [matchV.eq_def]; simp only
      by_cases hig : ignoredPtr t = true
      · simp [hig]
      · simp only [hig, Bool.false_eq_true, ↓reduceIte]
        simp only [hig, Bool.false_or, Bool.and_eq_true, Bool.not_eq_true', Bool.and_eq_false_iff] at hg
        cases hi with
        | ignoredPtr _ _ _ _ h => exact absurd h hig
        | metavar _ _ k _ c hk =>
          rcases hg.1 with h | h
          · simp at h
          · simp [hk] at h
        | forDots _ _ _ k t' id' gs bi gb hk hbi hgb hn =>
          have hnid : (t == "ast.Ident") = false := by
            unfold forDotsKeyOf at hk
            by_cases ht : (t == "ast.ForStmt") = true
            · have : t = "ast.ForStmt" := by simpa using ht
              subst this; decide
            · simp [ht] at hk
          simp only [hnid, Bool.false_eq_true, ↓reduceIte, hk, hbi, hgb]
          exact matchNth_complete mt σ fs 4 gb hg.2 hn _
        | ptr _ _ id' _ gs hnone hfd hl =>
          by_cases hid : (t == "ast.Ident") = true
          · have : t = "ast.Ident" := by simpa using hid
            simp only [hid, ↓reduceIte, hnone this]
            simp only [beq_self_eq_true, ↓reduceIte]
            exact matchVs_complete mt σ fs gs hg.2 hl d
          · simp only [hid, Bool.false_eq_true, ↓reduceIte, hfd, beq_self_eq_true]
            exact matchVs_complete mt σ fs gs hg.2 hl d
theorem matchVs_complete (mt : Meta) (σ : Subst) : ∀ (ps gs : List V), groundL mt ps = true → InstList mt σ ps gs →
    ∀ d, ∃ d', matchVs mt ps gs d = some d'
  | [], gs, _, hi, d => by cases hi; rw [matchVs.eq_def]; simp
  | p :: ps, gs, hg, hi, d => by
      rw [groundL.eq_def] at hg; simp only [Bool.and_eq_true] at hg
      cases hi with
      | cons _ g _ gs' h1 h2 =>
        obtain ⟨d1, e1⟩ := matchV_complete mt σ p g hg.1 h1 d
        obtain ⟨d2, e2⟩ := matchVs_complete mt σ ps gs' hg.2 h2 d1
        exact ⟨d2, by rw [matchVs.eq_def]; simp [e1, e2]⟩
theorem matchSeq_complete' (mt : Meta) (σ : Subst) (e : String) : ∀ (ps gs : List V), groundL mt ps = true →
    InstSeq mt σ e ps gs → ∀ d, ∃ d', matchSeq mt e ps gs d = some d'
  | [], gs, _, hi, d => by cases hi; rw [matchSeq.eq_def]; simp
  | p :: ps, gs, hg, hi, d => by
      rw [groundL.eq_def] at hg; simp only [Bool.and_eq_true] at hg
      rw [matchSeq.eq_def]; simp only
      cases hi with
      | dots _ _ k _ run rest hk hs =>
        simp only [hk]
        obtain ⟨d2, e2⟩ := matchSeq_complete' mt σ e ps rest hg.2 hs (d.pushDots k run)
        exact firstSome_of_mem _ _ (run, rest) d2 (splits_mem run rest) e2
      | elem _ _ g _ gs' hk h1 hs =>
        simp only [hk]
        obtain ⟨d1, e1⟩ := matchV_complete mt σ p g hg.1 h1 d
        obtain ⟨d2, e2⟩ := matchSeq_complete' mt σ e ps gs' hg.2 hs d1
        exact ⟨d2, by simp [e1, e2]⟩
theorem matchNth_complete (mt : Meta) (σ : Subst) : ∀ (ps : List V) (i : Nat) (g : V), groundL mt ps = true →
    InstNth mt σ ps i g → ∀ d, ∃ d', matchNth mt ps i g d = some d'
  | [], _, _, _, hi, _ => by cases hi
  | p :: ps, 0, g, hg, hi, d => by
      rw [groundL.eq_def] at hg; simp only [Bool.and_eq_true] at hg
      cases hi with
      | here _ _ _ h => rw [matchNth.eq_def]; exact matchV_complete mt σ p g hg.1 h d
  | p :: ps, i + 1, g, hg, hi, d => by
      rw [groundL.eq_def] at hg; simp only [Bool.and_eq_true] at hg
      cases hi with
      | there _ _ _ _ h => rw [matchNth.eq_def]; exact matchNth_complete mt σ ps i g hg.2 h d
end

end Gopatch
