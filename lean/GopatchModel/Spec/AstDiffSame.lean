import GopatchModel.Spec.AstDiffSpec
/-
  Spec/AstDiffSame.lean — a tree that did not change reports nothing:
  `diff.Difference` on two lists that agree position by position returns the all-identity
  script, `compareNodes` finds two values that agree up to positions and comments equal, and
  `Walk` over them reports no region.
-/
namespace Gopatch.AD

def idPath (d : Nat) (es : List Ed) : Path := { dir := 1, x := d, y := d, es := es }
def endPath (n : Nat) : Path := { dir := -1, x := n, y := n, es := [] }

theorem idPath_app (d : Nat) (es : List Ed) : (idPath d es).app .id = idPath (d + 1) (.id :: es) := by
  simp [idPath, Path.app]

/-- along an equal diagonal the run of identities goes all the way -/
theorem runFwd_diag (f : Int → Int → Res) (n : Nat) (hf : ∀ i : Nat, i < n → (f i i).equal = true) :
    ∀ (fuel d : Nat) (es : List Ed), d ≤ n → n - d ≤ fuel →
      runFwd f fuel (idPath d es) (endPath n) = idPath n (List.replicate (n - d) .id ++ es)
  | 0, d, es, hd, hfuel => by
    have : d = n := by omega
    subst this
    simp [runFwd]
  | fuel + 1, d, es, hd, hfuel => by
    by_cases hlt : d < n
    · have h1 : ((idPath d es).x < (endPath n).x && (idPath d es).y < (endPath n).y) = true := by
        simp [idPath, endPath]; omega
      have h2 : (f (idPath d es).x (idPath d es).y).equal = true := by simpa [idPath] using hf d hlt
      rw [runFwd, if_pos h1, if_pos h2, idPath_app, runFwd_diag f n hf fuel (d + 1) (.id :: es) (by omega) (by omega)]
      have : n - d = (n - (d + 1)) + 1 := by omega
      rw [this, List.replicate_succ']
      simp
    · have : d = n := by omega
      subst this
      have h1 : ((idPath d es).x < (endPath d).x && (idPath d es).y < (endPath d).y) = false := by
        simp [idPath, endPath]
      rw [runFwd, h1]
      simp

theorem connectFwd_here (f : Int → Int → Res) (fuel : Nat) (p : Path) : connectFwd f fuel p p.x p.y = p := by
  cases fuel with
  | zero => rfl
  | succ n => simp [connectFwd]

def start0 (n : Nat) : DS :=
  { fwd := idPath 0 [], rev := endPath n, ffx := 0, ffy := 0, rfx := n, rfy := n, budget := 4 * (n + n) }

theorem fwdSearch_diag (f : Int → Int → Res) (n : Nat) (hn : 0 < n) (hf : ∀ i : Nat, i < n → (f i i).equal = true)
    (big fuel : Nat) (hbig : n ≤ big) :
    fwdSearch f big (fuel + 1) false false 0 (start0 n) =
      { start0 n with fwd := idPath n (List.replicate n .id), ffx := n, ffy := n } := by
  have hb : ((start0 n).budget == 0) = false := by simp [start0]; omega
  have hz : zigzag 0 = 0 := by decide
  have c1 : ((start0 n).ffx + zigzag 0 ≥ (start0 n).rev.x || (start0 n).ffy - zigzag 0 < (start0 n).fwd.y) = false := by
    simp [start0, hz, endPath, idPath]; omega
  have c2 : ((start0 n).ffy - zigzag 0 ≥ (start0 n).rev.y || (start0 n).ffx + zigzag 0 < (start0 n).fwd.x) = false := by
    simp [start0, hz, endPath, idPath]; omega
  have c3 : (f ((start0 n).ffx + zigzag 0) ((start0 n).ffy - zigzag 0)).equal = true := by
    simpa [start0, hz] using hf 0 hn
  rw [fwdSearch]
  simp only [Bool.false_and, Bool.false_or, hb, Bool.false_eq_true, ↓reduceIte, c1, c2, c3]
  have e1 : connectFwd f big (start0 n).fwd ((start0 n).ffx + zigzag 0) ((start0 n).ffy - zigzag 0) = idPath 0 [] := by
    have := connectFwd_here f big (idPath 0 [])
    simpa [start0, hz, idPath] using this
  rw [e1, idPath_app]
  have e2 : (start0 n).rev = endPath n := rfl
  rw [e2, runFwd_diag f n hf big 1 [.id] (by omega) (by omega)]
  have e3 : List.replicate (n - 1) Ed.id ++ [Ed.id] = List.replicate n Ed.id := by
    have : n = (n - 1) + 1 := by omega
    conv => rhs; rw [this, List.replicate_succ']
  rw [e3]
  simp [idPath]

theorem replicate_reverse {α} (n : Nat) (a : α) : (List.replicate n a).reverse = List.replicate n a := by
  simp

theorem rounds_diag (f : Int → Int → Res) (n : Nat) (hn : 0 < n) (hf : ∀ i : Nat, i < n → (f i i).equal = true)
    (b fuel : Nat) (hbig : n ≤ b + 1) :
    rounds f (b + 1) (fuel + 1) (start0 n) =
      { start0 n with fwd := idPath n (List.replicate n .id), ffx := (n : Int) + 1, ffy := n } := by
  rw [rounds]
  have d0 : dsDone (start0 n) = false := by simp [dsDone, start0]; omega
  simp only [d0, Bool.false_eq_true, ↓reduceIte]
  rw [fwdSearch_diag f n hn hf (b + 1) b hbig]
  have a1 : ((start0 n).rev.x - (n : Int) ≥ (start0 n).rev.y - (n : Int)) := by simp [start0, endPath]
  simp only [a1, ↓reduceIte]
  have d1 : dsDone { start0 n with fwd := idPath n (List.replicate n .id), ffx := (n : Int) + 1, ffy := n } = true := by
    simp [dsDone, start0]
  simp [d1]

/-- **`diff.Difference` on lists that agree position by position**: the all-identity script -/
theorem difference_diag (f : Int → Int → Res) (n : Nat) (hf : ∀ i : Nat, i < n → (f i i).equal = true) :
    difference n n f = (List.replicate n .id, false) := by
  by_cases hn : n = 0
  · subst hn
    simp [difference, rounds, dsDone, connectFwd]
  · have hn' : 0 < n := Nat.pos_of_ne_zero hn
    unfold difference
    simp only []
    have hs0 : ({ fwd := { dir := 1, x := 0, y := 0, es := [] }, rev := { dir := -1, x := (n : Int), y := (n : Int), es := [] },
                  ffx := 0, ffy := 0, rfx := (n : Int), rfy := (n : Int), budget := 4 * (n + n) } : DS) = start0 n := rfl
    rw [hs0]
    have hr := rounds_diag f n hn' hf (8 * (n + n) + 31) (8 * (n + n) + 31) (by omega)
    have hbig : 8 * (n + n) + 31 + 1 = 8 * (n + n) + 32 := by omega
    rw [hbig] at hr
    rw [hr]
    simp only []
    have e1 : (start0 n).rev = endPath n := rfl
    rw [e1]
    have e2 : connectFwd f (8 * (n + n) + 32) (idPath n (List.replicate n Ed.id)) (endPath n).x (endPath n).y
        = idPath n (List.replicate n Ed.id) := by
      have := connectFwd_here f (8 * (n + n) + 32) (idPath n (List.replicate n Ed.id))
      simpa [idPath, endPath] using this
    rw [e2]
    simp [endPath, idPath, start0]

/-! ### values that agree up to positions and comments -/

mutual
/-- the two values have the same types, the same nil-ness, the same basic values, token.Pos fields that are
both valid or both absent, and children that agree in the same way: the syntax did not change -/
def Same : AV → AV → Prop
  | .mk ty _ _ p _ _ nl pl _ kids, to =>
      ty = to.ty ∧ (ty = tyPos → ((p != 0) = posValid to)) ∧ nl = to.isNil ∧ pl = to.payload ∧ SameL kids to.kids
def SameL : List AV → List AV → Prop
  | [], [] => True
  | f :: fs, t :: ts => Same f t ∧ SameL fs ts
  | _, _ => False
end

theorem SameL_length : ∀ (fs ts : List AV), SameL fs ts → fs.length = ts.length
  | [], [], _ => rfl
  | [], _ :: _, h => by simp [SameL] at h
  | _ :: _, [], h => by simp [SameL] at h
  | f :: fs, t :: ts, h => by
    simp only [SameL] at h
    simp [SameL_length fs ts h.2]

theorem lookup_nat (m : List (List Res)) (i j : Nat) :
    lookup m (i : Int) (j : Int) = match m[i]? with
      | some row => (row[j]?).getD { diff := 2 }
      | none => { diff := 2 } := by
  unfold lookup
  have h1 : ¬ ((i : Int) < 0) := by omega
  have h2 : ¬ ((j : Int) < 0) := by omega
  cases h : m[i]? <;> simp [h1, h2, h]

theorem cmpRows_get (ts : List AV) : ∀ (fs : List AV) (i : Nat) (f : AV), fs[i]? = some f →
    (cmpRows fs ts)[i]? = some (ts.map (fun t => cmp f t))
  | [], i, f, h => by simp at h
  | g :: fs, 0, f, h => by
    simp only [List.getElem?_cons_zero, Option.some.injEq] at h
    subst h
    simp [cmpRows]
  | g :: fs, i + 1, f, h => by
    simp only [List.getElem?_cons_succ] at h
    simp [cmpRows, cmpRows_get ts fs i f h]

theorem lookup_cmpRows (fs ts : List AV) (i j : Nat) (f t : AV) (hf : fs[i]? = some f) (ht : ts[j]? = some t) :
    lookup (cmpRows fs ts) (i : Int) (j : Int) = cmp f t := by
  rw [lookup_nat, cmpRows_get ts fs i f hf]
  simp [ht]

theorem accumulate_ids (m : List (List Res)) : ∀ (k i : Nat) (acc : Res),
    (∀ t, t < k → (lookup m ((i + t : Nat) : Int) ((i + t : Nat) : Int)).diff = 0) →
    (accumulate m (List.replicate k .id) i i acc).diff = acc.diff
  | 0, i, acc, _ => by simp [accumulate]
  | k + 1, i, acc, h => by
    rw [List.replicate_succ, accumulate]
    rw [accumulate_ids m k (i + 1) _ (fun t ht => by
      have := h (t + 1) (by omega)
      have e : i + 1 + t = i + (t + 1) := by omega
      rw [e]; exact this)]
    have h0 := h 0 (by omega)
    simp only [Nat.add_zero] at h0
    simp [Res.add, h0]

mutual
/-- **`compareNodes` finds unchanged syntax equal** -/
theorem cmp_same : ∀ (src to : AV), Same src to → (cmp src to).diff = 0
  | .mk ty k isn p e cms nl pl en kids, to, h => by
    simp only [Same] at h
    obtain ⟨hty, hpos, hnl, hpl, hkids⟩ := h
    unfold cmp
    have e0 : (ty != to.ty) = false := by simp [hty]
    simp only [e0, Bool.false_eq_true, ↓reduceIte]
    split
    · rfl
    · split
      · rename_i hp
        have : ty = tyPos := by simpa using hp
        have hv := hpos this
        simp [hv]
      · split
        · split
          · rename_i hn
            have : nl == to.isNil := by simp [hnl]
            simp [this]
          · exact cmpElem_same kids to.kids hkids
        · split
          · have hlen := SameL_length kids to.kids hkids
            have hd := difference_diag (lookup (cmpRows kids to.kids)) kids.length (fun i hi => by
              have hi' : i < to.kids.length := hlen ▸ hi
              rw [lookup_cmpRows kids to.kids i i kids[i] to.kids[i] (by simp [hi]) (by simp [hi'])]
              have := cmpL_same kids to.kids hkids i kids[i] to.kids[i] (by simp [hi]) (by simp [hi'])
              simp [Res.equal, this])
            rw [← hlen, hd]
            simp only []
            rw [accumulate_ids]
            intro t ht
            simp only [Nat.zero_add]
            have ht' : t < to.kids.length := hlen ▸ ht
            rw [lookup_cmpRows kids to.kids t t kids[t] to.kids[t] (by simp [ht]) (by simp [ht'])]
            exact cmpL_same kids to.kids hkids t kids[t] to.kids[t] (by simp [ht]) (by simp [ht'])
          · split
            · exact cmpFields_same kids to.kids hkids
            · simp [hpl]
theorem cmpElem_same : ∀ (fs ts : List AV), SameL fs ts → (cmpElem fs ts).diff = 0
  | [], [], _ => by simp [cmpElem]
  | [], _ :: _, h => by simp [SameL] at h
  | _ :: _, [], h => by simp [SameL] at h
  | f :: fs, t :: ts, h => by
    simp only [SameL] at h
    simp only [cmpElem]
    exact cmp_same f t h.1
theorem cmpFields_same : ∀ (fs ts : List AV), SameL fs ts → (cmpFields fs ts).diff = 0
  | [], [], _ => by simp [cmpFields]
  | [], _ :: _, h => by simp [SameL] at h
  | _ :: _, [], h => by simp [SameL] at h
  | f :: fs, t :: ts, h => by
    simp only [SameL] at h
    simp only [cmpFields, Res.add]
    rw [cmp_same f t h.1, cmpFields_same fs ts h.2]
theorem cmpL_same : ∀ (fs ts : List AV), SameL fs ts → ∀ (i : Nat) (f t : AV), fs[i]? = some f → ts[i]? = some t →
    (cmp f t).diff = 0
  | [], [], _, i, f, t, hf, _ => by simp at hf
  | [], _ :: _, h, _, _, _, _, _ => by simp [SameL] at h
  | _ :: _, [], h, _, _, _, _, _ => by simp [SameL] at h
  | g :: fs, u :: ts, h, 0, f, t, hf, ht => by
    simp only [SameL] at h
    simp only [List.getElem?_cons_zero, Option.some.injEq] at hf ht
    subst hf; subst ht
    exact cmp_same _ _ h.1
  | g :: fs, u :: ts, h, i + 1, f, t, hf, ht => by
    simp only [SameL] at h
    simp only [List.getElem?_cons_succ] at hf ht
    exact cmpL_same fs ts h.2 i f t hf ht
end

/-! ### alignSlices and Walk on unchanged syntax -/

theorem findEqual_here (m : List (List Res)) (i mlen fuel : Nat) (hi : i < mlen)
    (he : (lookup m (i : Int) (i : Int)).equal = true) : findEqual m i mlen (fuel + 1) i = some i := by
  simp [findEqual, hi, he]

theorem gap_empty (m : List (List Res)) (i : Nat) : gap m i i i i = ([], false) := by
  unfold gap
  rw [Nat.sub_self]
  exact difference_diag _ 0 (fun i hi => by omega)

theorem alignLoop_diag (m : List (List Res)) (n : Nat)
    (hd : ∀ i : Nat, i < n → (lookup m (i : Int) (i : Int)).equal = true) :
    ∀ (fuel i : Nat) (es : List Ed), i ≤ n →
      alignLoop m n n fuel i i i i es false = (es ++ List.replicate (n - i) .id, false)
  | 0, i, es, hi => by
    have hg : gap m i n i n = (List.replicate (n - i) .id, false) := by
      unfold gap
      apply difference_diag
      intro t ht
      have := hd (i + t) (by omega)
      simpa [Int.natCast_add] using this
    simp [alignLoop, hg]
  | fuel + 1, i, es, hi => by
    by_cases hlt : i < n
    · have h1 : ¬ i ≥ n := by omega
      rw [alignLoop]
      simp only [h1, ↓reduceIte]
      have hl : lookahead = 63 + 1 := rfl
      rw [hl, findEqual_here m i n 63 hlt (hd i hlt)]
      simp only [gap_empty, Bool.or_self]
      rw [alignLoop_diag m n hd fuel (i + 1) _ (by omega)]
      have : n - i = (n - (i + 1)) + 1 := by omega
      rw [this, List.replicate_succ]
      simp
    · have : i = n := by omega
      subst this
      rw [alignLoop]
      simp [gap_empty]

/-- `alignSlices` on lists that agree position by position: every element is paired as identical -/
theorem alignSlices_diag (m : List (List Res)) (n : Nat)
    (hd : ∀ i : Nat, i < n → (lookup m (i : Int) (i : Int)).equal = true) :
    alignSlices m n n = (List.replicate n .id, false) := by
  unfold alignSlices
  rw [alignLoop_diag m n hd (n + 1) 0 [] (by omega)]
  simp

theorem fates_ids : ∀ (k j : Nat), fates (List.replicate (k + 1) Ed.id) j = Fate.same j :: fates (List.replicate k Ed.id) (j + 1) := by
  intro k j
  rw [List.replicate_succ, fates]

/-- elements that are all paired as identical report nothing -/
theorem walkFates_ids : ∀ (fl : List AV) (rl : List Rg) (k j : Nat) (ts : List AV),
    (walkFates rl (fates (List.replicate k Ed.id) j) fl ts).1 = []
  | [], rl, k, j, ts => by unfold walkFates; simp
  | f :: fs, [], k, j, ts => by unfold walkFates; simp
  | f :: fs, r :: rs, 0, j, ts => by
    simp only [List.replicate_zero, fates]
    unfold walkFates; simp
  | f :: fs, r :: rs, k + 1, j, ts => by
    rw [fates_ids]
    unfold walkFates
    simp only []
    exact walkFates_ids fs rs k (j + 1) _

mutual
/-- **Unchanged syntax reports nothing.** -/
theorem walk_same : ∀ (src : AV) (R : Rg) (to : AV), Same src to → (walk R src to).ch = []
  | .mk ty k isn p e cms nl pl en kids, R, to, h => by
    simp only [Same] at h
    obtain ⟨hty, hpos, hnl, hpl, hkids⟩ := h
    unfold walk
    have e0 : (ty != to.ty) = false := by simp [hty]
    simp only [e0, Bool.false_eq_true, ↓reduceIte]
    split
    · rfl
    · split
      · rfl
      · split
        · rename_i hp
          have : ty = tyPos := by simpa using hp
          have hv := hpos this
          simp [hv]
        · split
          · split
            · rfl
            · rename_i hn
              have : to.isNil = false := by rw [← hnl]; simpa using hn
              simp only [this, Bool.false_eq_true, ↓reduceIte]
              exact walkElem_same kids R to.kids hkids
          · split
            · split
              · have hlen := SameL_length kids to.kids hkids
                have : (kids.length != to.kids.length) = false := by simp [hlen]
                simp only [this, Bool.false_eq_true, ↓reduceIte]
                exact walkPlain_same kids R to.kids hkids
              · have hlen := SameL_length kids to.kids hkids
                have hd := alignSlices_diag (cmpRows kids to.kids) kids.length (fun i hi => by
                  have hi' : i < to.kids.length := hlen ▸ hi
                  rw [lookup_cmpRows kids to.kids i i kids[i] to.kids[i] (by simp [hi]) (by simp [hi'])]
                  have := cmpL_same kids to.kids hkids i kids[i] to.kids[i] (by simp [hi]) (by simp [hi'])
                  simp [Res.equal, this])
                simp only []
                rw [← hlen, hd]
                exact walkFates_ids kids _ kids.length 0 to.kids
            · split
              · exact walkFields_same kids _ to.kids hkids
              · simp [hpl]
theorem walkElem_same : ∀ (fs : List AV) (R : Rg) (ts : List AV), SameL fs ts → (walkElem R fs ts).2.1 = []
  | [], R, [], _ => by unfold walkElem; simp
  | [], _, _ :: _, h => by simp [SameL] at h
  | _ :: _, _, [], h => by simp [SameL] at h
  | f :: fs, R, t :: ts, h => by
    simp only [SameL] at h
    unfold walkElem
    exact walk_same f R t h.1
theorem walkPlain_same : ∀ (fs : List AV) (R : Rg) (ts : List AV), SameL fs ts → (walkPlain R fs ts).2.1 = []
  | [], R, [], _ => by unfold walkPlain; simp
  | [], _, _ :: _, h => by simp [SameL] at h
  | _ :: _, _, [], h => by simp [SameL] at h
  | f :: fs, R, t :: ts, h => by
    simp only [SameL] at h
    unfold walkPlain
    simp only []
    rw [walk_same f R t h.1, walkPlain_same fs R ts h.2]
    rfl
theorem walkFields_same : ∀ (fs : List AV) (rl : List Rg) (ts : List AV), SameL fs ts → (walkFields rl fs ts).2.1 = []
  | [], rl, [], _ => by unfold walkFields; simp
  | [], _, _ :: _, h => by simp [SameL] at h
  | _ :: _, _, [], h => by simp [SameL] at h
  | f :: fs, [], t :: ts, h => by unfold walkFields; simp
  | f :: fs, r :: rs, t :: ts, h => by
    simp only [SameL] at h
    unfold walkFields
    simp only []
    rw [walk_same f r t h.1, walkFields_same fs rs ts h.2]
    rfl
end

mutual
/-- every value agrees with itself -/
theorem same_refl : ∀ v, Same v v
  | .mk ty k isn p e cms nl pl en kids => by
    simp only [Same, AV.ty, AV.isNil, AV.payload, AV.kids, posValid, AV.pos]
    refine ⟨?_, ?_, ?_, ?_, sameL_refl kids⟩ <;> simp
theorem sameL_refl : ∀ vs, SameL vs vs
  | [] => trivial
  | v :: vs => ⟨same_refl v, sameL_refl vs⟩
end

end Gopatch.AD
