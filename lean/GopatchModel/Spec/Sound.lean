import GopatchModel.Spec.Inst
/-
  Spec/Sound.lean — the matcher is sound for the declarative instance relation:
  a successful match only adds metavariable bindings, and under any substitution
  that agrees with the final bindings the matched code is an instance of the
  pattern.
-/
namespace Gopatch

mutual
theorem eqvM_refl : ∀ v, eqvM v v = true
  | .pos _ _ => by simp [eqvM]
  | .str _ => by simp [eqvM]
  | .int _ => by simp [eqvM]
  | .bool _ => by simp [eqvM]
  | .nilP _ => by simp [eqvM, V.isNil]
  | .nilI _ => by simp [eqvM, V.isNil]
  | .nilS e => by
      rw [eqvM.eq_def]
      by_cases h : dotsElem e = true <;> simp [h, V.isNil]
  | .iface _ v => by rw [eqvM.eq_def]; simp [eqvM_refl v]
  | .slice _ vs => by rw [eqvM.eq_def]; simp [eqvMs_refl vs]
  | .ptr t _ fs => by rw [eqvM.eq_def]; simp [eqvMs_refl fs]
theorem eqvMs_refl : ∀ vs, eqvMs vs vs = true
  | [] => by simp [eqvMs]
  | v :: vs => by simp [eqvMs, eqvM_refl v, eqvMs_refl vs]
end

/-- bindings are only ever added -/
def Mono (d d' : Data) : Prop := ∀ n c, d.lookMv n = some c → d'.lookMv n = some c

theorem Mono.refl (d : Data) : Mono d d := fun _ _ h => h
theorem Mono.trans {a b c : Data} (h1 : Mono a b) (h2 : Mono b c) : Mono a c := fun n x h => h2 n x (h1 n x h)
theorem Ext.mono {d d' : Data} {σ : Subst} (h : Ext d' σ) (m : Mono d d') : Ext d σ := fun n c hc => h n c (m n c hc)

theorem mono_of_mv_eq {d d' : Data} (h : d'.mv = d.mv) : Mono d d' := by
  intro n c hc; simp only [Data.lookMv] at *; rw [h]; exact hc

theorem matchMetavar_spec (mt : Meta) (k : Kind) (id : Nat) (fs : List V) (g : V) (d d' : Data)
    (hk : mt.look (identName fs) = some k) (h : matchMetavar k (identName fs) g d = some d') :
    Mono d d' ∧ ∀ σ, Ext d' σ → Inst mt σ (.ptr "ast.Ident" id fs) g := by
  unfold matchMetavar at h
  split at h
  · cases h
  · rename_i hc
    simp only [Bool.or_eq_true, Bool.not_eq_true', not_or, Bool.not_eq_false, Bool.not_eq_true] at hc
    cases hl : d.lookMv (identName fs) with
    | some c =>
      simp only [hl] at h
      split at h
      · rename_i he
        cases h
        exact ⟨Mono.refl _, fun σ hσ => Inst.metavar id fs k g c hk hc.1 hc.2 (hσ _ _ hl) he⟩
      · cases h
    | none =>
      simp only [hl] at h
      cases h
      constructor
      · intro n c hn
        simp only [Data.lookMv, Data.pushMv, List.lookup_cons] at *
        by_cases hne : n = identName fs
        · subst hne; rw [hl] at hn; cases hn
        · have : (n == identName fs) = false := by simpa using hne
          simp [this, hn]
      · intro σ hσ
        have : (d.pushMv (identName fs) g).lookMv (identName fs) = some g := by
          simp [Data.lookMv, Data.pushMv, List.lookup_cons]
        exact Inst.metavar id fs k g g hk hc.1 hc.2 (hσ _ _ this) (eqvM_refl g)

end Gopatch

namespace Gopatch

/-- what a successful (sub)match guarantees -/
def Good (mt : Meta) (d d' : Data) (P : Subst → Prop) : Prop := Mono d d' ∧ ∀ σ, Ext d' σ → P σ

theorem firstSome_mem {α β} (f : α → Option β) : ∀ (l : List α) (b : β),
    firstSome l f = some b → ∃ a ∈ l, f a = some b
  | [], b, h => by simp [firstSome] at h
  | a :: as, b, h => by
      unfold firstSome at h
      cases hf : f a with
      | some b' => simp only [hf] at h; cases h; exact ⟨a, by simp, hf⟩
      | none =>
        simp only [hf] at h
        obtain ⟨a', ha, hb⟩ := firstSome_mem f as b h
        exact ⟨a', by simp [ha], hb⟩

theorem splits_cat {α} : ∀ (l a b : List α), (a, b) ∈ splits l → a ++ b = l
  | [], a, b, h => by simp [splits] at h; simp [h]
  | x :: xs, a, b, h => by
      simp only [splits, List.mem_cons, List.mem_map] at h
      rcases h with h | ⟨⟨a', b'⟩, hm, he⟩
      · cases h; rfl
      · cases he
        simp [splits_cat xs a' b' hm]

theorem mono_pushDots (d : Data) (k : Nat) (r : List V) : Mono d (d.pushDots k r) := mono_of_mv_eq rfl
theorem mono_pushPos (d : Data) (k : Nat) : Mono d (d.pushPos k) := mono_of_mv_eq rfl
theorem mono_pushFor (d : Data) (k : Nat) (f : ForData) : Mono d (d.pushFor k f) := mono_of_mv_eq rfl

mutual
theorem matchV_sound (mt : Meta) : ∀ (p g : V) (d d' : Data), matchV mt p g d = some d' →
    Mono d d' ∧ ∀ σ, Ext d' σ → Inst mt σ p g
  | .pos pv pk, g, d, d', h => by
      rw [matchV.eq_def] at h
      cases g <;> simp only at h <;> try (cases h)
      rename_i gv gk
      split at h
      · rename_i he
        have : pv = gv := by simpa using he
        subst this
        cases h
        refine ⟨?_, fun σ _ => Inst.pos _ _ _⟩
        split
        · exact mono_pushPos d pk
        · exact Mono.refl d
      · cases h
  | .str s, g, d, d', h => by
      rw [matchV.eq_def] at h
      cases g <;> simp only at h <;> try (cases h)
      split at h
      · rename_i he; cases h; have he' := beq_iff_eq.1 he; subst he'; exact ⟨Mono.refl _, fun σ _ => Inst.str _⟩
      · cases h
  | .int n, g, d, d', h => by
      rw [matchV.eq_def] at h
      cases g <;> simp only at h <;> try (cases h)
      split at h
      · rename_i he; cases h; have he' := beq_iff_eq.1 he; subst he'; exact ⟨Mono.refl _, fun σ _ => Inst.int _⟩
      · cases h
  | .bool b, g, d, d', h => by
      rw [matchV.eq_def] at h
      cases g <;> simp only at h <;> try (cases h)
      split at h
      · rename_i he; cases h; have he' := beq_iff_eq.1 he; subst he'; exact ⟨Mono.refl _, fun σ _ => Inst.bool _⟩
      · cases h
  | .nilP t, g, d, d', h => by
      rw [matchV.eq_def] at h
      simp only at h
      split at h
      · rename_i hc
        cases h
        refine ⟨Mono.refl _, fun σ _ => ?_⟩
        rcases Bool.or_eq_true _ _ ▸ hc with hi | hn
        · exact Inst.ignoredNil t g hi
        · exact Inst.nilP t g hn
      · cases h
  | .nilI i, g, d, d', h => by
      rw [matchV.eq_def] at h
      simp only at h
      split at h
      · rename_i hc; cases h; exact ⟨Mono.refl _, fun σ _ => Inst.nilI i g hc⟩
      · cases h
  | .nilS e, g, d, d', h => by
      rw [matchV.eq_def] at h
      simp only at h
      split at h
      · rename_i hde
        cases g with
        | nilS e' => cases h; exact ⟨Mono.refl _, fun σ _ => Inst.nilSNil e e' hde⟩
        | slice e' vs =>
          cases vs with
          | nil => cases h; exact ⟨Mono.refl _, fun σ _ => Inst.nilSEmpty e e' hde⟩
          | cons v vs => cases h
        | _ => cases h
      · rename_i hde
        split at h
        · rename_i hn; cases h; exact ⟨Mono.refl _, fun σ _ => Inst.nilS e g (by simpa using hde) hn⟩
        · cases h
  | .iface i pv, g, d, d', h => by
      rw [matchV.eq_def] at h
      cases g <;> simp only at h <;> try (cases h)
      rename_i j gv
      obtain ⟨m, hi⟩ := matchV_sound mt pv gv d d' h
      exact ⟨m, fun σ hσ => Inst.iface i j pv gv (hi σ hσ)⟩
  | .slice e ps, g, d, d', h => by
      rw [matchV.eq_def] at h
      simp only at h
      split at h
      · rename_i hde
        cases g <;> simp only at h <;> try (cases h)
        · rename_i e'
          obtain ⟨m, hi⟩ := matchSeq_sound' mt e ps [] d d' h
          exact ⟨m, fun σ hσ => Inst.sliceDotsNil e e' ps hde (hi σ hσ)⟩
        · rename_i e' gs
          obtain ⟨m, hi⟩ := matchSeq_sound' mt e ps gs d d' h
          exact ⟨m, fun σ hσ => Inst.sliceDots e e' ps gs hde (hi σ hσ)⟩
      · rename_i hde
        have hde' : dotsElem e = false := by simpa using hde
        cases g <;> simp only at h <;> try (cases h)
        · rename_i e'
          split at h
          · rename_i hem
            cases h
            have : ps = [] := by simpa using hem
            subst this
            exact ⟨Mono.refl _, fun σ _ => Inst.sliceEmptyNil e e' hde'⟩
          · cases h
        · rename_i e' gs
          obtain ⟨m, hi⟩ := matchVs_sound mt ps gs d d' h
          exact ⟨m, fun σ hσ => Inst.slice e e' ps gs hde' (hi σ hσ)⟩
  | .ptr t id fs, g, d, d', h => by
      rw [matchV.eq_def] at h
      simp only at h
      split at h
      · rename_i hig
        cases h
        exact ⟨Mono.refl _, fun σ _ => Inst.ignoredPtr t id fs g hig⟩
      · split at h
        · rename_i hid
          have ht : t = "ast.Ident" := by simpa using hid
          subst ht
          split at h
          · rename_i k hk
            exact matchMetavar_spec mt k id fs g d d' hk h
          · cases g <;> simp only at h <;> try (cases h)
            rename_i t' id' gs
            split at h
            · rename_i ht'
              have ht'' := beq_iff_eq.1 ht'
              subst ht''
              obtain ⟨m, hi⟩ := matchVs_sound mt fs gs d d' h
              exact ⟨m, fun σ hσ => Inst.ptr _ id id' fs gs (fun _ => by assumption) (by simp [forDotsKeyOf]) (hi σ hσ)⟩
            · cases h
        · split at h
          · rename_i k hk
            cases g <;> simp only at h <;> try (cases h)
            rename_i t' id' gs
            split at h
            · rename_i bi hbi
              split at h
              · rename_i gb hgb
                obtain ⟨m, hi⟩ := matchNth_sound mt fs 4 gb _ d' h
                exact ⟨(mono_pushFor d k _).trans m, fun σ hσ => Inst.forDots t id fs k t' id' gs bi gb hk hbi hgb (hi σ hσ)⟩
              · cases h
            · cases h
          · cases g <;> simp only at h <;> try (cases h)
            rename_i t' id' gs
            split at h
            · rename_i ht'
              have ht'' := beq_iff_eq.1 ht'
              subst ht''
              have hnid : ¬ (t == "ast.Ident") = true := by assumption
              have hfd : forDotsKeyOf t fs = none := by assumption
              obtain ⟨m, hi⟩ := matchVs_sound mt fs gs d d' h
              exact ⟨m, fun σ hσ => Inst.ptr _ id id' fs gs (fun he => absurd he (by simpa using hnid)) hfd (hi σ hσ)⟩
            · cases h
theorem matchVs_sound (mt : Meta) : ∀ (ps gs : List V) (d d' : Data), matchVs mt ps gs d = some d' →
    Mono d d' ∧ ∀ σ, Ext d' σ → InstList mt σ ps gs
  | [], [], d, d', h => by
      rw [matchVs.eq_def] at h; simp only at h; cases h
      exact ⟨Mono.refl _, fun σ _ => InstList.nil⟩
  | [], _ :: _, d, d', h => by rw [matchVs.eq_def] at h; simp only at h; cases h
  | _ :: _, [], d, d', h => by rw [matchVs.eq_def] at h; simp only at h; cases h
  | p :: ps, g :: gs, d, d', h => by
      rw [matchVs.eq_def] at h
      simp only [Option.bind_eq_some_iff] at h
      obtain ⟨d1, h1, h2⟩ := h
      obtain ⟨m1, i1⟩ := matchV_sound mt p g d d1 h1
      obtain ⟨m2, i2⟩ := matchVs_sound mt ps gs d1 d' h2
      exact ⟨m1.trans m2, fun σ hσ => InstList.cons p g ps gs (i1 σ (hσ.mono m2)) (i2 σ hσ)⟩
theorem matchSeq_sound' (mt : Meta) (e : String) : ∀ (ps gs : List V) (d d' : Data), matchSeq mt e ps gs d = some d' →
    Mono d d' ∧ ∀ σ, Ext d' σ → InstSeq mt σ e ps gs
  | [], gs, d, d', h => by
      rw [matchSeq.eq_def] at h
      simp only at h
      cases gs with
      | nil => simp at h; subst h; exact ⟨Mono.refl _, fun σ _ => InstSeq.nil e⟩
      | cons g gs => simp at h
  | p :: ps, gs, d, d', h => by
      rw [matchSeq.eq_def] at h
      simp only at h
      split at h
      · rename_i k hk
        obtain ⟨a, ha, hb⟩ := firstSome_mem _ _ _ h
        obtain ⟨m, hi⟩ := matchSeq_sound' mt e ps a.2 _ d' hb
        have hcat := splits_cat gs a.1 a.2 ha
        refine ⟨(mono_pushDots d k a.1).trans m, fun σ hσ => ?_⟩
        rw [← hcat]
        exact InstSeq.dots e p k ps a.1 a.2 hk (hi σ hσ)
      · rename_i hk
        cases gs with
        | nil => simp only at h; cases h
        | cons g gs' =>
          simp only [Option.bind_eq_some_iff] at h
          obtain ⟨d1, h1, h2⟩ := h
          obtain ⟨m1, i1⟩ := matchV_sound mt p g d d1 h1
          obtain ⟨m2, i2⟩ := matchSeq_sound' mt e ps gs' d1 d' h2
          exact ⟨m1.trans m2, fun σ hσ => InstSeq.elem e p g ps gs' hk (i1 σ (hσ.mono m2)) (i2 σ hσ)⟩
theorem matchNth_sound (mt : Meta) : ∀ (ps : List V) (i : Nat) (g : V) (d d' : Data), matchNth mt ps i g d = some d' →
    Mono d d' ∧ ∀ σ, Ext d' σ → InstNth mt σ ps i g
  | [], _, _, _, _, h => by rw [matchNth.eq_def] at h; simp only at h; cases h
  | p :: ps, 0, g, d, d', h => by
      rw [matchNth.eq_def] at h; simp only at h
      obtain ⟨m, hi⟩ := matchV_sound mt p g d d' h
      exact ⟨m, fun σ hσ => InstNth.here p g ps (hi σ hσ)⟩
  | p :: ps, i + 1, g, d, d', h => by
      rw [matchNth.eq_def] at h; simp only at h
      obtain ⟨m, hi⟩ := matchNth_sound mt ps i g d d' h
      exact ⟨m, fun σ hσ => InstNth.there p g ps i (hi σ hσ)⟩
end

end Gopatch
