import GopatchModel.Spec.All
import GopatchModel.Spec.Traverse
/-
  Spec/RefFile.lean — the reference matcher at file level: which nodes of a file
  are instances of a change's pattern although the engine's node matcher rejects
  them (`missedNodes`).  For patterns without elisions there are none.
-/
namespace Gopatch

/-- `nodeMatch` with the reference matcher in place of the engine's -/
def nodeMatchAll (c : Change) (d : Data) (n : V) : List Data :=
  if c.minus.kind == "stmts" then
    match n with
    | .ptr t _ fs =>
        (match stmtFieldIdx t with
         | some si =>
             (match fs[si]? with
              | some sv => allV c.mt (stmtPattern c c.minus) sv
                             { d with stmt := some { ty := t, stmtIdx := si, fields := fs } }
              | none => [])
         | none => [])
    | _ => []
  else allV c.mt c.minus.node n d

/-- whatever the engine's node matcher accepts, the reference matcher accepts -/
theorem nodeMatch_sub (c : Change) (d d' : Data) (n : V) (h : nodeMatch c d n = some d') : d' ∈ nodeMatchAll c d n := by
  unfold nodeMatch at h
  unfold nodeMatchAll
  split at h
  · rename_i hk
    simp only [hk, ↓reduceIte]
    cases n <;> simp only at h ⊢ <;> try (cases h)
    rename_i t id fs
    split at h
    · rename_i si hsi
      split at h
      · rename_i sv hsv
        simp only [hsi, hsv]
        exact matchV_sub _ _ _ _ _ h
      · cases h
    · cases h
  · rename_i hk
    simp only [hk, Bool.false_eq_true, ↓reduceIte]
    exact matchV_sub _ _ _ _ _ h

/-- the data the node matcher starts from (package and import guards), if the guards hold -/
def guardData (c : Change) (f : FileM) : Option Data :=
  if c.minus.pkg != "" && c.minus.pkg != f.pkg then none
  else (matchImports c.mt c.minus.imports f Data.empty).map
         (fun d => { d with matched := some (c.minus.imports.map (·.2)) })

/-- nodes (astutil.Apply pre-order) that are instances of the pattern but are not matched by the engine -/
def missedNodes (c : Change) (f : FileM) : List V :=
  match guardData c f with
  | none => []
  | some d =>
      match f.tree with
      | .ptr _ _ fs => (nodesL fs).filter (fun n => (nodeMatch c d n).isNone && !(nodeMatchAll c d n).isEmpty)
      | _ => []

/-- An expression or declaration pattern without elisions misses nothing: at every node the engine's matcher
and the reference matcher agree. -/
theorem no_elision_nothing_missed (c : Change) (f : FileM) (hk : (c.minus.kind == "stmts") = false)
    (hp : dotsFree c.minus.node = true) : missedNodes c f = [] := by
  unfold missedNodes
  cases guardData c f with
  | none => rfl
  | some d =>
    simp only
    cases f.tree <;> try rfl
    rename_i t id fs
    simp only
    apply List.filter_eq_nil_iff.2
    intro n _
    have : nodeMatchAll c d n = (nodeMatch c d n).toList := by
      unfold nodeMatchAll nodeMatch
      simp only [hk, Bool.false_eq_true, ↓reduceIte]
      exact allV_det c.mt c.minus.node n d hp
    rw [this]
    cases nodeMatch c d n <;> simp

end Gopatch
