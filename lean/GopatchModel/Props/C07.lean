import GopatchModel.Cli
namespace Gopatch.C07
open Gopatch

/-- Whatever the formatting tail returns as success parses, for every flag combination,
provided `imports.Process` only returns text it could parse (recorded assumption). -/
theorem finish_parses (o : Opts) (formatted : Except String String)
    (process : String → Except String String) (parsesB : String → Bool)
    (hproc : ∀ b b', process b = .ok b' → parsesB b' = true)
    (out : String) (h : finishFile o formatted process parsesB = .ok out) : parsesB out = true := by
  unfold finishFile at h
  split at h
  · cases h
  · rename_i bs
    by_cases hs : o.skipImports = true
    · simp only [hs, Bool.not_true] at h
      by_cases hp : parsesB bs = true
      · simp [hp] at h; cases h; exact hp
      · simp [hp] at h
    · simp only [hs] at h
      exact hproc bs out (by simpa using h)

/-- a rewrite whose text does not parse is an error for that file (never `ok`) when import
processing rejects unparseable input -/
theorem unparseable_is_error (o : Opts) (bs : String)
    (process : String → Except String String) (parsesB : String → Bool)
    (hrej : ∀ b, parsesB b = false → ∃ e, process b = .error e)
    (hbad : parsesB bs = false) :
    ∃ e, finishFile o (.ok bs) process parsesB = .error e := by
  unfold finishFile
  by_cases hs : o.skipImports = true
  · simp [hs, hbad]
  · obtain ⟨e, he⟩ := hrej bs hbad
    exact ⟨e, by simp [hs, he]⟩

/-- every byte string the loop writes or prints for a patched file is the checked output
of `finishFile` for that file -/
theorem emitted_is_checked (o : Opts) (dt) (f : FileIn) (p b : String)
    (h : Out.write p b ∈ stepFile o dt f) : ∃ cs, f.apply = .ok b cs := by
  unfold stepFile at h
  split at h
  · simp at h
  · split at h
    · simp at h
    · split at h
      · simp at h
      · split at h
        · by_cases hp : o.print = true <;> simp [hp] at h
        · by_cases hp : o.print = true <;> simp [hp] at h
        · simp at h
        · rename_i bytes comments hap
          by_cases hd : o.diff = true
          · simp [hd] at h
          · by_cases hp : o.print = true
            · simp [hd, hp] at h
            · simp [hd, hp] at h
              exact ⟨comments, by rw [hap, h.2]⟩

/-- a file whose rewrite failed the check contributes an error and is neither written nor printed -/
theorem formatErr_not_emitted (o : Opts) (dt) (f : FileIn) (c m : String)
    (hc : f.content = some c) (hp : f.parses = true) (hg : (o.skipGenerated && f.generated) = false)
    (ha : f.apply = .formatErr m) :
    writesOf (stepFile o dt f) = [] ∧
    (stepFile o dt f).filterMap (fun x => match x with | .stdout s => some s | _ => none) = [] ∧
    errorsOf (stepFile o dt f) ≠ [] := by
  unfold stepFile
  simp [hc, hp, hg, ha, writesOf, errorsOf]

end Gopatch.C07
