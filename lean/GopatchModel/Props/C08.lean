import GopatchModel.FileM
import GopatchModel.Finder
import GopatchModel.MetaP
namespace Gopatch.C08
open Gopatch

/-! ### the replacers never panic: every failure is an error value -/

def NoPanic {α} (r : R α) : Prop := ∀ e, r = .error e → ∃ m, e = Err.err m

theorem np_ok {α} (x : α) : NoPanic (.ok x : R α) := by
  intro e h; cases h

theorem np_err {α} (m : String) : NoPanic (.error (Err.err m) : R α) := by
  intro e h
  cases h
  exact ⟨m, rfl⟩

theorem np_bind {α β} (r : R α) (f : α → R β) (h1 : NoPanic r) (h2 : ∀ x, NoPanic (f x)) :
    NoPanic (r.bind f) := by
  intro e h
  cases r with
  | error e' =>
    simp only [Except.bind] at h
    injection h with h
    subst h
    exact h1 _ rfl
  | ok x =>
    simp only [Except.bind] at h
    exact h2 x e h

mutual
theorem replaceV_np (mt : Meta) (assoc : List (Nat × Nat)) : ∀ (p : V) (d : Data) (fb : Bool),
    NoPanic (replaceV mt assoc p d fb)
  | .pos pv pk, d, fb => by
      unfold replaceV
      split
      · exact np_ok _
      · split <;> exact np_ok _
  | .str _, _, _ => by unfold replaceV; exact np_ok _
  | .int _, _, _ => by unfold replaceV; exact np_ok _
  | .bool _, _, _ => by unfold replaceV; exact np_ok _
  | .nilP _, _, _ => by unfold replaceV; exact np_ok _
  | .nilI _, _, _ => by unfold replaceV; exact np_ok _
  | .nilS _, _, _ => by unfold replaceV; exact np_ok _
  | .iface i pv, d, fb => by
      unfold replaceV
      apply np_bind _ _ (replaceV_np mt assoc pv d fb)
      intro x
      split
      · exact np_ok _
      · exact np_err _
  | .slice e ps, d, fb => by
      unfold replaceV
      split
      · apply np_bind _ _ (replaceSeq_np mt assoc e ps d fb)
        intro x
        split <;> exact np_ok _
      · apply np_bind _ _ (replaceVs_np mt assoc ps d fb)
        intro x; exact np_ok _
  | .ptr t id fs, d, fb => by
      unfold replaceV
      split
      · exact np_ok _
      · split
        · exact np_err _
        · split
          · split
            · exact np_ok _
            · exact np_err _
          · split
            · split
              · apply np_bind _ _ (replaceNth_np mt assoc fs 4 d fb)
                intro x; exact np_ok _
              · exact np_err _
            · apply np_bind _ _ (replaceVs_np mt assoc fs d fb)
              intro x; exact np_ok _
theorem replaceVs_np (mt : Meta) (assoc : List (Nat × Nat)) : ∀ (ps : List V) (d : Data) (fb : Bool),
    NoPanic (replaceVs mt assoc ps d fb)
  | [], _, _ => by unfold replaceVs; exact np_ok _
  | p :: ps, d, fb => by
      unfold replaceVs
      apply np_bind _ _ (replaceV_np mt assoc p d fb)
      intro x
      split
      · exact np_err _
      · apply np_bind _ _ (replaceVs_np mt assoc ps d fb)
        intro xs; exact np_ok _
theorem replaceSeq_np (mt : Meta) (assoc : List (Nat × Nat)) (e : String) : ∀ (ps : List V) (d : Data) (fb : Bool),
    NoPanic (replaceSeq mt assoc e ps d fb)
  | [], _, _ => by unfold replaceSeq; exact np_ok _
  | p :: ps, d, fb => by
      unfold replaceSeq
      split
      · split
        · exact np_err _
        · apply np_bind _ _ (replaceSeq_np mt assoc e ps d _)
          intro x; exact np_ok _
      · apply np_bind _ _ (replaceV_np mt assoc p d fb)
        intro x
        split
        · exact np_err _
        · apply np_bind _ _ (replaceSeq_np mt assoc e ps d fb)
          intro y; exact np_ok _
theorem replaceNth_np (mt : Meta) (assoc : List (Nat × Nat)) : ∀ (ps : List V) (i : Nat) (d : Data) (fb : Bool),
    NoPanic (replaceNth mt assoc ps i d fb)
  | [], _, _, _ => by unfold replaceNth; exact np_err _
  | p :: _, 0, d, fb => by unfold replaceNth; exact replaceV_np mt assoc p d fb
  | _ :: ps, i+1, d, fb => by unfold replaceNth; exact replaceNth_np mt assoc ps i d fb
end

/-! ### the scanner that finds "..." terminates on every token stream -/

/-- `find` is total: for every token stream that ends with its EOF token there is a result.
(The definitions in `Finder.lean` are by well-founded recursion on the number of remaining
tokens; that Lean accepts them is the termination proof.) -/
theorem find_total (toks : List Fnd.Tok) (h : Fnd.wfB toks = true) : (Fnd.findTotal toks).isSome = true := by
  simp [Fnd.findTotal, h]

/-- The receiver loop as it was before the `fix:` commit (no EOF test), with explicit fuel. -/
def recvLoopOld : Nat → Fnd.St → Option Fnd.St
  | 0, _ => none
  | fuel + 1, s => if s.kind = .rparen then some s else recvLoopOld fuel s.next

/-- Before the fix the scan never left the loop once it had reached EOF: no amount of fuel
suffices on the token stream of the patch body `func (`. -/
theorem old_loop_spins (fuel : Nat) :
    recvLoopOld fuel { toks := [{ kind := .eof, off := 6, line := 1 }], augs := [] } = none := by
  induction fuel with
  | zero => rfl
  | succ n ih =>
    simp only [recvLoopOld]
    have : ({ toks := [{ kind := Fnd.K.eof, off := 6, line := 1 }], augs := [] } : Fnd.St).kind ≠ .rparen := by decide
    simp only [this, ↓reduceIte]
    exact ih

end Gopatch.C08
