import GopatchModel.FileM
namespace Gopatch.C01

/-- element-wise matching only succeeds on lists of equal length (an extra or a missing
argument is never matched by a pattern without elision) -/
theorem matchVs_length (mt : Meta) : ∀ (ps gs : List V) (d d' : Data),
    matchVs mt ps gs d = some d' → ps.length = gs.length
  | [], [], _, _, _ => rfl
  | [], _ :: _, _, _, h => by simp [matchVs] at h
  | _ :: _, [], _, _, h => by simp [matchVs] at h
  | p :: ps, g :: gs, d, d', h => by
      simp only [matchVs, Option.bind_eq_some_iff] at h
      obtain ⟨d1, _, h2⟩ := h
      simp [matchVs_length mt ps gs d1 d' h2]

end Gopatch.C01
