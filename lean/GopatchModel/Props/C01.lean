import GopatchModel.Spec.Sound
import GopatchModel.Spec.Traverse
import GopatchModel.Spec.Complete
import GopatchModel.Spec.RefFile
namespace Gopatch.C01
open Gopatch

/-- **Only instances are matched.** Whenever the matcher compiled from a pattern accepts a
piece of code, that code is a syntactic instance of the pattern: the same tree up to positions
(validity only), comments and resolved objects, with one global substitution for the
metavariables (the final bindings) and some run for every elision. -/
theorem match_only_instances (mt : Meta) (p g : V) (d d' : Data) (h : matchV mt p g d = some d') :
    Inst mt d'.mv p g :=
  (matchV_sound mt p g d d' h).2 d'.mv (fun _ _ hc => hc)

/-- The sites recorded for a file are exactly the nodes of the file — in traversal order,
whatever the function, nesting depth or syntactic position — at which the node matcher
succeeds, each tried with the same incoming data. -/
theorem sites_are_matching_nodes (c : Change) (d : Data) (id : Nat) (fs : List V) :
    (sitesFields (nodeMatch c d) id 0 fs).map (·.data) = (nodesL fs).filterMap (nodeMatch c d) :=
  sitesFields_data (nodeMatch c d) fs id 0

/-- every site of an expression / declaration pattern is an instance of the '-' pattern -/
theorem site_is_instance (c : Change) (d : Data) (id : Nat) (fs : List V) (hk : c.minus.kind ≠ "stmts")
    (s : Site) (hs : s ∈ sitesFields (nodeMatch c d) id 0 fs) :
    ∃ n ∈ nodesL fs, matchV c.mt c.minus.node n d = some s.data ∧ Inst c.mt s.data.mv c.minus.node n := by
  have hmem : s.data ∈ (sitesFields (nodeMatch c d) id 0 fs).map (·.data) := List.mem_map.2 ⟨s, hs, rfl⟩
  rw [sites_are_matching_nodes] at hmem
  obtain ⟨n, hn, hm⟩ := List.mem_filterMap.1 hmem
  have hk' : (c.minus.kind == "stmts") = false := by simpa using hk
  simp only [nodeMatch, hk', Bool.false_eq_true, ↓reduceIte] at hm
  exact ⟨n, hn, hm, match_only_instances _ _ _ _ _ hm⟩

/-- conversely every node of the file that the matcher accepts is a site (no instance is
skipped, including instances nested inside other instances) -/
theorem matching_node_is_site (c : Change) (d d' : Data) (id : Nat) (fs : List V) (n : V)
    (hn : n ∈ nodesL fs) (hm : nodeMatch c d n = some d') :
    d' ∈ (sitesFields (nodeMatch c d) id 0 fs).map (·.data) := by
  rw [sites_are_matching_nodes]
  exact List.mem_filterMap.2 ⟨n, hn, hm⟩

/-- **Every instance is matched** (patterns without metavariables): a piece of code that is a
syntactic instance of the pattern is accepted by the matcher, whatever bindings it starts from.
With `match_only_instances` this is an equivalence. -/
theorem ground_instance_is_matched (mt : Meta) (σ : Subst) (p g : V) (hg : ground mt p = true)
    (hi : Inst mt σ p g) (d : Data) : ∃ d', matchV mt p g d = some d' :=
  matchV_complete mt σ p g hg hi d

theorem ground_match_iff_instance (mt : Meta) (p g : V) (hg : ground mt p = true) (d : Data) :
    (∃ d', matchV mt p g d = some d') ↔ ∃ σ, Inst mt σ p g :=
  ⟨fun ⟨d', h⟩ => ⟨d'.mv, match_only_instances mt p g d d' h⟩,
   fun ⟨σ, h⟩ => matchV_complete mt σ p g hg h d⟩

/-- hence every node of the file that is an instance of a metavariable-free expression or
declaration pattern is a site, wherever it occurs -/
theorem ground_instance_is_site (c : Change) (d : Data) (id : Nat) (fs : List V) (σ : Subst) (n : V)
    (hk : c.minus.kind ≠ "stmts") (hg : ground c.mt c.minus.node = true)
    (hn : n ∈ nodesL fs) (hi : Inst c.mt σ c.minus.node n) :
    ∃ d', d' ∈ (sitesFields (nodeMatch c d) id 0 fs).map (·.data) := by
  obtain ⟨d', hm⟩ := matchV_complete c.mt σ c.minus.node n hg hi d
  refine ⟨d', matching_node_is_site c d d' id fs n hn ?_⟩
  have hk' : (c.minus.kind == "stmts") = false := by simpa using hk
  simp [nodeMatch, hk', hm]

/-! ### the converse with metavariables: the reference matcher and what the engine misses -/

/-- The reference matcher (every choice of runs for every elision, everywhere in the pattern) accepts
only instances … -/
theorem reference_only_instances (mt : Meta) (p g : V) (d d' : Data) (h : d' ∈ allV mt p g d) :
    Inst mt d'.mv p g :=
  (allV_sound mt p g d d' h).2 d'.mv (fun _ _ hc => hc)

/-- … and every instance: if the code is an instance under a substitution of well-typed code for the
metavariables (for any schema `sc` of the syntax tree types), the reference matcher has a result.
`isInstance` therefore decides "is a syntactic instance of the pattern". -/
theorem reference_accepts_every_instance (sc : Schema) (mt : Meta) (σ : Subst) (hσ : GoodSubst sc σ) (p g : V)
    (hi : Inst mt σ p g) (wg : wtv sc g = true) (ng : nf g = true) : isInstance mt p g Data.empty = true := by
  obtain ⟨d', hm, _⟩ := allV_complete sc mt σ hσ p g hi wg ng Data.empty (by intro n v h; simp [Data.lookMv, Data.empty] at h)
  unfold isInstance
  cases h : allV mt p g Data.empty with
  | nil => rw [h] at hm; simp at hm
  | cons _ _ => rfl

/-- both directions in one statement: on a well-typed tree in parser normal form the reference matcher has a result
**exactly when** the code is a syntactic instance of the pattern under some substitution of well-typed code -/
theorem reference_decides_instance (sc : Schema) (mt : Meta) (p g : V) (wg : wtv sc g = true) (ng : nf g = true) :
    isInstance mt p g Data.empty = true ↔ ∃ σ, GoodSubst sc σ ∧ Inst mt σ p g :=
  isInstance_iff sc mt p g wg ng

/-- what the engine's matcher accepts, the reference matcher accepts -/
theorem engine_within_reference (mt : Meta) (p g : V) (d d' : Data) (h : matchV mt p g d = some d') :
    d' ∈ allV mt p g d := matchV_sub mt p g d d' h

/-- **Every instance is matched** (patterns without elisions, repeated metavariables included): code that is
an instance under a substitution of well-typed code is accepted by the engine's matcher — a later
occurrence of a metavariable is compared with the first one, and on well-typed trees "matches the same
code" is Euclidean (`eqvM_euclid`). -/
theorem elision_free_instance_is_matched (sc : Schema) (mt : Meta) (σ : Subst) (hσ : GoodSubst sc σ) (p g : V)
    (hp : dotsFree p = true) (hi : Inst mt σ p g) (wg : wtv sc g = true) (ng : nf g = true) :
    ∃ d', matchV mt p g Data.empty = some d' := by
  obtain ⟨d', h, _⟩ := matchV_complete_nodots sc mt σ hσ p g hp hi wg ng Data.empty
    (by intro n v h; simp [Data.lookMv, Data.empty] at h)
  exact ⟨d', h⟩

/-- at file level: an expression or declaration pattern without elisions misses no node of the file -/
theorem elision_free_pattern_misses_nothing (c : Change) (f : FileM) (hk : (c.minus.kind == "stmts") = false)
    (hp : dotsFree c.minus.node = true) : missedNodes c f = [] :=
  no_elision_nothing_missed c f hk hp

/-! A concrete instance that the engine's matcher misses (known finding F22): the pattern
`foo(bar(..., x, ...), x)` and the code `foo(bar(1, 2), 2)`.  The inner list binds `x` to the first
argument of `bar`; that choice is never reconsidered when the outer `x` turns out to be `2`. -/

def ident (s : String) : V := .iface "ast.Expr" (.ptr "ast.Ident" 0 [.pos true 0, .str s, .nilP "ast.Object"])
def lit (s : String) : V := .iface "ast.Expr" (.ptr "ast.BasicLit" 0 [.pos true 0, .int 5, .str s])
def call (f : V) (args : List V) : V :=
  .iface "ast.Expr" (.ptr "ast.CallExpr" 0 [f, .pos true 0, .slice "ast.Expr" args, .pos false 0, .pos true 0])
def dots (k : Nat) : V := .iface "ast.Expr" (.ptr "pgo.Dots" 0 [.nilI "ast.Expr", .pos true k])

def f22Meta : Meta := [("x", .expr)]
def f22Pattern : V := call (ident "foo") [call (ident "bar") [dots 1, ident "x", dots 2], ident "x"]
def f22Code : V := call (ident "foo") [call (ident "bar") [lit "1", lit "2"], lit "2"]

/-- the property's converse fails on this input: it is an instance (the reference matcher accepts it, and
by `reference_only_instances` whatever it accepts is an instance) but the engine's matcher rejects it -/
theorem nested_elision_instance_missed :
    isInstance f22Meta f22Pattern f22Code Data.empty = true ∧ matchV f22Meta f22Pattern f22Code Data.empty = none := by
  constructor <;> decide +kernel

/-- the same code with `1` as last argument is matched: the first choice happens to fit -/
example : (matchV f22Meta f22Pattern (call (ident "foo") [call (ident "bar") [lit "1", lit "2"], lit "1"]) Data.empty).isSome = true := by
  decide +kernel

/-! ### code that differs from the pattern in a token is not an instance -/

/-- a different operator, token kind, channel direction (all stored as integers) -/
theorem int_differs (mt : Meta) (σ : Subst) (a b : Int) (h : Inst mt σ (.int a) (.int b)) : a = b := by
  cases h; rfl

/-- a different literal value or name -/
theorem str_differs (mt : Meta) (σ : Subst) (a b : String) (h : Inst mt σ (.str a) (.str b)) : a = b := by
  cases h; rfl

/-- presence of an optional token recorded as a position (variadic `...` of a call, alias `=` of a
type declaration, parentheses of a declaration group, the arrow of a channel type) must agree -/
theorem pos_validity_differs (mt : Meta) (σ : Subst) (v w : Bool) (k l : Nat)
    (h : Inst mt σ (.pos v k) (.pos w l)) : v = w := by
  cases h; rfl

/-- an extra or a missing element in a list without elision -/
theorem list_length_differs (mt : Meta) (σ : Subst) : ∀ (ps gs : List V), InstList mt σ ps gs → ps.length = gs.length
  | [], [], _ => rfl
  | _ :: ps, _ :: gs, h => by
      cases h with
      | cons _ _ _ _ _ ht => simp [list_length_differs mt σ ps gs ht]

/-- a node of another type (a call is not an index expression, `x++` is not `x--` …) -/
theorem node_type_differs (mt : Meta) (σ : Subst) (t t' : String) (id id' : Nat) (fs gs : List V)
    (hi : ignoredPtr t = false) (hm : t ≠ "ast.Ident") (hf : forDotsKeyOf t fs = none)
    (h : Inst mt σ (.ptr t id fs) (.ptr t' id' gs)) : t = t' := by
  cases h with
  | ignoredPtr _ _ _ _ h1 => simp [hi] at h1
  | metavar => exact absurd rfl hm
  | forDots _ _ _ k _ _ _ _ _ hk => simp [hf] at hk
  | ptr => rfl

/-- an optional part present in the code but absent in the pattern (or the reverse) -/
theorem nil_differs (mt : Meta) (σ : Subst) (t t' : String) (id : Nat) (gs : List V)
    (hi : ignoredPtr t = false) (h : Inst mt σ (.nilP t) (.ptr t' id gs)) : False := by
  cases h with
  | ignoredNil _ _ h1 => simp [hi] at h1
  | nilP _ _ h1 => simp [V.isNil] at h1

end Gopatch.C01
