import GopatchModel.FileM
namespace Gopatch.C02

/-- An `identifier` metavariable binds only a (non-nil) `*ast.Ident`, an `expression`
metavariable only a non-nil pointer whose type implements `ast.Expr`. -/
theorem metavar_kind (k : Kind) (name : String) (g : V) (d d' : Data)
    (h : matchMetavar k name g d = some d') :
    kindOK k g = true ∧ g.isNil = false := by
  unfold matchMetavar at h
  split at h
  · simp at h
  · rename_i hc
    simp only [Bool.or_eq_true, Bool.not_eq_true', not_or, Bool.not_eq_false, Bool.not_eq_true] at hc
    exact ⟨hc.1, hc.2⟩

/-- A second occurrence of a bound metavariable succeeds only on code that the captured
value's matcher accepts, and never changes the bindings. -/
theorem metavar_consistent (k : Kind) (name : String) (g c : V) (d d' : Data)
    (hb : d.lookMv name = some c) (h : matchMetavar k name g d = some d') :
    eqvM c g = true ∧ d' = d := by
  unfold matchMetavar at h
  split at h
  · simp at h
  · simp only [hb] at h
    split at h
    · rename_i he
      exact ⟨he, by simpa using h.symm⟩
    · simp at h

end Gopatch.C02
