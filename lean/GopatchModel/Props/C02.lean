import GopatchModel.Spec.Sound
import GopatchModel.Spec.Traverse
import GopatchModel.Spec.All
namespace Gopatch.C02
open Gopatch

/-- An `identifier` metavariable binds only a (non-nil) `*ast.Ident`, an `expression`
metavariable only a non-nil pointer whose type implements `ast.Expr`. -/
theorem metavar_kind (k : Kind) (name : String) (g : V) (d d' : Data)
    (h : matchMetavar k name g d = some d') :
    kindOK k g = true ∧ g.isNil = false := by
  unfold matchMetavar at h
  split at h
  · simp at h
  · rename_i hc
    simp only [Bool.or_eq_true, Bool.not_eq_true', not_or, Bool.not_eq_false, Bool.not_eq_true] at hc
    exact ⟨hc.1, hc.2⟩

/-- an identifier metavariable stands for a single identifier only -/
theorem ident_kind_is_ident (g : V) (h : kindOK .ident g = true) (hn : g.isNil = false) :
    ∃ id fs, g = .ptr "ast.Ident" id fs := by
  cases g <;> simp [kindOK, V.isNil] at h hn
  rename_i t id fs
  exact ⟨id, fs, by rw [h]⟩

/-- an expression metavariable stands for a single expression node only -/
theorem expr_kind_is_expr (g : V) (h : kindOK .expr g = true) (hn : g.isNil = false) :
    ∃ t id fs, g = .ptr t id fs ∧ isExprType t = true := by
  cases g <;> simp [kindOK, V.isNil] at h hn
  rename_i t id fs
  exact ⟨t, id, fs, rfl, h⟩

/-- A second occurrence of a bound metavariable succeeds only on code that the captured
value's matcher accepts, and never changes the bindings. -/
theorem metavar_consistent (k : Kind) (name : String) (g c : V) (d d' : Data)
    (hb : d.lookMv name = some c) (h : matchMetavar k name g d = some d') :
    eqvM c g = true ∧ d' = d := by
  unfold matchMetavar at h
  split at h
  · simp at h
  · simp only [hb] at h
    split at h
    · rename_i he
      exact ⟨he, by simpa using h.symm⟩
    · simp at h

/-- **One substitution for the whole pattern.** If the pattern matches, every occurrence of a
metavariable — anywhere in the pattern, at any depth — stands for code accepted by the matcher
of the *same* captured value `σ(name)`; names that are not declared are not metavariables at all. -/
theorem occurrences_agree (mt : Meta) (σ : Subst) (id : Nat) (fs : List V) (g : V) (k : Kind)
    (hk : mt.look (identName fs) = some k) (hi : Inst mt σ (.ptr "ast.Ident" id fs) g) :
    ∃ c, σ.lookup (identName fs) = some c ∧ eqvM c g = true ∧ kindOK k g = true ∧ g.isNil = false := by
  cases hi with
  | ignoredPtr _ _ _ _ h1 => simp [ignoredPtr] at h1
  | metavar _ _ k' _ c hk' hko hn hl he =>
    rw [hk] at hk'; cases hk'
    exact ⟨c, hl, he, hko, hn⟩
  | forDots _ _ _ k' _ _ _ _ _ hfd => simp [forDotsKeyOf] at hfd
  | ptr _ _ id' _ gs hnone _ _ =>
    rw [hnone rfl] at hk; cases hk

/-- a name that is not declared in the @@ section is ordinary code: it matches only an
identifier with the same name -/
theorem undeclared_is_code (mt : Meta) (σ : Subst) (id : Nat) (p0 o0 : V) (name : String) (g : V)
    (hk : mt.look name = none) (hi : Inst mt σ (.ptr "ast.Ident" id [p0, .str name, o0]) g) :
    ∃ id' p1 o1, g = .ptr "ast.Ident" id' [p1, .str name, o1] := by
  cases hi with
  | ignoredPtr _ _ _ _ h1 => simp [ignoredPtr] at h1
  | metavar _ _ k _ c hk' => simp [identName, hk] at hk'
  | forDots _ _ _ k' _ _ _ _ _ hfd => simp [forDotsKeyOf] at hfd
  | ptr _ _ id' _ gs _ _ hl =>
    cases hl with
    | cons _ g1 _ gs1 h1 hl1 =>
      cases hl1 with
      | cons _ g2 _ gs2 h2 hl2 =>
        cases hl2 with
        | cons _ g3 _ gs3 h3 hl3 =>
          cases hl3
          cases h2
          exact ⟨id', g1, g3, rfl⟩

/-- bindings made while trying one node never influence another node: every node of the file is
tried with the same incoming data, so whether (and with which bindings) a node is a site is a
function of that node alone -/
theorem attempts_independent (c : Change) (d : Data) (id : Nat) (fs : List V) :
    (sitesFields (nodeMatch c d) id 0 fs).map (·.data) = (nodesL fs).filterMap (nodeMatch c d) :=
  sitesFields_data (nodeMatch c d) fs id 0

/-- a failed attempt leaves no trace: the result of trying nodes `a ++ b` is the result of
trying `a` followed by the result of trying `b` -/
theorem attempts_compose (nm : V → Option Data) (a b : List V) :
    (a ++ b).filterMap nm = a.filterMap nm ++ b.filterMap nm := List.filterMap_append

/-- **Identical code at every occurrence is accepted.** "Stand for syntactically identical code" is stated
without an order: every occurrence matches one piece of code `c`.  The matcher compares later occurrences
with the *first* one instead; on well-typed syntax trees in parser normal form the two agree, because
"matches the same code" is Euclidean there. -/
theorem same_code_is_euclidean (sc : Schema) (c a b : V)
    (wc : wtv sc c = true) (wa : wtv sc a = true) (wb : wtv sc b = true) (na : nf a = true) (nb : nf b = true)
    (ta : c.tag = a.tag) (tb : c.tag = b.tag) (ha : eqvM c a = true) (hb : eqvM c b = true) : eqvM a b = true :=
  eqvM_euclid sc c a b wc wa wb na nb ta tb ha hb

/-- hence a later occurrence that stands for the same code as the earlier ones is never rejected, and the
bindings stay consistent with that code -/
theorem later_occurrence_accepted (sc : Schema) (σ : Subst) (hσ : GoodSubst sc σ) (k : Kind) (name : String) (g c : V)
    (d : Data) (hk : kindOK k g = true) (hn : g.isNil = false) (hl : σ.lookup name = some c) (he : eqvM c g = true)
    (wg : wtv sc g = true) (ng : nf g = true) (hc : Compat sc d σ) :
    ∃ d', matchMetavar k name g d = some d' ∧ Compat sc d' σ :=
  matchMetavar_complete sc σ hσ k name g c d hk hn hl he wg ng hc

/-- the hypotheses are satisfiable: a literal under the schema of `ast.BasicLit` is code a metavariable may stand for -/
def sc0 : Schema := { fields := fun t => if t == "ast.BasicLit" then some [.pos, .int, .str] else none, elem := fun _ => .str }
example : GoodV sc0 (.ptr "ast.BasicLit" 7 [.pos true 3, .int 5, .str "1"]) := by
  refine ⟨?_, ?_, ?_⟩ <;> decide +kernel

/-- without the typing hypothesis the Euclidean property fails (values no Go program can produce): a comment
group matches anything, two different strings do not match each other -/
example : eqvM (.ptr "ast.CommentGroup" 0 []) (.str "a") = true ∧ eqvM (.ptr "ast.CommentGroup" 0 []) (.str "b") = true ∧
    eqvM (.str "a") (.str "b") = false := by decide +kernel

end Gopatch.C02
