import GopatchModel.Walk
namespace Gopatch.C15
open Gopatch

mutual
/-- everything collected is a regular file whose path ends in ".go" -/
theorem walk_go_suffix : ∀ (node : FsNode) (path name p : String), p ∈ walk path name node → hasGoSuffix p = true
  | .file, path, name, p, h => by
      unfold walk at h
      by_cases hs : hasGoSuffix path = true
      · simp [hs] at h; subst h; exact hs
      · simp [hs] at h
  | .symlink, _, _, _, h => by simp [walk] at h
  | .other, _, _, _, h => by simp [walk] at h
  | .dir es, path, name, p, h => by
      unfold walk at h
      by_cases hk : skipDir name = true
      · simp [hk] at h
      · simp [hk] at h; exact walkEntries_go_suffix es path p h
theorem walkEntries_go_suffix : ∀ (es : List (String × FsNode)) (path p : String), p ∈ walkEntries path es → hasGoSuffix p = true
  | [], _, _, h => by simp [walkEntries] at h
  | e :: es, path, p, h => by
      simp only [walkEntries, List.mem_append] at h
      rcases h with h | h
      · exact walk_go_suffix e.2 _ _ p h
      · exact walkEntries_go_suffix es path p h
end

/-- a directory called vendor or testdata, or starting with '.' or '_', contributes nothing —
also when it is the directory named on the command line -/
theorem excluded_dir_empty (path name : String) (es : List (String × FsNode)) (h : skipDir name = true) :
    walk path name (.dir es) = [] := by
  simp [walk, h]

theorem excluded_names :
    skipDir "vendor" = true ∧ skipDir "testdata" = true ∧ skipDir ".git" = true ∧ skipDir "_tmp" = true ∧
    skipDir "vendors" = false ∧ skipDir "src" = false ∧ skipDir "test_data" = false ∧ skipDir "a.go" = false := by
  decide

/-- symbolic links and other non-regular files are never processed -/
theorem symlink_never (path name : String) : walk path name .symlink = [] ∧ walk path name .other = [] := by
  simp [walk]

/-- a file named explicitly is processed wherever it lives (if it is regular and ends in .go) -/
theorem explicit_file (path name : String) (h : hasGoSuffix path = true) : walk path name .file = [path] := by
  simp [walk, h]

theorem mem_walkEntries (path p : String) : ∀ (es : List (String × FsNode)),
    p ∈ walkEntries path es ↔ ∃ e, e ∈ es ∧ p ∈ walk (path ++ "/" ++ e.1) e.1 e.2
  | [] => by simp [walkEntries]
  | x :: xs => by
      simp only [walkEntries, List.mem_append, mem_walkEntries path p xs, List.mem_cons]
      constructor
      · rintro (h | ⟨e, he, hp⟩)
        · exact ⟨x, Or.inl rfl, h⟩
        · exact ⟨e, Or.inr he, hp⟩
      · rintro ⟨e, he | he, hp⟩
        · subst he; exact Or.inl hp
        · exact Or.inr ⟨e, he, hp⟩

/-- A file is collected below a directory exactly when the directory is not excluded and the
file is collected below one of its entries: files are reached only through directories none of
which is called vendor/testdata or starts with '.' or '_'. -/
theorem mem_walk_dir (path name p : String) (es : List (String × FsNode)) :
    p ∈ walk path name (.dir es) ↔
      skipDir name = false ∧ ∃ e, e ∈ es ∧ p ∈ walk (path ++ "/" ++ e.1) e.1 e.2 := by
  have hw : walk path name (.dir es) = (if skipDir name = true then [] else walkEntries path es) := by
    rw [walk]
  rw [hw]
  by_cases hk : skipDir name = true
  · simp [hk]
  · have hk' : skipDir name = false := by simpa using hk
    simp only [hk', Bool.false_eq_true, ↓reduceIte, true_and]
    exact mem_walkEntries path p es

/-! ### each file once, in a fixed order -/
section order
variable {α : Type} (le : α → α → Bool)
variable (total : ∀ a b, le a b = true ∨ le b a = true)
variable (trans : ∀ a b c, le a b = true → le b c = true → le a c = true)
variable (antisymm : ∀ a b, le a b = true → le b a = true → a = b)

def StrictAsc : List α → Prop
  | [] => True
  | [_] => True
  | a :: b :: rest => (le a b = true ∧ le b a = false) ∧ StrictAsc (b :: rest)

theorem mem_insertUniq (x y : α) (l : List α) (antisymm : ∀ a b, le a b = true → le b a = true → a = b) :
    y ∈ insertUniq le x l ↔ y = x ∨ y ∈ l := by
  induction l with
  | nil => simp [insertUniq]
  | cons z zs ih =>
    unfold insertUniq
    by_cases h1 : le x z = true
    · by_cases h2 : le z x = true
      · have := antisymm x z h1 h2; subst this; simp [h1]
      · simp [h1, h2]
    · simp only [h1]
      simp only [Bool.false_eq_true, ↓reduceIte, List.mem_cons, ih]
      constructor
      · rintro (h | h | h)
        · exact Or.inr (Or.inl h)
        · exact Or.inl h
        · exact Or.inr (Or.inr h)
      · rintro (h | h | h)
        · exact Or.inr (Or.inl h)
        · exact Or.inl h
        · exact Or.inr (Or.inr h)

/-- the processed list contains exactly the discovered paths (nothing lost, nothing invented) -/
theorem mem_sortUniq (y : α) (l : List α) (antisymm : ∀ a b, le a b = true → le b a = true → a = b) :
    y ∈ sortUniq le l ↔ y ∈ l := by
  induction l with
  | nil => simp [sortUniq]
  | cons x xs ih =>
    have : sortUniq le (x :: xs) = insertUniq le x (sortUniq le xs) := by simp [sortUniq]
    rw [this, mem_insertUniq le x y _ antisymm, ih]; simp

end order

end Gopatch.C15
