import GopatchModel.Walk
namespace Gopatch.C15
open Gopatch

mutual
/-- everything collected is a regular file whose path ends in ".go" -/
theorem walk_go_suffix : ∀ (node : FsNode) (path name p : String), p ∈ walk path name node → hasGoSuffix p = true
  | .file, path, name, p, h => by
      unfold walk at h
      by_cases hs : hasGoSuffix path = true
      · simp [hs] at h; subst h; exact hs
      · simp [hs] at h
  | .symlink, _, _, _, h => by simp [walk] at h
  | .other, _, _, _, h => by simp [walk] at h
  | .dir es, path, name, p, h => by
      unfold walk at h
      by_cases hk : skipDir name = true
      · simp [hk] at h
      · simp [hk] at h; exact walkEntries_go_suffix es path p h
theorem walkEntries_go_suffix : ∀ (es : List (String × FsNode)) (path p : String), p ∈ walkEntries path es → hasGoSuffix p = true
  | [], _, _, h => by simp [walkEntries] at h
  | e :: es, path, p, h => by
      simp only [walkEntries, List.mem_append] at h
      rcases h with h | h
      · exact walk_go_suffix e.2 _ _ p h
      · exact walkEntries_go_suffix es path p h
end

/-- a directory called vendor or testdata, or starting with '.' or '_', contributes nothing —
also when it is the directory named on the command line -/
theorem excluded_dir_empty (path name : String) (es : List (String × FsNode)) (h : skipDir name = true) :
    walk path name (.dir es) = [] := by
  simp [walk, h]

theorem excluded_names :
    skipDir "vendor" = true ∧ skipDir "testdata" = true ∧ skipDir ".git" = true ∧ skipDir "_tmp" = true ∧
    skipDir "vendors" = false ∧ skipDir "src" = false ∧ skipDir "test_data" = false ∧ skipDir "a.go" = false := by
  decide

/-- symbolic links and other non-regular files are never processed -/
theorem symlink_never (path name : String) : walk path name .symlink = [] ∧ walk path name .other = [] := by
  simp [walk]

/-- a file named explicitly is processed wherever it lives (if it is regular and ends in .go) -/
theorem explicit_file (path name : String) (h : hasGoSuffix path = true) : walk path name .file = [path] := by
  simp [walk, h]

theorem mem_walkEntries (path p : String) : ∀ (es : List (String × FsNode)),
    p ∈ walkEntries path es ↔ ∃ e, e ∈ es ∧ p ∈ walk (path ++ "/" ++ e.1) e.1 e.2
  | [] => by simp [walkEntries]
  | x :: xs => by
      simp only [walkEntries, List.mem_append, mem_walkEntries path p xs, List.mem_cons]
      constructor
      · rintro (h | ⟨e, he, hp⟩)
        · exact ⟨x, Or.inl rfl, h⟩
        · exact ⟨e, Or.inr he, hp⟩
      · rintro ⟨e, he | he, hp⟩
        · subst he; exact Or.inl hp
        · exact Or.inr ⟨e, he, hp⟩

/-- A file is collected below a directory exactly when the directory is not excluded and the
file is collected below one of its entries: files are reached only through directories none of
which is called vendor/testdata or starts with '.' or '_'. -/
theorem mem_walk_dir (path name p : String) (es : List (String × FsNode)) :
    p ∈ walk path name (.dir es) ↔
      skipDir name = false ∧ ∃ e, e ∈ es ∧ p ∈ walk (path ++ "/" ++ e.1) e.1 e.2 := by
  have hw : walk path name (.dir es) = (if skipDir name = true then [] else walkEntries path es) := by
    rw [walk]
  rw [hw]
  by_cases hk : skipDir name = true
  · simp [hk]
  · have hk' : skipDir name = false := by simpa using hk
    simp only [hk', Bool.false_eq_true, ↓reduceIte, true_and]
    exact mem_walkEntries path p es

/-! ### each file once, in a fixed order -/
section order
variable {α : Type} (le : α → α → Bool)
variable (total : ∀ a b, le a b = true ∨ le b a = true)
variable (trans : ∀ a b c, le a b = true → le b c = true → le a c = true)
variable (antisymm : ∀ a b, le a b = true → le b a = true → a = b)

/-- strictly ascending: every earlier element is strictly below every later one -/
def StrictAsc (l : List α) : Prop := l.Pairwise (fun a b => le a b = true ∧ le b a = false)

theorem mem_insertUniq (x y : α) (l : List α) (antisymm : ∀ a b, le a b = true → le b a = true → a = b) :
    y ∈ insertUniq le x l ↔ y = x ∨ y ∈ l := by
  induction l with
  | nil => simp [insertUniq]
  | cons z zs ih =>
    unfold insertUniq
    by_cases h1 : le x z = true
    · by_cases h2 : le z x = true
      · have := antisymm x z h1 h2; subst this; simp [h1]
      · simp [h1, h2]
    · simp only [h1]
      simp only [Bool.false_eq_true, ↓reduceIte, List.mem_cons, ih]
      constructor
      · rintro (h | h | h)
        · exact Or.inr (Or.inl h)
        · exact Or.inl h
        · exact Or.inr (Or.inr h)
      · rintro (h | h | h)
        · exact Or.inr (Or.inl h)
        · exact Or.inl h
        · exact Or.inr (Or.inr h)

/-- the processed list contains exactly the discovered paths (nothing lost, nothing invented) -/
theorem mem_sortUniq (y : α) (l : List α) (antisymm : ∀ a b, le a b = true → le b a = true → a = b) :
    y ∈ sortUniq le l ↔ y ∈ l := by
  induction l with
  | nil => simp [sortUniq]
  | cons x xs ih =>
    have : sortUniq le (x :: xs) = insertUniq le x (sortUniq le xs) := by simp [sortUniq]
    rw [this, mem_insertUniq le x y _ antisymm, ih]; simp

theorem insertUniq_strict (x : α) (l : List α)
    (total : ∀ a b, le a b = true ∨ le b a = true)
    (trans : ∀ a b c, le a b = true → le b c = true → le a c = true)
    (antisymm : ∀ a b, le a b = true → le b a = true → a = b)
    (h : StrictAsc le l) : StrictAsc le (insertUniq le x l) := by
  induction l with
  | nil => simp [insertUniq, StrictAsc]
  | cons z zs ih =>
    unfold StrictAsc at h ⊢
    have hz := List.pairwise_cons.1 h
    unfold insertUniq
    by_cases h1 : le x z = true
    · by_cases h2 : le z x = true
      · simp only [h1, h2, ↓reduceIte]; exact h
      · simp only [h1, h2, Bool.false_eq_true, ↓reduceIte]
        refine List.pairwise_cons.2 ⟨?_, h⟩
        intro y hy
        rcases List.mem_cons.1 hy with rfl | hy
        · exact ⟨h1, by simpa using h2⟩
        · have hzy := hz.1 y hy
          refine ⟨trans x z y h1 hzy.1, ?_⟩
          cases hyx : le y x with
          | false => rfl
          | true =>
            have : le y z = true := trans y x z hyx h1
            rw [hzy.2] at this; cases this
    · simp only [h1, Bool.false_eq_true, ↓reduceIte]
      have hzx : le z x = true := by
        rcases total x z with h' | h'
        · exact absurd h' h1
        · exact h'
      refine List.pairwise_cons.2 ⟨?_, ih hz.2⟩
      intro y hy
      rw [mem_insertUniq le x y zs antisymm] at hy
      rcases hy with rfl | hy
      · exact ⟨hzx, by simpa using h1⟩
      · exact hz.1 y hy

/-- **Each file once, in a fixed order**: the processed list is strictly ascending, hence free of
duplicates, whatever the order and multiplicity in which the arguments produced the paths -/
theorem sortUniq_strict (l : List α)
    (total : ∀ a b, le a b = true ∨ le b a = true)
    (trans : ∀ a b c, le a b = true → le b c = true → le a c = true)
    (antisymm : ∀ a b, le a b = true → le b a = true → a = b) : StrictAsc le (sortUniq le l) := by
  induction l with
  | nil => simp [sortUniq, StrictAsc]
  | cons x xs ih =>
    have : sortUniq le (x :: xs) = insertUniq le x (sortUniq le xs) := by simp [sortUniq]
    rw [this]
    exact insertUniq_strict le x _ total trans antisymm ih

/-- two strictly ascending lists with the same elements are the same list -/
theorem strict_unique (antisymm : ∀ a b, le a b = true → le b a = true → a = b) :
    ∀ (l1 l2 : List α), StrictAsc le l1 → StrictAsc le l2 → (∀ x, x ∈ l1 ↔ x ∈ l2) → l1 = l2
  | [], [], _, _, _ => rfl
  | [], y :: ys, _, _, h => by have := (h y).2 (by simp); simp at this
  | x :: xs, [], _, _, h => by have := (h x).1 (by simp); simp at this
  | x :: xs, y :: ys, h1, h2, h => by
      unfold StrictAsc at h1 h2
      have p1 := List.pairwise_cons.1 h1
      have p2 := List.pairwise_cons.1 h2
      have hxy : x = y := by
        have hx : x ∈ y :: ys := (h x).1 (by simp)
        have hy : y ∈ x :: xs := (h y).2 (by simp)
        rcases List.mem_cons.1 hx with e | hx'
        · exact e
        · rcases List.mem_cons.1 hy with e | hy'
          · exact e.symm
          · have a := p2.1 x hx'
            have b := p1.1 y hy'
            rw [b.1] at a; cases a.2
      subst hxy
      have hrest : ∀ z, z ∈ xs ↔ z ∈ ys := by
        intro z
        constructor
        · intro hz
          have := (h z).1 (by simp [hz])
          rcases List.mem_cons.1 this with e | e
          · subst e; have := p1.1 z hz; have h3 := this.2; rw [this.1] at h3; cases h3
          · exact e
        · intro hz
          have := (h z).2 (by simp [hz])
          rcases List.mem_cons.1 this with e | e
          · subst e; have := p2.1 z hz; have h3 := this.2; rw [this.1] at h3; cases h3
          · exact e
      rw [strict_unique antisymm xs ys p1.2 p2.2 hrest]

/-- the processed list is a function of the *set* of discovered paths: argument order, repeats
and overlapping arguments do not matter -/
theorem order_and_repeats_irrelevant (l1 l2 : List α)
    (total : ∀ a b, le a b = true ∨ le b a = true)
    (trans : ∀ a b c, le a b = true → le b c = true → le a c = true)
    (antisymm : ∀ a b, le a b = true → le b a = true → a = b)
    (hset : ∀ x, x ∈ l1 ↔ x ∈ l2) : sortUniq le l1 = sortUniq le l2 := by
  apply strict_unique le antisymm _ _ (sortUniq_strict le l1 total trans antisymm) (sortUniq_strict le l2 total trans antisymm)
  intro x
  rw [mem_sortUniq le x l1 antisymm, mem_sortUniq le x l2 antisymm]
  exact hset x

end order

end Gopatch.C15
