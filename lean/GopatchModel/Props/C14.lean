import GopatchModel.Cli
namespace Gopatch.C14
open Gopatch

/-- The effects of a run are the per-file effects in processing order: what happens for
one file does not depend on which other files are processed before or after it. -/
theorem file_independent (o : Opts) (dt) (a b : List FileIn) (f : FileIn) :
    runFiles o dt (a ++ f :: b) = runFiles o dt a ++ stepFile o dt f ++ runFiles o dt b := by
  simp [runFiles, List.flatMap_append]

/-- processing a file alone gives exactly its share of the grouped run -/
theorem solo_eq_share (o : Opts) (dt) (f : FileIn) : runFiles o dt [f] = stepFile o dt f := by
  simp [runFiles]

/-- the bytes written for a file are written in every run that contains it -/
theorem writes_independent (o : Opts) (dt) (a b : List FileIn) (f : FileIn) (p : String × String)
    (h : p ∈ writesOf (stepFile o dt f)) : p ∈ writesOf (runFiles o dt (a ++ f :: b)) := by
  rw [file_independent]
  unfold writesOf at *
  simp only [List.filterMap_append, List.mem_append]
  exact Or.inl (Or.inr h)

/-- the library API is a function of the file's bytes and its per-file outcome: every one
of `n` repeated calls returns the value a single call returns -/
theorem api_repeatable (src : String) (p : Bool) (a : Apply) (n : Nat) :
    ∀ r ∈ List.replicate n (applyApi src p a), r = applyApi src p a := by
  intro r hr
  exact List.eq_of_mem_replicate hr

end Gopatch.C14
