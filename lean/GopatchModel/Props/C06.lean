import GopatchModel.Cli
import GopatchModel.FileM
namespace Gopatch.C06
open Gopatch

/-- A readable, parseable file to which no change applies produces no write, no diff,
no description, no error; `--print-only` echoes exactly its original bytes. -/
theorem noMatch_no_effect (o : Opts) (dt : String → String → String → String) (f : FileIn)
    (content : String) (hc : f.content = some content) (hp : f.parses = true)
    (hm : f.apply = .noMatch) :
    writesOf (stepFile o dt f) = [] ∧
    stderrOf (stepFile o dt f) = [] ∧
    errorsOf (stepFile o dt f) = [] ∧
    (stepFile o dt f).filterMap (fun x => match x with | .stdout s => some s | _ => none)
      = (if o.print ∧ ¬ (o.skipGenerated ∧ f.generated) then [content] else []) := by
  unfold stepFile
  simp only [hc, hp, hm]
  by_cases hg : (o.skipGenerated && f.generated) = true
  · have hg' : o.skipGenerated = true ∧ f.generated = true := by simpa using hg
    simp [hg, hg', writesOf, stderrOf, errorsOf]
  · have hg' : ¬ (o.skipGenerated = true ∧ f.generated = true) := by simpa using hg
    by_cases hpr : o.print = true
    · simp [hg, hg', hpr, writesOf, stderrOf, errorsOf]
    · simp [hg, hg', hpr, writesOf, stderrOf, errorsOf]

/-- effects of a run are the concatenation of per-file effects -/
theorem writes_append (o : Opts) (dt) (a b : List FileIn) :
    writesOf (runFiles o dt (a ++ b)) = writesOf (runFiles o dt a) ++ writesOf (runFiles o dt b) := by
  simp [runFiles, writesOf, List.flatMap_append, List.filterMap_append]

/-- If nothing matches in any file (all readable and parseable), the run writes nothing,
reports nothing and exits 0. -/
theorem all_noMatch_exit0 (o : Opts) (dt) (fs : List FileIn)
    (h : ∀ f ∈ fs, (∃ c, f.content = some c) ∧ f.parses = true ∧ f.apply = .noMatch) :
    writesOf (runFiles o dt fs) = [] ∧ stderrOf (runFiles o dt fs) = [] ∧ exitOf (runFiles o dt fs) = 0 := by
  induction fs with
  | nil => simp [runFiles, writesOf, stderrOf, exitOf, errorsOf]
  | cons f fs ih =>
    obtain ⟨⟨c, hc⟩, hp, hm⟩ := h f (by simp)
    have ih' := ih (fun g hg => h g (by simp [hg]))
    have h1 := noMatch_no_effect o dt f c hc hp hm
    have e : runFiles o dt (f :: fs) = stepFile o dt f ++ runFiles o dt fs := by simp [runFiles]
    have he0 : errorsOf (runFiles o dt fs) = [] := by
      have := ih'.2.2; unfold exitOf at this
      by_cases hh : (errorsOf (runFiles o dt fs)).isEmpty = true
      · simpa using hh
      · simp [hh] at this
    have hs := h1.2.2.1
    unfold errorsOf at hs he0
    simp only [List.append_eq_nil_iff] at hs he0
    refine ⟨?_, ?_, ?_⟩
    · rw [e]; simp [writesOf, List.filterMap_append] at *; exact ⟨h1.1, ih'.1⟩
    · rw [e]; simp [stderrOf, List.filterMap_append] at *; exact ⟨h1.2.1, ih'.2.1⟩
    · rw [e]; unfold exitOf errorsOf
      simp only [List.filterMap_append, hs.1, hs.2, he0.1, he0.2]
      simp

/-- the library API returns the input bytes unchanged when nothing matches -/
theorem api_noMatch (src : String) : applyApi src true .noMatch = .ok src := by
  simp [applyApi]

/-- **No change applies, nothing happens to the tree.** When none of the changes of the run matches the file (its guards
fail or its pattern occurs nowhere), the change loop of the command line hands back the very tree it was given, reports no
match and no error - which is the outcome `.noMatch` the per-file step above starts from - and so does the library's loop. -/
theorem no_change_applies_means_unmatched (dmg : Change → FileM → FileM) :
    ∀ (cs : List Change) (f : FileM) (m : Bool), (∀ c ∈ cs, fileMatch c f = none) →
      applyChangesCli cs f m = (f, m, none) ∧ applyChangesApi dmg cs f m [] = (f, m, [])
  | [], f, m, _ => by simp [applyChangesCli, applyChangesApi]
  | c :: cs, f, m, h => by
    have hc : applyChange c f = .noMatch := by simp [applyChange, h c (List.mem_cons_self)]
    have ih := no_change_applies_means_unmatched dmg cs f m (fun x hx => h x (List.mem_cons_of_mem _ hx))
    simp [applyChangesCli, applyChangesApi, hc, ih.1, ih.2]

def sampleFile : FileIn :=
  { abs := "/a.go"
    provided := "a.go"
    content := some "package a\r\n"
    parses := true
    generated := false
    apply := .noMatch }

/-- non-vacuity: a concrete unmatched file in print mode echoes its bytes -/
example : stepFile { print := true } (fun _ _ _ => "") sampleFile
    = [.stdout "package a\r\n", .log "/a.go: skipped"] := by
  decide

end Gopatch.C06
