import GopatchModel.Cli
import GopatchModel.Write
namespace Gopatch.C16
open Gopatch

def containsSub (s sub : String) : Bool := (s.splitOn sub).length > 1

theorem mem_errorsOf (outs : List Out) (s : String) :
    s ∈ errorsOf outs ↔ (Out.error s ∈ outs ∨ Out.lateError s ∈ outs) := by
  unfold errorsOf
  simp only [List.mem_append, List.mem_filterMap]
  constructor
  · rintro (⟨x, hx, he⟩ | ⟨x, hx, he⟩)
    · cases x <;> simp at he; subst he; exact Or.inl hx
    · cases x <;> simp at he; subst he; exact Or.inr hx
  · rintro (h | h)
    · exact Or.inl ⟨_, h, rfl⟩
    · exact Or.inr ⟨_, h, rfl⟩

theorem error_makes_exit1 (o : Opts) (dt) (a b : List FileIn) (f : FileIn)
    (h : errorsOf (stepFile o dt f) ≠ []) : exitOf (runFiles o dt (a ++ f :: b)) = 1 := by
  have e : runFiles o dt (a ++ f :: b) = runFiles o dt a ++ stepFile o dt f ++ runFiles o dt b := by
    simp [runFiles, List.flatMap_append]
  obtain ⟨s, hs⟩ := List.exists_mem_of_ne_nil _ h
  have hs' : s ∈ errorsOf (runFiles o dt (a ++ f :: b)) := by
    rw [mem_errorsOf] at hs ⊢
    rw [e]
    simp only [List.mem_append]
    rcases hs with hs | hs
    · exact Or.inl (Or.inl (Or.inr hs))
    · exact Or.inr (Or.inl (Or.inr hs))
  unfold exitOf
  split
  · rename_i hh
    rw [List.isEmpty_iff] at hh
    rw [hh] at hs'
    simp at hs'
  · rfl

/-- An unreadable file, a file that does not parse, a failed rewrite and a failed
re-format each contribute an error (so exit status is 1 wherever the file sits in the run). -/
theorem failures_reported (o : Opts) (dt) (f : FileIn)
    (h : f.content = none ∨ f.parses = false ∨
         ((o.skipGenerated && f.generated) = false ∧
           ((∃ m, f.apply = .replaceErr m) ∨ (∃ m, f.apply = .formatErr m)))) :
    errorsOf (stepFile o dt f) ≠ [] := by
  unfold stepFile errorsOf
  rcases h with h | h | ⟨hg, h | h⟩
  · simp [h]
  · cases hc : f.content <;> simp [h]
  · obtain ⟨m, hm⟩ := h
    cases hc : f.content with
    | none => simp
    | some c =>
      cases hp : f.parses with
      | false => simp
      | true =>
        by_cases hpr : o.print = true <;> simp [hg, hm, hpr, List.filterMap_append]
  · obtain ⟨m, hm⟩ := h
    cases hc : f.content with
    | none => simp
    | some c =>
      cases hp : f.parses with
      | false => simp
      | true => simp [hg, hm]

/-- a file that does not parse is skipped without touching anything else: its own step
emits nothing but the error -/
theorem parse_failure_isolated (o : Opts) (dt) (f : FileIn) (c : String)
    (hc : f.content = some c) (hp : f.parses = false) :
    stepFile o dt f = [.error s!"could not parse {f.abs}"] := by
  unfold stepFile; simp [hc, hp]

/-- exit status 0 means every file was read, parsed and either patched, unmatched or
legitimately skipped as generated -/
theorem exit0_all_processed (o : Opts) (dt) (fs : List FileIn) (h : exitOf (runFiles o dt fs) = 0) :
    ∀ f ∈ fs, (∃ c, f.content = some c) ∧ f.parses = true ∧
      ((o.skipGenerated && f.generated) = true ∨ f.apply = .noMatch ∨ ∃ b cs, f.apply = .ok b cs) := by
  intro f hf
  obtain ⟨a, b, rfl⟩ := List.append_of_mem hf
  have hne : ¬ errorsOf (stepFile o dt f) ≠ [] := by
    intro hne
    have := error_makes_exit1 o dt a b f hne
    omega
  have hrep := fun hh => hne (failures_reported o dt f hh)
  refine ⟨?_, ?_, ?_⟩
  · cases hc : f.content with
    | none => exact absurd (Or.inl hc) hrep
    | some c => exact ⟨c, rfl⟩
  · cases hp : f.parses with
    | false => exact absurd (Or.inr (Or.inl hp)) hrep
    | true => rfl
  · by_cases hg : (o.skipGenerated && f.generated) = true
    · exact Or.inl hg
    · have hg' : (o.skipGenerated && f.generated) = false := by simpa using hg
      right
      cases ha : f.apply with
      | noMatch => exact Or.inl rfl
      | ok b cs => exact Or.inr ⟨b, cs, rfl⟩
      | replaceErr m => exact absurd (Or.inr (Or.inr ⟨hg', Or.inl ⟨m, ha⟩⟩)) hrep
      | formatErr m => exact absurd (Or.inr (Or.inr ⟨hg', Or.inr ⟨m, ha⟩⟩)) hrep

/-! ### the write itself -/

theorem target_kept (steps : List WStep) (h : ∀ s ∈ steps, s ≠ WStep.rename) (d : Disk) :
    (runSteps d steps).target = d.target := by
  induction steps generalizing d with
  | nil => rfl
  | cons s ss ih =>
    simp only [runSteps, List.foldl_cons]
    have h1 : (wstep d s).target = d.target := by
      cases s <;> simp [wstep] at * 
    have := ih (fun x hx => h x (by simp [hx])) (wstep d s)
    simp only [runSteps] at this
    rw [this, h1]

theorem writes_tmp (cs : List String) (d : Disk) (t : List String) (h : d.tmp = some t) :
    runSteps d (cs.map .write) = { d with tmp := some (t ++ cs) } := by
  induction cs generalizing d t with
  | nil => cases d; simp_all [runSteps]
  | cons c cs ih =>
    simp only [List.map_cons, runSteps, List.foldl_cons]
    have := ih (wstep d (.write c)) (t ++ [c]) (by simp [wstep, h])
    simp only [runSteps] at this
    rw [this]
    simp [wstep]

theorem pre_result (orig chunks : List String) :
    runSteps { target := orig, tmp := none } (preSteps chunks) = { target := orig, tmp := some chunks } := by
  simp only [preSteps, runSteps, List.foldl_cons, List.foldl_append, wstep]
  have := writes_tmp chunks { target := orig, tmp := some [] } [] rfl
  simp only [runSteps] at this
  rw [this]
  simp [wstep]

/-- **Atomicity.** Whatever the number of steps completed before a fault or a crash, the
target file holds either its original content or the complete new content. -/
theorem atomic_write (orig chunks : List String) (k : Nat) :
    let d := runSteps { target := orig, tmp := none } ((atomicSteps chunks).take k)
    d.target = orig ∨ d.target = chunks := by
  intro d
  by_cases hk : k ≤ (preSteps chunks).length
  · left
    have e : (atomicSteps chunks).take k = (preSteps chunks).take k := by
      unfold atomicSteps; exact List.take_append_of_le_length hk
    show (runSteps _ ((atomicSteps chunks).take k)).target = orig
    rw [e]
    apply target_kept
    intro s hs
    have hs' := List.mem_of_mem_take hs
    simp only [preSteps, List.mem_cons, List.mem_append, List.mem_map] at hs'
    rcases hs' with rfl | ⟨c, _, rfl⟩ | rfl | rfl | h
    all_goals first | (simp at h) | simp
  · right
    have e : (atomicSteps chunks).take k = atomicSteps chunks := by
      apply List.take_of_length_le
      simp only [atomicSteps, List.length_append, List.length_singleton]
      omega
    show (runSteps _ ((atomicSteps chunks).take k)).target = chunks
    rw [e]
    simp only [atomicSteps, runSteps, List.foldl_append]
    have := pre_result orig chunks
    simp only [runSteps] at this
    rw [this]
    simp [wstep]

/-- after a fault the error path removes the temporary file and the target is the original -/
theorem fault_keeps_original (orig chunks : List String) (k : Nat) (hk : k ≤ (preSteps chunks).length) :
    (cleanup (runSteps { target := orig, tmp := none } ((atomicSteps chunks).take k))) = { target := orig, tmp := none } := by
  have e : (atomicSteps chunks).take k = (preSteps chunks).take k := by
    unfold atomicSteps; exact List.take_append_of_le_length hk
  rw [e]
  have ht : (runSteps { target := orig, tmp := none } ((preSteps chunks).take k)).target = orig := by
    apply target_kept
    intro s hs
    have hs' := List.mem_of_mem_take hs
    simp only [preSteps, List.mem_cons, List.mem_append, List.mem_map] at hs'
    rcases hs' with rfl | ⟨c, _, rfl⟩ | rfl | rfl | h
    all_goals first | (simp at h) | simp
  cases hd : runSteps { target := orig, tmp := none } ((preSteps chunks).take k) with
  | mk t tmp => simp [cleanup, hd] at ht ⊢; exact ht

/-- The behaviour before the `fix:` (os.WriteFile in place) does not have the property:
a fault right after the truncation leaves an empty file. -/
theorem inplace_not_atomic :
    ∃ (orig chunks : List String) (k : Nat),
      let t := ((inplaceSteps chunks).take k).foldl istep orig
      t ≠ orig ∧ t ≠ chunks :=
  ⟨["package a\n"], ["package b\n"], 1, by decide⟩

end Gopatch.C16
