import GopatchModel.MetaP
import GopatchModel.Spec.LoaderSpec
namespace Gopatch.C19
open Gopatch.Sec

/-- `validateChangeName` reports the byte index of the first rune that may not stand in a change name, and the
byte found there: the reported index lies in the name, the byte at it is the reported one, and the rune that
starts there is not a valid one (letters and digits outside ASCII according to the Unicode parameter `u`) -/
theorem validateName_spec (u : Uni) : ∀ (fuel : Nat) (name : Bytes) (i j : Nat) (ch : UInt8),
    validateName u fuel i name = some (j, ch) →
      i ≤ j ∧ name[j - i]? = some ch ∧ validRune u j (decodeRune (name.drop (j - i))).1 = false
  | 0, name, i, j, ch, h => by simp [validateName] at h
  | fuel + 1, [], i, j, ch, h => by simp [validateName] at h
  | fuel + 1, b :: bs, i, j, ch, h => by
      unfold validateName at h
      simp only at h
      by_cases hv : validRune u i (decodeRune (b :: bs)).1 = true
      · rw [if_pos hv] at h
        obtain ⟨h1, h2, h3⟩ := validateName_spec u fuel _ _ j ch h
        have hji : j - i = (decodeRune (b :: bs)).2 + (j - (i + (decodeRune (b :: bs)).2)) := by omega
        refine ⟨by omega, ?_, ?_⟩
        · rw [List.getElem?_drop] at h2
          rw [hji]; exact h2
        · rw [List.drop_drop] at h3
          rw [hji]
          have : (decodeRune (b :: bs)).2 + (j - (i + (decodeRune (b :: bs)).2)) = (j - (i + (decodeRune (b :: bs)).2)) + (decodeRune (b :: bs)).2 := by omega
          rw [this] at *
          first | exact h3 | (rw [Nat.add_comm]; exact h3)
      · rw [if_neg hv] at h
        simp only [Option.some.injEq, Prod.mk.injEq] at h
        obtain ⟨rfl, rfl⟩ := h
        refine ⟨Nat.le_refl _, by simp, ?_⟩
        simpa using hv

/-- ASCII names: letters, '_' and (not first) digits are valid whatever the Unicode parameter says -/
example : validateName Uni.ascii 5 0 [110, 97, 33, 109, 101] = some (2, 33) := by decide

/-- a letter outside ASCII in front of the offending character counts by its bytes: `gö-x` is reported at byte 3 -/
example : validateName { letter := fun cp => cp == 246, digit := fun _ => false } 5 0 [103, 195, 182, 45, 120] = some (3, 45) := by
  decide

theorem prefix_getElem? {α} {xs ys : List α} (hp : xs <+: ys) (i : Nat) (c : α)
    (h : xs[i]? = some c) : ys[i]? = some c := by
  obtain ⟨t, ht⟩ := hp
  have hlt : i < xs.length := by
    rcases Nat.lt_or_ge i xs.length with h' | h'
    · exact h'
    · rw [List.getElem?_eq_none h'] at h; cases h
  rw [← ht, List.getElem?_append_left hlt]; exact h

theorem trimRight_prefix (l : Bytes) (p : UInt8 → Bool) : (l.reverse.dropWhile p).reverse <+: l := by
  have hs : l.reverse.dropWhile p <:+ l.reverse := List.dropWhile_suffix p
  have := List.reverse_prefix.2 hs
  simpa using this

/-- **Header diagnostics point at the offending character.** When the splitter rejects a
change name, the reported offset lies in that header line and the byte there is the reported
character, however many spaces follow the leading '@'. -/
theorem badName_points_at_char (u : Uni) (l : Line) (o : Nat) (ch : UInt8) (nm : Bytes)
    (h : readName u l = (nm, some ⟨o, .badName ch⟩)) :
    l.off ≤ o ∧ l.text[o - l.off]? = some ch := by
  unfold readName at h
  by_cases h1 : l.text = [atB, atB]
  · simp [h1] at h
  · rw [if_neg (by simpa using h1)] at h
    by_cases h2 : (decide (l.text.length > 2) && l.text.head? == some atB && l.text.getLast? == some atB) = true
    · rw [if_pos h2] at h
      simp only at h
      generalize hin : (List.drop 1 l.text).dropLast = inner at h
      generalize hld : (List.takeWhile isSpaceB inner).length = lead at h
      by_cases hall : (lead == inner.length) = true
      · simp [hall, validateName] at h
      · simp only [hall, Bool.false_eq_true, ↓reduceIte] at h
        split at h
        · simp at h
        · rename_i i c hv
          simp only [Prod.mk.injEq, Option.some.injEq, Err.mk.injEq, ErrKind.badName.injEq] at h
          obtain ⟨_, ho, hc⟩ := h
          subst hc
          obtain ⟨_, hget, _⟩ := validateName_spec u _ _ 0 i c hv
          simp only [Nat.sub_zero] at hget
          refine ⟨by omega, ?_⟩
          have hg2 := prefix_getElem? (trimRight_prefix _ isSpaceB) i c hget
          rw [List.getElem?_drop] at hg2
          have hg3 : (List.drop 1 l.text)[lead + i]? = some c := by
            apply prefix_getElem? (xs := inner) _ _ _ hg2
            rw [← hin]; exact List.dropLast_prefix _
          rw [List.getElem?_drop] at hg3
          have : o - l.off = 1 + (lead + i) := by omega
          rw [this]; exact hg3
    · rw [if_neg h2] at h
      simp at h

/-- text where a header is expected is reported at the first column of that line -/
theorem badHeader_at_line_start (u : Uni) (l : Line) (o : Nat) (nm : Bytes)
    (h : readName u l = (nm, some ⟨o, .badHeader⟩)) : o = l.off := by
  unfold readName at h
  by_cases h1 : l.text = [atB, atB]
  · simp [h1] at h
  · rw [if_neg (by simpa using h1)] at h
    by_cases h2 : (decide (l.text.length > 2) && l.text.head? == some atB && l.text.getLast? == some atB) = true
    · rw [if_pos h2] at h
      simp only at h
      split at h <;> simp at h
    · rw [if_neg h2] at h
      simp only [Prod.mk.injEq, Option.some.injEq, Err.mk.injEq] at h
      exact h.2.1.symm

/-- scratch line `k` of the metavariable buffer starts after the `k` preceding lines and
their newlines: the buffer is the lines of the patch, byte for byte -/
theorem scratchStarts_get (ls : List Line) : ∀ (o k : Nat), k < ls.length →
    (scratchStarts o ls)[k]? = some (o + ((ls.take k).map (fun l => l.text.length + 1)).sum) := by
  induction ls with
  | nil => intro o k hk; simp at hk
  | cons l ls ih =>
    intro o k hk
    cases k with
    | zero => simp [scratchStarts]
    | succ k =>
      simp only [scratchStarts, List.getElem?_cons_succ, List.take_succ_cons, List.map_cons, List.sum_cons]
      rw [ih (o + l.text.length + 1) k (by simpa using hk)]
      congr 1; omega

/-- concrete check of the position function: line and column of offsets in a small patch,
including the end-of-file offset after a trailing newline (which stays on the last line) -/
example : position [64, 64, 10, 118, 97, 114, 32, 120, 10] 9 = (2, 7) ∧
          position [64, 64, 10, 118, 97, 114, 32, 120, 10] 3 = (2, 1) ∧
          position [64, 64, 10, 118, 97, 114, 32, 120] 8 = (2, 6) := by decide

/-- **A patch that does not load stops the run before anything is rewritten**: `loadPatches` fails at the first source
that cannot be opened, parsed or compiled - every source before it did load - and hands over no program at all, so the
per-file loop never starts; the failure is that source (the diagnostic names it). -/
theorem a_patch_that_does_not_load_stops_the_run (good : Load.Src → Bool) (srcs l : List Load.Src) (s : Load.Src)
    (h : Load.loadAll good srcs = (l, some s)) :
    good s = false ∧ ∃ pre post, srcs = pre ++ s :: post ∧ ∀ x ∈ pre, good x = true :=
  Load.loadAll_first_bad good srcs l s h

/-- ... and conversely: when every source of the plan loads, none is reported -/
theorem all_sources_good_no_failure (good : Load.Src → Bool) (srcs : List Load.Src) (h : ∀ s ∈ srcs, good s = true) :
    Load.loadAll good srcs = (srcs, none) :=
  Load.loadAll_all_good good srcs h

end Gopatch.C19
