import GopatchModel.FileM
namespace Gopatch.C10
open Gopatch

/-- the package clause of the '-' side guards the whole file -/
theorem package_guard (c : Change) (f : FileM) (h1 : c.minus.pkg ≠ "") (h2 : c.minus.pkg ≠ f.pkg) :
    fileMatch c f = none := by
  unfold fileMatch
  have : (c.minus.pkg != "" && c.minus.pkg != f.pkg) = true := by simp [h1, h2]
  simp [this]

/-- a failed guard makes the change a no-op on the file, whatever its code pattern -/
theorem guard_fails_noop (c : Change) (f : FileM) (h : fileMatch c f = none) :
    (match applyChange c f with | .noMatch => true | _ => false) = true := by
  simp [applyChange, h]

/-- the path must be imported at all -/
theorem import_absent (mt : Meta) (pat : Option String × String) (f : FileM) (d : Data)
    (h : importCandidates f.imports pat.2 = []) : matchImport mt pat f d = none := by
  simp [matchImport, h, firstSome]

theorem firstSome_isSome {α β} (f : α → Option β) : ∀ (l : List α),
    (firstSome l f).isSome = l.any (fun a => (f a).isSome)
  | [] => rfl
  | a :: as => by
      unfold firstSome
      cases h : f a with
      | some b => simp [h]
      | none => simp [h, firstSome_isSome f as]

/-- a file may import the path several times: the guard holds iff one of those imports has
the stated form -/
theorem import_any_candidate (mt : Meta) (pat : Option String × String) (f : FileM) (d : Data) :
    (matchImport mt pat f d).isSome =
      (importCandidates f.imports pat.2).any (fun fname => (matchSpec mt pat fname d).isSome) := by
  unfold matchImport
  exact firstSome_isSome _ _

/-- README table, rows 1/2: an unnamed import in the patch matches only an unnamed import -/
theorem unnamed_matches_unnamed (mt : Meta) (path : String) (d : Data) (fname : Option String) :
    (matchSpec mt (none, path) fname d).isSome = fname.isNone := by
  simp only [matchSpec]
  cases fname <;> simp

/-- row 4: a literally named import matches only that exact name (this covers `.` and `_`) -/
theorem named_literal (mt : Meta) (name path : String) (d : Data) (fname : Option String)
    (hm : mt.look name = none) :
    (matchSpec mt (some name, path) fname d).isSome = (fname == some name) := by
  simp only [matchSpec]
  cases fname with
  | none =>
    have : (mt.look name != some Kind.ident) = true := by simp [hm]
    simp [this]
  | some fn =>
    simp only [hm]
    by_cases hn : name = fn
    · subst hn; simp
    · have : (fn == name) = false := by simpa using fun h => hn h.symm
      simp [hn, this]

/-- rows 3/4 with an identifier metavariable as name: matches a named import (binding the name)
and an unnamed one (recording that it was unnamed), provided the metavariable is not already
bound to something else -/
theorem metavar_name_matches_any (mt : Meta) (name path : String) (d : Data) (fname : Option String)
    (hm : mt.look name = some Kind.ident) (hfree : d.lookMv name = none) :
    (matchSpec mt (some name, path) fname d).isSome = true := by
  simp only [matchSpec]
  have hfree' : d.mv.lookup name = none := by simpa [Data.lookMv] using hfree
  cases fname with
  | none => simp [hm, matchMetavar, kindOK, mkIdent, V.isNil, Data.lookMv, hfree']
  | some fn => simp [hm, matchMetavar, kindOK, mkIdent, V.isNil, Data.lookMv, hfree']

/-- all listed imports must match: the first failing one makes the whole guard fail -/
theorem all_imports_required (mt : Meta) (p : Option String × String) (ps : List (Option String × String))
    (f : FileM) (d : Data) (h : matchImport mt p f d = none) : matchImports mt (p :: ps) f d = none := by
  simp [matchImports, h]

end Gopatch.C10
