import GopatchModel.FileM
import GopatchModel.Spec.Assoc
import GopatchModel.Spec.DotsKeys
import GopatchModel.Spec.SplitSpec
import GopatchModel.Spec.RewriteSpec
import GopatchModel.Spec.FinderSpec
namespace Gopatch.C04
open Gopatch

/-! ### helper facts about `splits` and `firstSome` -/

/-- every way of cutting the list is tried -/
theorem splits_complete {α} : ∀ (a b : List α), (a, b) ∈ splits (a ++ b)
  | [], [] => by simp [splits]
  | [], x :: xs => by simp [splits]
  | x :: a, b => by
      simp only [List.cons_append, splits, List.mem_cons, List.mem_map]
      right
      exact ⟨(a, b), splits_complete a b, rfl⟩

/-- and only genuine cuts are tried -/
theorem splits_sound {α} : ∀ (l a b : List α), (a, b) ∈ splits l → a ++ b = l
  | [], a, b, h => by simp [splits] at h; simp [h]
  | x :: xs, a, b, h => by
      simp only [splits, List.mem_cons, List.mem_map] at h
      rcases h with h | ⟨⟨a', b'⟩, hm, he⟩
      · cases h; rfl
      · cases he
        simp [splits_sound xs a' b' hm]

/-- `splits` lists the cuts by increasing length of the skipped prefix -/
theorem splits_ordered {α} : ∀ (l : List α) (l1 l2 : List (List α × List α)) (x : List α × List α),
    splits l = l1 ++ x :: l2 → ∀ y ∈ l1, y.1.length < x.1.length
  | [], l1, l2, x, h => by
      simp only [splits] at h
      cases l1 with
      | nil => intro y hy; simp at hy
      | cons a as =>
        simp only [List.cons_append, List.cons.injEq] at h
        have := h.2
        cases as <;> simp at this
  | a :: as, l1, l2, x, h => by
      simp only [splits] at h
      cases l1 with
      | nil => intro y hy; simp at hy
      | cons b bs =>
        simp only [List.cons_append, List.cons.injEq] at h
        obtain ⟨hb, hrest⟩ := h
        -- x is in the mapped tail, so its prefix is non-empty; elements of bs are mapped too
        have hmap : (splits as).map (fun p => (a :: p.1, p.2)) = bs ++ x :: l2 := hrest
        obtain ⟨m1, rest, hm1, hbs, hrest2⟩ := List.map_eq_append_iff.1 hmap
        obtain ⟨x0, m2, hm2, hx0, hl2⟩ := List.map_eq_cons_iff.1 hrest2
        subst hbs hx0
        intro y hy
        rcases List.mem_cons.1 hy with rfl | hy
        · subst hb; simp
        · obtain ⟨y0, hy0, rfl⟩ := List.mem_map.1 hy
          have := splits_ordered as m1 m2 x0 (by rw [hm1, hm2]) y0 hy0
          simp; omega

theorem firstSome_some {α β} (f : α → Option β) : ∀ (l : List α) (b : β),
    firstSome l f = some b → ∃ l1 a l2, l = l1 ++ a :: l2 ∧ f a = some b ∧ ∀ x ∈ l1, f x = none
  | [], b, h => by simp [firstSome] at h
  | a :: as, b, h => by
      unfold firstSome at h
      cases hf : f a with
      | some b' =>
        simp only [hf] at h
        cases h
        exact ⟨[], a, as, rfl, hf, by simp⟩
      | none =>
        simp only [hf] at h
        obtain ⟨l1, a', l2, hl, ha, hn⟩ := firstSome_some f as b h
        refine ⟨a :: l1, a', l2, by simp [hl], ha, ?_⟩
        intro x hx
        rcases List.mem_cons.1 hx with rfl | hx
        · exact hf
        · exact hn x hx

theorem firstSome_none {α β} (f : α → Option β) : ∀ (l : List α),
    firstSome l f = none ↔ ∀ a ∈ l, f a = none
  | [] => by simp [firstSome]
  | a :: as => by
      unfold firstSome
      cases hf : f a with
      | some b => simp [hf]
      | none => simp [hf, firstSome_none f as]

theorem matchSeq_nil (mt : Meta) (e : String) (gs : List V) (d : Data) :
    matchSeq mt e [] gs d = if gs.isEmpty then some d else none := by
  rw [matchSeq.eq_def]

theorem matchSeq_cons (mt : Meta) (e : String) (p : V) (ps gs : List V) (d : Data) :
    matchSeq mt e (p :: ps) gs d =
      match dotsKeyOf e p with
      | some k => firstSome (splits gs) (fun sr => matchSeq mt e ps sr.2 (d.pushDots k sr.1))
      | none => match gs with
          | [] => none
          | g :: gs' => (matchV mt p g d).bind (matchSeq mt e ps gs') := by
  rw [matchSeq.eq_def]
  rfl

/-! ### the specification: some choice of runs makes every explicit element match in order -/

/-- `Sol mt e ps gs d d'`: the pattern list `ps` (explicit elements and elisions) matches the
list `gs` for *some* choice of the runs the elisions stand for, every explicit element matching
in order with the bindings threaded from `d` to `d'`.  Explicit elements are related by the
element matcher itself; elisions stand for arbitrary runs. -/
inductive Sol (mt : Meta) (e : String) : List V → List V → Data → Data → Prop
  | nil (d : Data) : Sol mt e [] [] d d
  | dots (p : V) (k : Nat) (ps run rest : List V) (d d' : Data) :
      dotsKeyOf e p = some k → Sol mt e ps rest (d.pushDots k run) d' → Sol mt e (p :: ps) (run ++ rest) d d'
  | elem (p g : V) (ps gs : List V) (d d1 d' : Data) :
      dotsKeyOf e p = none → matchV mt p g d = some d1 → Sol mt e ps gs d1 d' → Sol mt e (p :: ps) (g :: gs) d d'

/-- **Soundness.** Whatever the list matcher accepts is a solution. -/
theorem matchSeq_sound (mt : Meta) (e : String) : ∀ (ps gs : List V) (d d' : Data),
    matchSeq mt e ps gs d = some d' → Sol mt e ps gs d d'
  | [], gs, d, d', h => by
      rw [matchSeq_nil] at h
      cases gs with
      | nil => simp at h; subst h; exact Sol.nil d
      | cons g gs => simp at h
  | p :: ps, gs, d, d', h => by
      cases hk : dotsKeyOf e p with
      | some k =>
        simp only [matchSeq_cons, hk] at h
        obtain ⟨l1, a, l2, hl, ha, _⟩ := firstSome_some _ _ _ h
        have hmem : a ∈ splits gs := by rw [hl]; simp
        have hcat := splits_sound gs a.1 a.2 hmem
        rw [← hcat]
        exact Sol.dots p k ps a.1 a.2 d d' hk (matchSeq_sound mt e ps a.2 _ d' ha)
      | none =>
        cases gs with
        | nil => simp [matchSeq_cons, hk] at h
        | cons g gs' =>
          simp only [matchSeq_cons, hk, Option.bind_eq_some_iff] at h
          obtain ⟨d1, h1, h2⟩ := h
          exact Sol.elem p g ps gs' d d1 d' hk h1 (matchSeq_sound mt e ps gs' d1 d' h2)

/-- **Completeness.** If some choice of runs makes the explicit elements match in order, the
list matcher succeeds (it backtracks over the runs; before the `fix:` commit it did not). -/
theorem matchSeq_complete (mt : Meta) (e : String) (ps gs : List V) (d d' : Data)
    (h : Sol mt e ps gs d d') : ∃ d'', matchSeq mt e ps gs d = some d'' := by
  induction h with
  | nil d => exact ⟨d, by rw [matchSeq_nil]; simp⟩
  | dots p k ps run rest d d' hk _ ih =>
    obtain ⟨d2, h2⟩ := ih
    simp only [matchSeq_cons, hk]
    cases hfs : firstSome (splits (run ++ rest)) (fun sr => matchSeq mt e ps sr.2 (d.pushDots k sr.1)) with
    | some b => exact ⟨b, rfl⟩
    | none =>
      rw [firstSome_none] at hfs
      have := hfs (run, rest) (splits_complete run rest)
      simp only [h2] at this
      cases this
  | elem p g ps gs d d1 d' hk h1 _ ih =>
    obtain ⟨d2, h2⟩ := ih
    exact ⟨d2, by simp [matchSeq_cons, hk, h1, h2]⟩

/-- A pattern with elisions matches a list exactly when some choice of runs makes every
explicit element match in order. -/
theorem matchSeq_iff (mt : Meta) (e : String) (ps gs : List V) (d : Data) :
    (∃ d', matchSeq mt e ps gs d = some d') ↔ ∃ d', Sol mt e ps gs d d' :=
  ⟨fun ⟨d', h⟩ => ⟨d', matchSeq_sound mt e ps gs d d' h⟩,
   fun ⟨d', h⟩ => matchSeq_complete mt e ps gs d d' h⟩

/-- **Shortest run, left to right.** When the pattern starts with an elision, the matcher
commits to a run for it such that the rest matches, and no shorter run allows the rest to
match at all (by soundness/completeness applied to the rest, "does not match" means that no
choice of the remaining runs works). Applied recursively to the rest this is the
lexicographically least choice of runs. -/
theorem first_dots_shortest (mt : Meta) (e : String) (p : V) (k : Nat) (ps gs : List V) (d d' : Data)
    (hk : dotsKeyOf e p = some k) (h : matchSeq mt e (p :: ps) gs d = some d') :
    ∃ run rest, run ++ rest = gs ∧ matchSeq mt e ps rest (d.pushDots k run) = some d' ∧
      ∀ run' rest', run' ++ rest' = gs → run'.length < run.length →
        matchSeq mt e ps rest' (d.pushDots k run') = none := by
  simp only [matchSeq_cons, hk] at h
  obtain ⟨l1, a, l2, hl, ha, hn⟩ := firstSome_some _ _ _ h
  have hmem : a ∈ splits gs := by rw [hl]; simp
  refine ⟨a.1, a.2, splits_sound gs a.1 a.2 hmem, ha, ?_⟩
  intro run' rest' hcat hlen
  have hm' : (run', rest') ∈ splits gs := by rw [← hcat]; exact splits_complete run' rest'
  rw [hl] at hm'
  rcases List.mem_append.1 hm' with h1 | h2
  · exact hn _ h1
  · rcases List.mem_cons.1 h2 with h3 | h4
    · have : run' = a.1 := by rw [← h3]
      rw [this] at hlen; omega
    · -- elements after `a` have strictly longer prefixes
      obtain ⟨m1, m2, hm⟩ := List.append_of_mem h4
      have hord := splits_ordered gs (l1 ++ a :: m1) m2 (run', rest') (by rw [hl, hm]; simp)
      have := hord a (by simp)
      simp at this; omega

/-! ### the elements an elision stood for reappear, complete, in order, unchanged -/

theorem replaceSeq_cons (mt : Meta) (assoc : List (Nat × Nat)) (e : String) (p : V) (ps : List V) (d : Data) (fb : Bool) :
    replaceSeq mt assoc e (p :: ps) d fb =
      match dotsKeyOf e p with
      | some k =>
          if !runFits e (((assocLook assoc k).bind d.lookDots).getD []) then
            .error (.err s!"cannot reproduce elided values in a list of {e}")
          else
            (replaceSeq mt assoc e ps d ((assocLook assoc k).bind d.lookDots).isSome).bind (fun r =>
              .ok ((((assocLook assoc k).bind d.lookDots).getD []) ++ r.1, true))
      | none =>
          (replaceV mt assoc p d fb).bind (fun x =>
            if !fits x p then .error (.err s!"cannot use {x.tyOf} as {p.tyOf}")
            else (replaceSeq mt assoc e ps d fb).bind (fun r => .ok (x :: r.1, r.2))) := by
  rw [replaceSeq.eq_def]
  rfl

/-- **Reproduction.** Where the '+' pattern has an elision associated with an elision `k` of the
'-' pattern, the generated list contains, at that place, exactly the run recorded for `k` by the
matcher — the original elements themselves (same identities), all of them, in their order —
followed by whatever the rest of the '+' list generates. -/
theorem dots_reproduced (mt : Meta) (assoc : List (Nat × Nat)) (e : String) (p : V) (k' k : Nat)
    (ps : List V) (d : Data) (fb : Bool) (run rest : List V) (b : Bool)
    (hk : dotsKeyOf e p = some k') (ha : assocLook assoc k' = some k) (hr : d.lookDots k = some run)
    (hf : runFits e run = true) (hrest : replaceSeq mt assoc e ps d true = .ok (rest, b)) :
    replaceSeq mt assoc e (p :: ps) d fb = .ok (run ++ rest, true) := by
  rw [replaceSeq_cons]
  simp [hk, ha, hr, hf, hrest, Except.bind]

/-- what the matcher records for an elision is the run it skipped -/
theorem run_recorded (d : Data) (k : Nat) (run : List V) : (d.pushDots k run).lookDots k = some run := by
  simp [Data.pushDots, Data.lookDots]

/-- an elision that stands on an unchanged context line (the same patch position on the '-' and
the '+' side) is associated with itself, so by `dots_reproduced` the run it stood for reappears
at that place; the side conditions hold for every statement pattern (its implicit leading
elision precedes everything) and whenever no '+' elision precedes all '-' elisions -/
theorem context_line_elision_associated (c : Change) (k : Nat)
    (hl : k ∈ collectDots (sidePattern c c.minus)) (hr : k ∈ collectDots (sidePattern c c.plus))
    (hnd : (collectDots (sidePattern c c.plus)).Nodup)
    (hall : ∀ r ∈ collectDots (sidePattern c c.plus), ∃ l ∈ collectDots (sidePattern c c.minus), l ≤ r) :
    assocLook c.assoc k = some k := by
  unfold Change.assoc assocLook
  exact connectDots_self _ _ k hl hr hnd hall

/-- "the only '...' on each side": a single '+' elision is associated with the single '-' elision
when the latter does not come after it in the patch -/
theorem single_elision_associated (l r : Nat) (h : l ≤ r) : (connectDots [l] [r]).lookup r = some l := by
  simp [connectDots, sortAsc, insertAsc, connectDotsGo, nearestBefore, nbStep, h]

/-- **The run an elision stood for is found under its key when the match is complete** — provided no later
elision of the list has the same key (elisions are told apart by their patch position).  With `dots_reproduced`
and `context_line_elision_associated`: what a context-line `...` elided reappears at its place. -/
theorem elision_run_kept (mt : Meta) (e : String) (p : V) (k : Nat) (ps gs : List V) (d d' : Data)
    (hk : dotsKeyOf e p = some k) (hfresh : k ∉ collectSeq e ps) (h : matchSeq mt e (p :: ps) gs d = some d') :
    ∃ run rest, run ++ rest = gs ∧ d'.lookDots k = some run ∧
      ∀ run' rest', run' ++ rest' = gs → run'.length < run.length → matchSeq mt e ps rest' (d.pushDots k run') = none := by
  obtain ⟨run, rest, hcat, hm, hshort⟩ := first_dots_shortest mt e p k ps gs d d' hk h
  refine ⟨run, rest, hcat, ?_, hshort⟩
  rw [matchSeq_dots mt e ps rest _ d' hm k hfresh]
  exact run_recorded d k run

/-- the keys of the elisions of one side of a change are pairwise different (what the engine relies on; evaluated
by the driver on every case as `keysdistinct`) -/
def keysDistinct (c : Change) : Bool :=
  let ks := collectDots (sidePattern c c.minus)
  ks.all (fun k => ks.count k == 1)

/-- when two elisions share a key the earlier one's run is lost (the repaired defect F24: the implied leading
elision of a statement patch had the position of a flush-left `...` on the first line) -/
def stmtOf (name : String) : V :=
  .iface "ast.Stmt" (.ptr "ast.ExprStmt" 0 [.iface "ast.Expr" (.ptr "ast.Ident" 0 [.pos true 0, .str name, .nilP "ast.Object"])])

theorem shared_key_loses_run :
    (matchSeq [] "ast.Stmt" [mkDotsStmt 7, mkDotsStmt 7, stmtOf "foo"] [stmtOf "a", stmtOf "b", stmtOf "foo"] Data.empty).map
      (fun d => (d.lookDots 7).map List.length) = some (some 2) ∧
    (matchSeq [] "ast.Stmt" [mkDotsStmt 6, mkDotsStmt 7, stmtOf "foo"] [stmtOf "a", stmtOf "b", stmtOf "foo"] Data.empty).map
      (fun d => ((d.lookDots 6).map List.length, (d.lookDots 7).map List.length)) = some (some 0, some 2) := by
  constructor <;> decide +kernel

/-! ### the behaviour before the `fix:` commit, refuted -/

/-- the list matcher as it was: each elision commits to the first start at which the *next
section* (the explicit elements up to the following elision) matches; an empty section swallows
the rest -/
def greedySection (m : Nat → Nat → Bool) : List Nat → List Nat → Option (List Nat)
  | [], gs => some gs
  | p :: ps, g :: gs => if m p g then greedySection m ps gs else none
  | _ :: _, [] => none

def greedyFind (m : Nat → Nat → Bool) (sec : List Nat) : Nat → List Nat → Option (List Nat)
  | 0, _ => none
  | fuel + 1, gs =>
      if sec.isEmpty then some []
      else match greedySection m sec gs with
        | some rest => some rest
        | none => match gs with
            | [] => none
            | _ :: gs' => greedyFind m sec fuel gs'

def greedy (m : Nat → Nat → Bool) : List (List Nat) → List Nat → Bool
  | [], gs => gs.isEmpty
  | sec :: secs, gs => match greedyFind m sec (gs.length + 1) gs with
      | some rest => greedy m secs rest
      | none => false

/-- `foo(..., x)` against `foo(x, y, x)` (elements as numbers, 1 = x, 2 = y): the former matcher
said "no match" although the run `x, y` is a solution. -/
theorem greedy_incomplete :
    greedy (fun p g => p == g) [[1]] [1, 2, 1] = false ∧ [1, 2] ++ [1] = [1, 2, 1] := by decide

/-! ### where an elision is recorded to stand: from the bytes of the patch (front end) -/

/-- **An elision on a context line has one place.** The premise of `context_line_elision_associated` from the text of
the patch: a body line that starts with neither '-' nor '+' goes to both versions of the change, and each of its bytes -
the first dot of an elision written on it - is reported at the same line and column of the patch file in the '-' version
and in the '+' version, whatever '-' and '+' lines stand in front of it. -/
theorem context_line_elision_has_one_place (content : Sec.Bytes) (a b : List Sec.Line) (l : Sec.Line) (k : Nat)
    (hctx : ∀ c rest, l.text = c :: rest → c ≠ Sec.minusB ∧ c ≠ Sec.plusB) (hk : k ≤ l.text.length) :
    (Sec.splitPatch (a ++ l :: b)).1.positionIn content (Sec.size (a.filterMap (Sec.sideLine true)) + k) =
      (Sec.splitPatch (a ++ l :: b)).2.positionIn content (Sec.size (a.filterMap (Sec.sideLine false)) + k) :=
  Sec.context_line_stands_at_one_place content a b l k (Sec.sideLine_context true l hctx) (Sec.sideLine_context false l hctx) hk

/-- **An elision is recorded where its "..." stands in the version**: `rewrite` may put a package clause and a function
header in front and replaces every "..." by a name of the same length; the adjustments it returns take the offset of the
`i`-th augmentation, an elision, in the augmented source back to the offset of its "..." (hypothesis `AugsOK`: the
augmentations come in order, inside the source, elisions three bytes long - evaluated by the driver on the finder's
output for every version of every generated patch). -/
theorem elision_recorded_where_its_dots_stand (src : List UInt8) (augs : List Fnd.Aug)
    (hok : Fnd.AugsOK src 0 (Fnd.sortByStart augs)) (i s e : Nat) (n : Bool)
    (h : (Fnd.sortByStart augs)[i]? = some (.dots s e n)) :
    ∃ s' e', (Fnd.rewrite src augs).2.1[i]? = some (.dots s' e' n) ∧ Fnd.adjust (Fnd.rewrite src augs).2.2 s' = s :=
  Fnd.rewrite_elision_maps_back src augs hok i s e n h

/-- **... and that place is reported in the user's coordinates**: for any patch file, any change found in it and either
version of its body, byte `k` of the text contributed by a body line is reported at the line and column which that byte
has in the patch file. -/
theorem version_offsets_are_patch_file_places (u : Sec.Uni) (content : Sec.Bytes) (c : Sec.Change)
    (hc : c ∈ (Sec.split u content).1) (m : Bool) (a b : List Sec.Line) (l l' : Sec.Line)
    (hbody : c.patch = a ++ l :: b) (hl : Sec.sideLine m l = some l') (k : Nat) (hk : k ≤ l'.text.length) :
    (Sec.build (a.filterMap (Sec.sideLine m) ++ l' :: b.filterMap (Sec.sideLine m))).positionIn content
        (Sec.size (a.filterMap (Sec.sideLine m)) + k) = Sec.position content (l'.off + k) :=
  Sec.version_byte_reported_where_it_stands u content c hc m a b l l' hbody hl k hk

/-- **Every elision is recorded at the three dots it was written with.** For any patch file, any change sectioning finds
in it and either version of the change's body: take the augmentations the finder produced for that version (in order,
inside it, elisions three bytes long - `AugsOK`) and let the `i`-th be an elision over bytes that are indeed `...`. Then the
node `rewrite` and the parser put in its place has, mapped back by `posAdjuster` and reported through the version's line
entries, the line and column of an offset of the patch file where the file holds `...`. (`splitPatch`, the line entries,
`rewrite`, `posAdjuster` and `token.File.Position` are the model's; that the parser places the node at the first byte of
the replacing name is observed through the `split` stream.) -/
theorem every_elision_is_recorded_at_its_three_dots (u : Sec.Uni) (content : Sec.Bytes) (c : Sec.Change)
    (hc : c ∈ (Sec.split u content).1) (m : Bool) (augs : List Fnd.Aug)
    (hok : Fnd.AugsOK (Sec.build (c.patch.filterMap (Sec.sideLine m))).contents 0 (Fnd.sortByStart augs))
    (i s e : Nat) (n : Bool) (h : (Fnd.sortByStart augs)[i]? = some (.dots s e n))
    (h0 : (Sec.build (c.patch.filterMap (Sec.sideLine m))).contents[s]? = some 46)
    (h1 : (Sec.build (c.patch.filterMap (Sec.sideLine m))).contents[s + 1]? = some 46)
    (h2 : (Sec.build (c.patch.filterMap (Sec.sideLine m))).contents[s + 2]? = some 46) :
    ∃ s' e' p, (Fnd.rewrite (Sec.build (c.patch.filterMap (Sec.sideLine m))).contents augs).2.1[i]? = some (.dots s' e' n) ∧
      (Sec.build (c.patch.filterMap (Sec.sideLine m))).positionIn content
          (Fnd.adjust (Fnd.rewrite (Sec.build (c.patch.filterMap (Sec.sideLine m))).contents augs).2.2 s') = Sec.position content p ∧
      content[p]? = some 46 ∧ content[p + 1]? = some 46 ∧ content[p + 2]? = some 46 := by
  obtain ⟨s', e', hout, hadj⟩ := Fnd.rewrite_elision_maps_back _ augs hok i s e n h
  obtain ⟨p, hp, hd⟩ := Sec.dots_of_a_version_are_dots_of_the_file u content c hc m s h0 h1 h2
  exact ⟨s', e', p, hout, by rw [hadj]; exact hp, hd⟩

/-- what is assumed of go/scanner on one version of a change: the stream ends with its only EOF token, the tokens come in
source order inside the version, an ELLIPSIS token covers three bytes and these are `...` (evaluated by the driver on the
tokens of every real version: `scanOKB`) -/
structure ScanOK (src : List UInt8) (toks : List Fnd.Tok) : Prop where
  wf : Fnd.WF toks
  laid : Fnd.Laid toks
  inside : ∀ t ∈ toks, t.off ≤ src.length
  dots : ∀ t ∈ toks, t.kind = .ellipsis → src[t.off]? = some 46 ∧ src[t.off + 1]? = some 46 ∧ src[t.off + 2]? = some 46

theorem scanOKB_sound (src : List UInt8) (toks : List Fnd.Tok) (h : Fnd.scanOKB src toks = true) : ScanOK src toks := by
  simp only [Fnd.scanOKB, Bool.and_eq_true, List.all_eq_true, decide_eq_true_eq, Bool.or_eq_true, bne_iff_ne, ne_eq,
    beq_iff_eq] at h
  refine ⟨Fnd.wfB_sound _ h.1.1, Fnd.laidB_sound _ h.1.2, fun t ht => (h.2 t ht).1, fun t ht hk => ?_⟩
  rcases (h.2 t ht).2 with hne | hd
  · exact absurd hk hne
  · exact ⟨hd.1.1, hd.1.2, hd.2⟩

/-- **Every elision the finder reports is recorded at the three dots it was written with** - the theorem above with its
hypotheses on the augmentations discharged: they are what `find` itself returns on the tokens of the version, and nothing
is assumed but `ScanOK`, a statement about go/scanner's tokens. (`find_augs_ok`: the finder's output, sorted, is in order,
inside the source, elisions three bytes long; `find_dots_on_ellipsis`: every elision in it stands on an ELLIPSIS token.) -/
theorem every_elision_the_finder_reports_is_recorded_at_its_three_dots (u : Sec.Uni) (content : Sec.Bytes) (c : Sec.Change)
    (hc : c ∈ (Sec.split u content).1) (m : Bool) (toks : List Fnd.Tok)
    (hs : ScanOK (Sec.build (c.patch.filterMap (Sec.sideLine m))).contents toks)
    (i s e : Nat) (n : Bool) (h : (Fnd.sortByStart (Fnd.find toks hs.wf))[i]? = some (.dots s e n)) :
    ∃ s' e' p, (Fnd.rewrite (Sec.build (c.patch.filterMap (Sec.sideLine m))).contents (Fnd.find toks hs.wf)).2.1[i]? =
        some (.dots s' e' n) ∧
      (Sec.build (c.patch.filterMap (Sec.sideLine m))).positionIn content
          (Fnd.adjust (Fnd.rewrite (Sec.build (c.patch.filterMap (Sec.sideLine m))).contents (Fnd.find toks hs.wf)).2.2 s') =
        Sec.position content p ∧
      content[p]? = some 46 ∧ content[p + 1]? = some 46 ∧ content[p + 2]? = some 46 := by
  have hok := Fnd.find_augs_ok _ toks hs.wf hs.laid hs.inside
  have hmem : Fnd.Aug.dots s e n ∈ Fnd.find toks hs.wf :=
    (Fnd.mem_sortByStart _ _).1 (List.mem_of_getElem? h)
  obtain ⟨_, t, ht, hk, rfl⟩ := Fnd.find_dots_on_ellipsis toks hs.wf hs.laid s e n hmem
  obtain ⟨h0, h1, h2⟩ := hs.dots t ht hk
  exact every_elision_is_recorded_at_its_three_dots u content c hc m _ hok i t.off e n h h0 h1 h2

/-- the finder's augmentations never overlap and never leave the version, whatever the tokens say, as long as they are
go/scanner's: the hypothesis `AugsOK` of the theorems about `rewrite` holds for `find`'s own output -/
theorem the_finder_meets_the_rewriters_hypothesis (src : List UInt8) (toks : List Fnd.Tok) (hs : ScanOK src toks) :
    Fnd.AugsOK src 0 (Fnd.sortByStart (Fnd.find toks hs.wf)) :=
  Fnd.find_augs_ok src toks hs.wf hs.laid hs.inside

/-- non-vacuity: the tokens of `foo(...)` followed by an elided statement `...` - the finder reports a fake package clause,
a fake function and both elisions, and `ScanOK`'s decidable parts hold -/
example :
    let toks : List Fnd.Tok := [⟨.ident, 0, 1⟩, ⟨.lparen, 3, 1⟩, ⟨.ellipsis, 4, 1⟩, ⟨.rparen, 7, 1⟩, ⟨.other, 8, 1⟩,
      ⟨.ellipsis, 9, 2⟩, ⟨.other, 12, 2⟩, ⟨.eof, 13, 3⟩]
    Fnd.wfB toks = true ∧ Fnd.laidB toks = true ∧
      (Fnd.findTotal toks).map Fnd.sortByStart =
        some [.fakePackage 0, .fakeFunc 0 true, .dots 4 7 false, .dots 9 12 false] ∧
      (let src := "foo(...)\n...\n".toUTF8.toList
       toks.all (fun t => decide (t.off ≤ src.length) &&
         (t.kind != .ellipsis || (src[t.off]? == some 46 && src[t.off + 1]? == some 46 && src[t.off + 2]? == some 46))) = true) := by
  decide +kernel

/-- **What `rewrite` keeps, it keeps in place**: a byte of a version that lies in no augmentation is found in the augmented
source at an offset that `posAdjuster.Pos` takes back to the byte's own offset - so the place of every token go/parser sees
outside the elisions (an operand next to a `...`, the callee of a call with elided arguments) is its place in the version,
and, through `version_offsets_are_patch_file_places`, in the patch file. -/
theorem code_next_to_an_elision_keeps_its_place (src : List UInt8) (augs : List Fnd.Aug)
    (hok : Fnd.AugsOK src 0 (Fnd.sortByStart augs)) (k : Nat) (hk : k < src.length)
    (hout : ∀ a ∈ Fnd.sortByStart augs, ¬ (a.start ≤ k ∧ k < a.stop)) :
    ∃ o, (Fnd.rewrite src augs).1[o]? = src[k]? ∧ Fnd.adjust (Fnd.rewrite src augs).2.2 o = k :=
  Fnd.rewrite_retained_byte_maps_back src augs hok k hk hout

/-- non-vacuity: the body `-foo(...)`, ` ...`, `+bar(...)`: the context line is line 2 of the patch in both versions -/
example :
    let content : Sec.Bytes := "-foo(...)\n ...\n+bar(...)\n".toUTF8.toList
    let body := Sec.rawLines content
    ((Sec.splitPatch body).1.positionIn content (9 + 1), (Sec.splitPatch body).2.positionIn content (0 + 1)) = ((2, 2), (2, 2)) := by
  decide +kernel

end Gopatch.C04
