import GopatchModel.FileM
namespace Gopatch.C04

/-- every way of cutting the list is tried -/
theorem splits_complete {α} : ∀ (a b : List α), (a, b) ∈ splits (a ++ b)
  | [], [] => by simp [splits]
  | [], x :: xs => by simp [splits]
  | x :: a, b => by
      simp only [List.cons_append, splits, List.mem_cons, List.mem_map]
      right
      exact ⟨(a, b), splits_complete a b, rfl⟩

/-- and only genuine cuts are tried -/
theorem splits_sound {α} : ∀ (l a b : List α), (a, b) ∈ splits l → a ++ b = l
  | [], a, b, h => by simp [splits] at h; simp [h]
  | x :: xs, a, b, h => by
      simp only [splits, List.mem_cons, List.mem_map] at h
      rcases h with h | ⟨⟨a', b'⟩, hm, he⟩
      · cases h; rfl
      · cases he
        simp [splits_sound xs a' b' hm]

end Gopatch.C04
