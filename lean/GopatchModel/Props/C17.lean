import GopatchModel.Intervals
namespace Gopatch.C17
open Gopatch

/-- the comments handed to the printer are obtained from the input's comments by deletion only:
nothing is invented, nothing duplicated, order kept — after any number of changes -/
theorem survivors_sublist (changes : List (List Iv)) (cs : List Comment) :
    (changes.foldl (fun acc ivs => filterComments ivs acc) cs).Sublist cs := by
  induction changes generalizing cs with
  | nil => exact List.Sublist.refl _
  | cons ivs rest ih =>
    simp only [List.foldl_cons]
    exact (ih (filterComments ivs cs)).trans List.filter_sublist

theorem survivors_count_le (changes : List (List Iv)) (cs : List Comment) (c : Comment) :
    (changes.foldl (fun acc ivs => filterComments ivs acc) cs).count c ≤ cs.count c :=
  (survivors_sublist changes cs).count_le c

/-- a comment survives a change unless it lies wholly inside one changed interval -/
theorem survives_iff (ivs : List Iv) (cs : List Comment) (c : Comment) :
    c ∈ filterComments ivs cs ↔ c ∈ cs ∧ dropped ivs c = false := by
  simp [filterComments, List.mem_filter]

/-- a comment that sticks out of every changed interval survives: in particular every comment
of a declaration in which nothing was rewritten, because the `Changed` regions reported for a
declaration lie inside that declaration's extent (astdiff bounds them by the neighbouring
siblings and their comments) -/
theorem outside_changed_survives (ivs : List Iv) (c : Comment)
    (hout : ∀ i ∈ ivs, c.pos < i.s ∨ i.e < c.stop) : dropped ivs c = false := by
  unfold dropped
  rw [List.any_eq_false]
  intro i hi
  unfold inside
  rcases hout i hi with h | h
  · have : ¬ i.s ≤ c.pos := by omega
    simp [this]
  · have : ¬ c.stop ≤ i.e := by omega
    simp [this]

/-- **Comments of an untouched declaration survive**, given what astdiff owes the filter: if no changed interval
reaches into the extent of a declaration (`respects`, evaluated on the real engine's intervals on every run), every
comment lying within that extent — its doc comment, the comments inside it, those trailing its last line — is kept. -/
theorem untouched_declaration_keeps_comments (ivs : List Iv) (untouched : List Extent) (x : Extent) (c : Comment)
    (hr : respects ivs untouched = true) (hx : x ∈ untouched) (hin : x.s ≤ c.pos ∧ c.stop ≤ x.e) (hne : c.pos < c.stop) :
    dropped ivs c = false := by
  unfold dropped
  rw [List.any_eq_false]
  intro i hi
  have h1 := (List.all_eq_true.1 hr) i hi
  have h2 := (List.all_eq_true.1 h1) x hx
  unfold clearOf at h2
  unfold inside
  simp only [Bool.or_eq_true, beq_iff_eq, decide_eq_true_eq] at h2
  rcases h2 with (h0 | h3) | h4
  · simp [h0]
  · have : ¬ c.stop ≤ i.e := by omega
    simp [this]
  · have : ¬ i.s ≤ c.pos := by omega
    simp [this]

/-- the driver reports an offending (interval, declaration) pair exactly when `respects` fails -/
theorem no_offender_iff_respects (ivs : List Iv) (untouched : List Extent) :
    offender ivs untouched = none ↔ respects ivs untouched = true := by
  unfold offender respects
  rw [List.find?_eq_none]
  simp only [List.mem_flatMap, List.mem_map, Bool.not_eq_true', Bool.not_eq_false, List.all_eq_true]
  constructor
  · intro h i hi x hx
    have := h (i, x) ⟨i, hi, x, hx, rfl⟩
    simpa using this
  · rintro h ⟨i, x⟩ ⟨i', hi, x', hx, heq⟩
    cases heq
    simpa using h i hi x hx

/-- and after any number of changes: it is still there, exactly as often as before -/
theorem untouched_declaration_keeps_comments_all (changes : List (List Iv)) (untouched : List Extent) (x : Extent)
    (hr : ∀ ivs ∈ changes, respects ivs untouched = true) (hx : x ∈ untouched) (cs : List Comment) (c : Comment)
    (hin : x.s ≤ c.pos ∧ c.stop ≤ x.e) (hne : c.pos < c.stop) :
    (changes.foldl (fun acc ivs => filterComments ivs acc) cs).count c = cs.count c := by
  induction changes generalizing cs with
  | nil => rfl
  | cons ivs rest ih =>
    simp only [List.foldl_cons]
    rw [ih (fun i hi => hr i (List.mem_cons_of_mem _ hi))]
    have hd := untouched_declaration_keeps_comments ivs untouched x c (hr ivs (List.mem_cons_self ..)) hx hin hne
    unfold filterComments
    rw [List.count_filter]
    simp [hd]

/-- the witness of the repaired defect F21: an interval that starts in one rewritten declaration and ends in another
reaches into the untouched declaration between them, and its comment is dropped -/
example : respects [⟨417, 491⟩] [⟨430, 470⟩] = false ∧ dropped [⟨417, 491⟩] ⟨437, 455, "// free-standing 6"⟩ = true := by decide

/-- intervals that start at NoPos (what astdiff reports for nodes without a position, e.g. a
freshly added import) never remove a comment: the file's header and package comments, which
precede every node with a position, are out of reach of the filter -/
theorem nopos_interval_ignored (e : Nat) (c : Comment) : inside ⟨0, e⟩ c = false := by
  simp [inside]

theorem before_all_nodes_survives (ivs : List Iv) (c : Comment)
    (h : ∀ i ∈ ivs, i.s = 0 ∨ c.pos < i.s) : dropped ivs c = false := by
  unfold dropped
  rw [List.any_eq_false]
  intro i hi
  unfold inside
  rcases h i hi with h0 | h1
  · simp [h0]
  · have : ¬ i.s ≤ c.pos := by omega
    simp [this]

mutual
/-- the copy a metavariable produces never carries a comment: comment text cannot be duplicated
by using a metavariable several times -/
theorem copy_no_comments (fb : Bool) : ∀ v, noComments (copyV fb v) = true
  | .pos _ _ => by simp [copyV, noComments]
  | .str _ => by simp [copyV, noComments]
  | .int _ => by simp [copyV, noComments]
  | .bool _ => by simp [copyV, noComments]
  | .nilP _ => by simp [copyV, noComments]
  | .nilI _ => by simp [copyV, noComments]
  | .nilS _ => by simp [copyV, noComments]
  | .iface i v => by simp [copyV, noComments, copy_no_comments fb v]
  | .slice e vs => by simp [copyV, noComments, copyL_no_comments fb vs]
  | .ptr t id fs => by
      unfold copyV
      by_cases h : ignoredPtr t = true
      · simp [h, noComments]
      · have ht : t ≠ "ast.CommentGroup" := by
          intro hh; apply h; simp [ignoredPtr, hh]
        simp [h, noComments, ht, copyL_no_comments fb fs]
theorem copyL_no_comments (fb : Bool) : ∀ vs, noCommentsL (copyVs fb vs) = true
  | [] => by simp [copyVs, noCommentsL]
  | v :: vs => by simp [copyVs, noCommentsL, copy_no_comments fb v, copyL_no_comments fb vs]
end

/-- non-vacuity: a comment inside a rewritten region is dropped; one between two regions (an
elided run) and one covered only by a NoPos interval are kept -/
example : filterComments [⟨10, 20⟩, ⟨30, 40⟩, ⟨0, 9⟩]
    [⟨1, 8, "//go:build x"⟩, ⟨12, 18, "/* in rewritten */"⟩, ⟨22, 28, "/* in elided */"⟩, ⟨50, 60, "// elsewhere"⟩]
    = [⟨1, 8, "//go:build x"⟩, ⟨22, 28, "/* in elided */"⟩, ⟨50, 60, "// elsewhere"⟩] := by decide

end Gopatch.C17
