import GopatchModel.Intervals
import GopatchModel.Spec.AstDiffSame
import GopatchModel.Spec.AlignKeeps
import GopatchModel.Spec.AlignIds
namespace Gopatch.C17
open Gopatch

/-- the comments handed to the printer are obtained from the input's comments by deletion only:
nothing is invented, nothing duplicated, order kept — after any number of changes -/
theorem survivors_sublist (changes : List (List Iv)) (cs : List Comment) :
    (changes.foldl (fun acc ivs => filterComments ivs acc) cs).Sublist cs := by
  induction changes generalizing cs with
  | nil => exact List.Sublist.refl _
  | cons ivs rest ih =>
    simp only [List.foldl_cons]
    exact (ih (filterComments ivs cs)).trans List.filter_sublist

theorem survivors_count_le (changes : List (List Iv)) (cs : List Comment) (c : Comment) :
    (changes.foldl (fun acc ivs => filterComments ivs acc) cs).count c ≤ cs.count c :=
  (survivors_sublist changes cs).count_le c

/-- a comment survives a change unless it lies wholly inside one changed interval -/
theorem survives_iff (ivs : List Iv) (cs : List Comment) (c : Comment) :
    c ∈ filterComments ivs cs ↔ c ∈ cs ∧ dropped ivs c = false := by
  simp [filterComments, List.mem_filter]

/-- a comment that sticks out of every changed interval survives: in particular every comment
of a declaration in which nothing was rewritten, because the `Changed` regions reported for a
declaration lie inside that declaration's extent (astdiff bounds them by the neighbouring
siblings and their comments) -/
theorem outside_changed_survives (ivs : List Iv) (c : Comment)
    (hout : ∀ i ∈ ivs, c.pos < i.s ∨ i.e < c.stop) : dropped ivs c = false := by
  unfold dropped
  rw [List.any_eq_false]
  intro i hi
  unfold inside
  rcases hout i hi with h | h
  · have : ¬ i.s ≤ c.pos := by omega
    simp [this]
  · have : ¬ c.stop ≤ i.e := by omega
    simp [this]

/-- **Comments of an untouched declaration survive**, given what astdiff owes the filter: if no changed interval
reaches into the extent of a declaration (`respects`, evaluated on the real engine's intervals on every run), every
comment lying within that extent — its doc comment, the comments inside it, those trailing its last line — is kept. -/
theorem untouched_declaration_keeps_comments (ivs : List Iv) (untouched : List Extent) (x : Extent) (c : Comment)
    (hr : respects ivs untouched = true) (hx : x ∈ untouched) (hin : x.s ≤ c.pos ∧ c.stop ≤ x.e) (hne : c.pos < c.stop) :
    dropped ivs c = false := by
  unfold dropped
  rw [List.any_eq_false]
  intro i hi
  have h1 := (List.all_eq_true.1 hr) i hi
  have h2 := (List.all_eq_true.1 h1) x hx
  unfold clearOf at h2
  unfold inside
  simp only [Bool.or_eq_true, beq_iff_eq, decide_eq_true_eq] at h2
  rcases h2 with (h0 | h3) | h4
  · simp [h0]
  · have : ¬ c.stop ≤ i.e := by omega
    simp [this]
  · have : ¬ i.s ≤ c.pos := by omega
    simp [this]

/-- the driver reports an offending (interval, declaration) pair exactly when `respects` fails -/
theorem no_offender_iff_respects (ivs : List Iv) (untouched : List Extent) :
    offender ivs untouched = none ↔ respects ivs untouched = true := by
  unfold offender respects
  rw [List.find?_eq_none]
  simp only [List.mem_flatMap, List.mem_map, Bool.not_eq_true', Bool.not_eq_false, List.all_eq_true]
  constructor
  · intro h i hi x hx
    have := h (i, x) ⟨i, hi, x, hx, rfl⟩
    simpa using this
  · rintro h ⟨i, x⟩ ⟨i', hi, x', hx, heq⟩
    cases heq
    simpa using h i hi x hx

/-- and after any number of changes: it is still there, exactly as often as before -/
theorem untouched_declaration_keeps_comments_all (changes : List (List Iv)) (untouched : List Extent) (x : Extent)
    (hr : ∀ ivs ∈ changes, respects ivs untouched = true) (hx : x ∈ untouched) (cs : List Comment) (c : Comment)
    (hin : x.s ≤ c.pos ∧ c.stop ≤ x.e) (hne : c.pos < c.stop) :
    (changes.foldl (fun acc ivs => filterComments ivs acc) cs).count c = cs.count c := by
  induction changes generalizing cs with
  | nil => rfl
  | cons ivs rest ih =>
    simp only [List.foldl_cons]
    rw [ih (fun i hi => hr i (List.mem_cons_of_mem _ hi))]
    have hd := untouched_declaration_keeps_comments ivs untouched x c (hr ivs (List.mem_cons_self ..)) hx hin hne
    unfold filterComments
    rw [List.count_filter]
    simp [hd]

/-- the witness of the repaired defect F21: an interval that starts in one rewritten declaration and ends in another
reaches into the untouched declaration between them, and its comment is dropped -/
example : respects [⟨417, 491⟩] [⟨430, 470⟩] = false ∧ dropped [⟨417, 491⟩] ⟨437, 455, "// free-standing 6"⟩ = true := by decide

/-- intervals that start at NoPos (what astdiff reports for nodes without a position, e.g. a
freshly added import) never remove a comment: the file's header and package comments, which
precede every node with a position, are out of reach of the filter -/
theorem nopos_interval_ignored (e : Nat) (c : Comment) : inside ⟨0, e⟩ c = false := by
  simp [inside]

theorem before_all_nodes_survives (ivs : List Iv) (c : Comment)
    (h : ∀ i ∈ ivs, i.s = 0 ∨ c.pos < i.s) : dropped ivs c = false := by
  unfold dropped
  rw [List.any_eq_false]
  intro i hi
  unfold inside
  rcases h i hi with h0 | h1
  · simp [h0]
  · have : ¬ i.s ≤ c.pos := by omega
    simp [this]

mutual
/-- the copy a metavariable produces never carries a comment: comment text cannot be duplicated
by using a metavariable several times -/
theorem copy_no_comments (fb : Bool) : ∀ v, noComments (copyV fb v) = true
  | .pos _ _ => by simp [copyV, noComments]
  | .str _ => by simp [copyV, noComments]
  | .int _ => by simp [copyV, noComments]
  | .bool _ => by simp [copyV, noComments]
  | .nilP _ => by simp [copyV, noComments]
  | .nilI _ => by simp [copyV, noComments]
  | .nilS _ => by simp [copyV, noComments]
  | .iface i v => by simp [copyV, noComments, copy_no_comments fb v]
  | .slice e vs => by simp [copyV, noComments, copyL_no_comments fb vs]
  | .ptr t id fs => by
      unfold copyV
      by_cases h : ignoredPtr t = true
      · simp [h, noComments]
      · have ht : t ≠ "ast.CommentGroup" := by
          intro hh; apply h; simp [ignoredPtr, hh]
        simp [h, noComments, ht, copyL_no_comments fb fs]
theorem copyL_no_comments (fb : Bool) : ∀ vs, noCommentsL (copyVs fb vs) = true
  | [] => by simp [copyVs, noCommentsL]
  | v :: vs => by simp [copyVs, noCommentsL, copy_no_comments fb v, copyL_no_comments fb vs]
end

/-- non-vacuity: a comment inside a rewritten region is dropped; one between two regions (an
elided run) and one covered only by a NoPos interval are kept -/
example : filterComments [⟨10, 20⟩, ⟨30, 40⟩, ⟨0, 9⟩]
    [⟨1, 8, "//go:build x"⟩, ⟨12, 18, "/* in rewritten */"⟩, ⟨22, 28, "/* in elided */"⟩, ⟨50, 60, "// elsewhere"⟩]
    = [⟨1, 8, "//go:build x"⟩, ⟨22, 28, "/* in elided */"⟩, ⟨50, 60, "// elsewhere"⟩] := by decide

/-! ### where the changed regions come from: the model of internal/astdiff (AstDiff.lean) -/

/-- **astdiff invents no position.** Every region `Snapshot.Diff` reports to the changelog is made of the
end points of the old snapshot's own extent and of positions stored in the old snapshot (the Pos/End of a
node, a valid token.Pos field, the Pos/End of a comment the comment map associates with a node) — whatever the
new tree is. `P` is any predicate on positions that the old snapshot satisfies throughout. -/
theorem reported_regions_are_made_of_old_positions (P : Nat → Prop) (old new : AD.AV)
    (hroot : P old.pos ∧ P old.stop) (hold : AD.AllPos (AD.flowOf P) old) :
    ∀ r ∈ (AD.diff old new).ch, P r.pos ∧ P r.stop :=
  AD.walk_P (AD.flowOf P) old _ new hroot hold

/-- **Untouched neighbours are left alone.** In a list of nodes (the declarations of a file, the statements
of a block) regions are reported only for the elements the edit script does not pair as identical, and each
is made of positions of that element and of the region allotted to it; when these lie on one side of a
stretch `[lo, hi)` — the extent of a declaration paired as identical — no reported region reaches into that
stretch, whatever the new list is. (`AD.Sep` speaks about the old snapshot and the edit script only; the driver
evaluates its decidable form `AD.sepB` on the declarations of every real snapshot.) -/
theorem untouched_neighbours_left_alone (lo hi : Nat) (kids : List AD.AV) (regs : List AD.Rg) (fts : List AD.Fate)
    (new : List AD.AV) (hsep : AD.sepB lo hi kids regs fts = true) :
    ∀ r ∈ (AD.walkFates regs fts kids new).1, r.stop ≤ lo ∨ hi ≤ r.pos :=
  AD.walkFates_clear lo hi kids regs fts new (AD.sepB_sound lo hi kids regs fts hsep)

/-- **Unchanged syntax reports nothing**: when the new tree agrees with the old snapshot up to positions and
comments (`AD.Same`), `Snapshot.Diff` reports no region at all — for trees of every size, through
`diff.Difference`, `alignSlices` and `compareNodes` as they are. -/
theorem unchanged_syntax_reports_nothing (old new : AD.AV) (h : AD.Same old new) : (AD.diff old new).ch = [] :=
  AD.walk_same old _ new h

/-- in particular a tree compared with itself: every value agrees with itself (`AD.same_refl`), so the hypothesis above is
satisfiable for every tree -/
theorem same_tree_reports_nothing (v : AD.AV) : (AD.diff v v).ch = [] :=
  AD.walk_same v _ v (AD.same_refl v)

/-- and `compareNodes` finds such trees equal, so an untouched element of a list can be paired as identical -/
theorem unchanged_syntax_compares_equal (old new : AD.AV) (h : AD.Same old new) : (AD.cmp old new).equal = true := by
  simp [AD.Res.equal, AD.cmp_same old new h]

/-- **The script of `diff.Difference` accounts for both lists completely**, whatever the comparison says and
whether or not its search budget ran out. -/
theorem list_diff_accounts_for_both_lists (nx ny : Nat) (f : Int → Int → AD.Res) :
    AD.lenX (AD.difference nx ny f).1 = nx ∧ AD.lenY (AD.difference nx ny f).1 = ny :=
  AD.difference_len nx ny f

/-- **Declarations that were not rewritten are paired with themselves.** A list of nodes of which any number
were rewritten in place (`kept i = false`): every other element, unchanged up to positions and comments, gets
the fate "identical to element `i` of the new list" from `alignSlices` — so nothing is reported for it and its
comment associations are carried over — provided no element of the old list is identical to a *different*
element of the new list (twins) and fewer than 64 rewritten elements stand in a row (the look-ahead). -/
theorem untouched_elements_paired_with_themselves (old new : List AD.AV) (kept : Nat → Bool)
    (hlen : old.length = new.length)
    (hk : ∀ (i : Nat) (f t : AD.AV), old[i]? = some f → new[i]? = some t → kept i = true → AD.Same f t)
    (hnk : ∀ (i : Nat) (f t : AD.AV), old[i]? = some f → new[i]? = some t → kept i = false → (AD.cmp f t).equal = false)
    (htwins : ∀ (i k : Nat) (f t : AD.AV), old[i]? = some f → new[k]? = some t → i ≠ k → (AD.cmp f t).equal = false)
    (hrun : ∀ i a, i < old.length → kept i = true → a ≤ i → (∀ t, a ≤ t → t < i → kept t = false) → i - a < 64) :
    ∀ i, i < old.length → kept i = true →
      (AD.fates (AD.alignSlices (AD.cmpRows old new) old.length new.length).1 0)[i]? = some (.same i) := by
  rw [← hlen]
  apply AD.alignSlices_keeps (AD.cmpRows old new) old.length kept
  · intro i hi hki
    have hi' : i < new.length := hlen ▸ hi
    rw [AD.lookup_cmpRows old new i i old[i] new[i] (by simp [hi]) (by simp [hi'])]
    have := AD.cmp_same _ _ (hk i old[i] new[i] (by simp [hi]) (by simp [hi']) hki)
    simp [AD.Res.equal, this]
  · intro i hi hki
    have hi' : i < new.length := hlen ▸ hi
    rw [AD.lookup_cmpRows old new i i old[i] new[i] (by simp [hi]) (by simp [hi'])]
    exact hnk i old[i] new[i] (by simp [hi]) (by simp [hi']) hki
  · intro i k hi hk' hik
    have hk'' : k < new.length := hlen ▸ hk'
    rw [AD.lookup_cmpRows old new i k old[i] new[k] (by simp [hi]) (by simp [hk''])]
    exact htwins i k old[i] new[k] (by simp [hi]) (by simp [hk'']) hik
  · exact hrun

/-- **The same when the list changes its length** (import declarations added, merged or removed in front of the others):
`σ` pairs the elements that stayed as they were with their partners in the new list, strictly increasing; if these are the
only identical pairs (no twins) and no more than 63 new elements stand between the partners of two consecutive ones,
`alignSlices` gives each of them the fate "identical to its partner". -/
theorem untouched_elements_paired_with_partners (old new : List AD.AV) (σ : Nat → Option Nat)
    (hin : ∀ i k, i < old.length → σ i = some k → k < new.length)
    (hsame : ∀ (i k : Nat) (f t : AD.AV), old[i]? = some f → new[k]? = some t → σ i = some k → AD.Same f t)
    (htwins : ∀ (i k : Nat) (f t : AD.AV), old[i]? = some f → new[k]? = some t → σ i ≠ some k → (AD.cmp f t).equal = false)
    (hmono : ∀ i i' k k', i < i' → i' < old.length → σ i = some k → σ i' = some k' → k < k')
    (hrun : ∀ i k b, i < old.length → σ i = some k → b ≤ k → (∀ i' k', i' < i → σ i' = some k' → k' < b) → k - b < 64) :
    ∀ i k, i < old.length → σ i = some k →
      (AD.fates (AD.alignSlices (AD.cmpRows old new) old.length new.length).1 0)[i]? = some (.same k) := by
  apply AD.alignSlices_anchors (AD.cmpRows old new) old.length new.length σ
  · intro i k hi hs
    have hk := hin i k hi hs
    refine ⟨hk, ?_⟩
    rw [AD.lookup_cmpRows old new i k old[i] new[k] (by simp [hi]) (by simp [hk])]
    have := AD.cmp_same _ _ (hsame i k old[i] new[k] (by simp [hi]) (by simp [hk]) hs)
    simp [AD.Res.equal, this]
  · intro i k hi hk hs
    rw [AD.lookup_cmpRows old new i k old[i] new[k] (by simp [hi]) (by simp [hk])]
    exact htwins i k old[i] new[k] (by simp [hi]) (by simp [hk]) hs
  · exact hmono
  · exact hrun

/-- **Paired as identical only if compared equal.** The converse direction: whatever the two lists look like, `alignSlices`
gives element `i` of the old list the fate "identical to element `j` of the new list" only when `compareNodes` found the two
equal (`diff.Difference` puts identities on equal cells only — `AD.difference_ids` — and the anchoring looks for equal
cells). So a declaration that was rewritten is never treated as untouched, and the comments carried over to the next
snapshot always belong to syntax that compared equal. -/
theorem paired_identical_only_if_compared_equal (old new : List AD.AV) (i j : Nat) (f t : AD.AV)
    (hf : old[i]? = some f) (ht : new[j]? = some t)
    (h : (AD.fates (AD.alignSlices (AD.cmpRows old new) old.length new.length).1 0)[i]? = some (.same j)) :
    (AD.cmp f t).equal = true := by
  have := AD.alignSlices_same_equal (AD.cmpRows old new) old.length new.length i j h
  rwa [AD.lookup_cmpRows old new i j f t hf ht] at this

/-- a region that keeps clear of a stretch in this sense is `strongClear` of it: the hypothesis of `changelog_keeps_clear` -/
theorem clear_region_strong (lo hi : Nat) (r : AD.Rg) (h : r.stop ≤ lo ∨ hi ≤ r.pos) :
    strongClear ⟨r.pos, r.stop⟩ ⟨lo, hi⟩ = true := by
  unfold strongClear
  simp only [Bool.or_eq_true, decide_eq_true_eq]
  rcases h with h | h
  · exact Or.inl (Or.inl h)
  · exact Or.inl (Or.inr h)

/-- what `soundOutB` tests: every interval the changelog returned is non-empty and holds changed positions only -/
theorem soundOutB_spec (out plus minus : List Iv) (h : soundOutB out plus minus = true) :
    ∀ iv ∈ out, iv.s < iv.e ∧ ∀ p, iv.s ≤ p → p < iv.e → changedAt plus minus p = true := by
  intro iv hiv
  have h1 := (List.all_eq_true.1 h) iv hiv
  simp only [Bool.and_eq_true, decide_eq_true_eq] at h1
  refine ⟨h1.1, fun p hp1 hp2 => ?_⟩
  have := (List.all_eq_true.1 h1.2) p (by
    rw [List.mem_range'_1]
    omega)
  exact this

/-- **From the regions astdiff reports to the intervals the comment filter sees.** `ChangedIntervals` is the set of
positions recorded as changed minus those recorded as unchanged (`changedAt`; the intervals the real changelog returns
are tested against it on every run: `soundOutB`, and compared with the model's own canonical list). If every recorded
region keeps clear of a non-empty extent — with no exemption for regions starting at NoPos — so does every interval
the changelog returns, whatever was recorded as unchanged. -/
theorem changelog_keeps_clear (plus minus out : List Iv) (x : Extent) (hx : x.s < x.e)
    (hs : soundOutB out plus minus = true) (hc : ∀ r ∈ plus, strongClear r x = true) :
    ∀ iv ∈ out, clearOf iv x = true := by
  intro iv hiv
  obtain ⟨hval, hpos⟩ := soundOutB_spec out plus minus hs iv hiv
  unfold clearOf
  simp only [Bool.or_eq_true, beq_iff_eq, decide_eq_true_eq]
  by_cases h1 : iv.e ≤ x.s
  · exact Or.inl (Or.inr h1)
  by_cases h2 : x.e ≤ iv.s
  · exact Or.inr h2
  exfalso
  -- a position that lies in the interval and in the extent
  have hp := hpos (max iv.s x.s) (Nat.le_max_left _ _) (by
    rcases Nat.le_total iv.s x.s with h | h
    · rw [Nat.max_eq_right h]; omega
    · rw [Nat.max_eq_left h]; exact hval)
  simp only [changedAt, Bool.and_eq_true, covers, List.any_eq_true, decide_eq_true_eq] at hp
  obtain ⟨⟨r, hr, hrp⟩, _⟩ := hp
  have hcl := hc r hr
  simp only [strongClear, Bool.or_eq_true, decide_eq_true_eq] at hcl
  have hm1 : x.s ≤ max iv.s x.s := Nat.le_max_right _ _
  have hm2 : max iv.s x.s < x.e := by
    rcases Nat.le_total iv.s x.s with h | h
    · rw [Nat.max_eq_right h]; exact hx
    · rw [Nat.max_eq_left h]; omega
  rcases hcl with (h | h) | h <;> omega

/-- the same for a list of extents: `respects`, the premise of `untouched_declaration_keeps_comments` -/
theorem changelog_respects (plus minus out : List Iv) (untouched : List Extent)
    (hne : ∀ x ∈ untouched, x.s < x.e) (hs : soundOutB out plus minus = true)
    (hc : ∀ r ∈ plus, ∀ x ∈ untouched, strongClear r x = true) : respects out untouched = true := by
  unfold respects
  rw [List.all_eq_true]
  intro iv hiv
  rw [List.all_eq_true]
  intro x hx
  exact changelog_keeps_clear plus minus out x (hne x hx) hs (fun r hr => hc r hr x hx) iv hiv

/-- non-vacuity: two declarations, the first paired as identical, the second deleted; the second and its
region `[20, 40)` lie right of the first one's extent `[10, 20)` -/
example : AD.sepB 10 20
    [.mk "*ast.GenDecl" 0 true 10 20 [] false "" false [], .mk "*ast.FuncDecl" 0 true 22 40 [] false "" false []]
    [⟨5, 22⟩, ⟨20, 40⟩] [.same 0, .deleted] = true := by decide

/-- **A node edited in place keeps the comments around it** (F27).  When a pointer or interface value is
compared with the value of one and the same node object (`sameNodeB`: the package name a change renamed,
the parent of a replaced node), the new snapshot records for it the comment groups the old snapshot
recorded, whether or not the node compared equal - so the next `Diff` still knows which comments trail
it, and a later change that deletes its neighbour does not take them along. -/
theorem edited_in_place_keeps_comments (R : AD.Rg) (ty : String) (k : Nat) (isn : Bool) (p e : Nat)
    (cms : List AD.CG) (pl : String) (en : Bool) (kids : List AD.AV) (to : AD.AV)
    (hk : (k == AD.kPtr || k == AD.kIface) = true) (hty : (ty != to.ty) = false)
    (h1 : (ty == AD.tyObject) = false) (h2 : (ty == AD.tyCommentGroup) = false) (h3 : (ty == AD.tyPos) = false)
    (hnn : to.isNil = false) (hs : AD.sameNodeB isn k pl kids to = true) :
    (AD.walk R (.mk ty k isn p e cms false pl en kids) to).to.cms = cms := by
  rw [AD.walk.eq_def]
  simp only [hty, h1, h2, h3, hk, hnn, hs, Bool.false_eq_true, ↓reduceIte, Bool.or_true]
  cases to with
  | mk t k' n p' e' c nl pl' en' ks => simp [AD.AV.withCms, AD.AV.withKids, AD.AV.cms]

/-- non-vacuity: the identifier of the package clause, renamed in place (object 7 in both snapshots) -/
example : AD.sameNodeB true AD.kPtr "@7" [.mk "ast.Ident" 3 false 0 0 [] false "" false []]
    (.mk "*ast.Ident" 0 true 9 10 [] false "@7" false [.mk "ast.Ident" 3 false 0 0 [] false "" false []]) = true := by decide

/-- **The comments above the package clause survive the filter.** When every interval `ChangedIntervals` returns starts
at `NoPos` - such an interval the filter skips: the phantom region astdiff reports for the comment groups an earlier change
removed starts there - or at or after the `package` keyword (evaluated by the driver on the intervals of every real step),
no comment that ends at or before the keyword is dropped: copyright, build constraints and the package's doc comment stay. -/
theorem header_comments_survive_the_filter (hi : Nat) (ivs : List Iv) (cs : List Comment) (c : Comment)
    (hmem : c ∈ cs) (hc : c.pos < c.stop) (hh : c.stop ≤ hi) (h : startsClearB hi ivs = true) :
    c ∈ filterComments ivs cs := by
  unfold filterComments
  rw [List.mem_filter]
  refine ⟨hmem, ?_⟩
  simp only [Bool.not_eq_true', dropped, List.any_eq_false]
  intro i hi'
  have hs := (List.all_eq_true.1 h) i hi'
  simp only [Bool.or_eq_true, beq_iff_eq, decide_eq_true_eq] at hs
  simp only [inside, Bool.and_eq_true, bne_iff_ne, ne_eq, decide_eq_true_eq, not_and]
  intro h0 h1
  rcases hs with hs | hs
  · exact absurd hs h0.1
  · have := h0.2; omega

/-- non-vacuity: a phantom interval from NoPos and a real one after the package clause at 40 -/
example : startsClearB 40 [⟨0, 332⟩, ⟨349, 360⟩] = true := by decide

end Gopatch.C17
