import GopatchModel.Cli
namespace Gopatch.C12
open Gopatch

theorem step_dry_no_write (o : Opts) (dt) (f : FileIn) (h : o.diff = true ∨ o.print = true) :
    writesOf (stepFile o dt f) = [] := by
  unfold stepFile writesOf
  split
  · simp
  · split
    · simp
    · split
      · simp
      · split
        · by_cases hp : o.print = true <;> simp [hp]
        · by_cases hp : o.print = true <;> simp [hp]
        · simp
        · rcases h with h | h
          · simp [h]
          · by_cases hd : o.diff = true <;> simp [hd, h]

/-- With --diff or --print-only the run performs no write, for every patch outcome and file list. -/
theorem dry_run_no_write (o : Opts) (dt) (fs : List FileIn) (h : o.diff = true ∨ o.print = true) :
    writesOf (runFiles o dt fs) = [] := by
  induction fs with
  | nil => simp [runFiles, writesOf]
  | cons f fs ih =>
    have e : runFiles o dt (f :: fs) = stepFile o dt f ++ runFiles o dt fs := by simp [runFiles]
    have h1 := step_dry_no_write o dt f h
    rw [e]; unfold writesOf at *; simp [List.filterMap_append, h1, ih]

/-- For a patched file the three modes carry the same bytes: written in place, printed,
and (through the diff) reconstructible from the original. -/
theorem modes_agree (dt : String → String → String → String) (applyDiff : String → String → String)
    (hdiff : ∀ name a b, applyDiff (dt name a b) a = b)
    (f : FileIn) (c b : String) (cs : List String)
    (hc : f.content = some c) (hp : f.parses = true) (ha : f.apply = .ok b cs)
    (o : Opts) (hg : (o.skipGenerated && f.generated) = false) :
    writesOf (stepFile { o with diff := false, print := false } dt f) = [(f.abs, b)] ∧
    (stepFile { o with diff := false, print := true } dt f).filterMap
        (fun x => match x with | .stdout s => some s | _ => none) = [b] ∧
    ((stepFile { o with diff := true } dt f).filterMap
        (fun x => match x with | .stdout s => some s | _ => none)).map (fun d => applyDiff d c) = [b] := by
  have hg' : (o.skipGenerated && f.generated) = false := hg
  refine ⟨?_, ?_, ?_⟩
  · unfold stepFile writesOf; simp [hc, hp, ha, hg']
  · unfold stepFile; simp [hc, hp, ha, hg', List.filterMap_append]
  · unfold stepFile; simp [hc, hp, ha, hg', List.filterMap_append, hdiff]

/-- descriptions are emitted on stderr only for files to which a change applied and whose
output was emitted; every such line is `provided:comment` -/
theorem stderr_only_for_patched (o : Opts) (dt) (f : FileIn) (s : String)
    (h : s ∈ stderrOf (stepFile o dt f)) :
    ∃ b cs, f.apply = .ok b cs ∧ (o.diff = true ∨ o.print = true) ∧ ∃ c ∈ cs, s = s!"{f.provided}:{c}" := by
  unfold stepFile stderrOf at h
  split at h
  · simp at h
  · split at h
    · simp at h
    · split at h
      · simp at h
      · split at h
        · by_cases hp : o.print = true <;> simp [hp] at h
        · by_cases hp : o.print = true <;> simp [hp] at h
        · simp at h
        · rename_i bytes comments hap
          by_cases hd : o.diff = true
          · simp [hd, List.filterMap_append] at h
            obtain ⟨c, hc, rfl⟩ := h
            exact ⟨bytes, comments, hap, Or.inl hd, c, hc, rfl⟩
          · by_cases hp : o.print = true
            · simp [hd, hp, List.filterMap_append] at h
              obtain ⟨c, hc, rfl⟩ := h
              exact ⟨bytes, comments, hap, Or.inr hp, c, hc, rfl⟩
            · simp [hd, hp] at h

/-- the library API returns the same bytes as the CLI emits -/
theorem api_agrees (src b : String) (cs : List String) : applyApi src true (.ok b cs) = .ok b := by
  simp [applyApi]

end Gopatch.C12
