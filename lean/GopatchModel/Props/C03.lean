import GopatchModel.FileM
namespace Gopatch.C03

/-- a metavariable on the '+' side that was never bound is an error, not a rewrite -/
theorem unbound_metavar_errors (mt : Meta) (assoc : List (Nat × Nat)) (id : Nat) (fs : List V)
    (d : Data) (fb : Bool) (k : Kind)
    (hm : mt.look (identName fs) = some k) (hu : d.lookMv (identName fs) = none) :
    ∃ e, replaceV mt assoc (.ptr "ast.Ident" id fs) d fb = .error e := by
  simp [replaceV, ignoredPtr, hm, hu]

end Gopatch.C03
