import GopatchModel.Spec.Sound
import GopatchModel.Spec.MatchInv
import GopatchModel.FileM
namespace Gopatch.C03
open Gopatch

/-- a metavariable on the '+' side that was never bound is an error, not a rewrite -/
theorem unbound_metavar_errors (mt : Meta) (assoc : List (Nat × Nat)) (id : Nat) (fs : List V)
    (d : Data) (fb : Bool) (k : Kind)
    (hm : mt.look (identName fs) = some k) (hu : d.lookMv (identName fs) = none) :
    ∃ e, replaceV mt assoc (.ptr "ast.Ident" id fs) d fb = .error e := by
  simp [replaceV, ignoredPtr, hm, hu]

/-- every occurrence of a bound metavariable on the '+' side is replaced by a copy of the code
it stood for at this site -/
theorem metavar_replaced_by_copy (mt : Meta) (assoc : List (Nat × Nat)) (id : Nat) (fs : List V)
    (d : Data) (fb : Bool) (k : Kind) (c : V)
    (hm : mt.look (identName fs) = some k) (hb : d.lookMv (identName fs) = some c) :
    replaceV mt assoc (.ptr "ast.Ident" id fs) d fb = .ok (copyV fb c) := by
  simp [replaceV, ignoredPtr, hm, hb]

mutual
/-- the copy is syntactically identical to the captured code (the matcher of the captured value
accepts it: same tree up to comments, objects and position values) -/
theorem copy_is_identical : ∀ v, eqvM v (copyV true v) = true
  | .pos b k => by cases b <;> simp [copyV, eqvM]
  | .str _ => by simp [copyV, eqvM]
  | .int _ => by simp [copyV, eqvM]
  | .bool _ => by simp [copyV, eqvM]
  | .nilP _ => by simp [copyV, eqvM, V.isNil]
  | .nilI _ => by simp [copyV, eqvM, V.isNil]
  | .nilS e => by
      rw [copyV.eq_def]; simp only
      rw [eqvM.eq_def]; simp only
      by_cases h : dotsElem e = true <;> simp [h, V.isNil]
  | .iface i v => by
      rw [copyV.eq_def]; simp only
      rw [eqvM.eq_def]; simp only
      exact copy_is_identical v
  | .slice e vs => by
      rw [copyV.eq_def]; simp only
      rw [eqvM.eq_def]; simp only
      exact copyL_is_identical vs
  | .ptr t id fs => by
      rw [copyV.eq_def]; simp only
      by_cases h : ignoredPtr t = true
      · simp only [h, ↓reduceIte]
        rw [eqvM.eq_def]; simp [h]
      · simp only [h, Bool.false_eq_true, ↓reduceIte]
        rw [eqvM.eq_def]; simp [copyL_is_identical fs]
theorem copyL_is_identical : ∀ vs, eqvMs vs (copyVs true vs) = true
  | [] => by simp [copyVs, eqvMs]
  | v :: vs => by simp [copyVs, eqvMs, copy_is_identical v, copyL_is_identical vs]
end

mutual
/-- every node of a copy is new -/
def allFresh : V → Bool
  | .iface _ v => allFresh v
  | .slice _ vs => allFreshL vs
  | .ptr _ id fs => id == 0 && allFreshL fs
  | _ => true
def allFreshL : List V → Bool
  | [] => true
  | v :: vs => allFresh v && allFreshL vs
end

mutual
/-- the copy shares no node with the file: using a metavariable twice puts two separate copies
into the result, never the same subtree twice -/
theorem copy_is_fresh (fb : Bool) : ∀ v, allFresh (copyV fb v) = true
  | .pos _ _ => by simp [copyV, allFresh]
  | .str _ => by simp [copyV, allFresh]
  | .int _ => by simp [copyV, allFresh]
  | .bool _ => by simp [copyV, allFresh]
  | .nilP _ => by simp [copyV, allFresh]
  | .nilI _ => by simp [copyV, allFresh]
  | .nilS _ => by simp [copyV, allFresh]
  | .iface i v => by rw [copyV.eq_def]; simp only; rw [allFresh.eq_def]; simp only; exact copy_is_fresh fb v
  | .slice e vs => by rw [copyV.eq_def]; simp only; rw [allFresh.eq_def]; simp only; exact copyL_is_fresh fb vs
  | .ptr t id fs => by
      rw [copyV.eq_def]; simp only
      by_cases h : ignoredPtr t = true
      · simp [h, allFresh]
      · simp only [h, Bool.false_eq_true, ↓reduceIte]
        rw [allFresh.eq_def]; simp [copyL_is_fresh fb fs]
theorem copyL_is_fresh (fb : Bool) : ∀ vs, allFreshL (copyVs fb vs) = true
  | [] => by simp [copyVs, allFreshL]
  | v :: vs => by simp [copyVs, allFreshL, copy_is_fresh fb v, copyL_is_fresh fb vs]
end

/-- sites are rewritten independently: the value generated for a site is a function of that
site's own bindings only -/
theorem site_uses_own_bindings (c : Change) (assoc : List (Nat × Nat)) (s1 s2 : Site) (h : s1.data = s2.data) :
    nodeReplace c assoc s1.data = nodeReplace c assoc s2.data := by rw [h]

/-- a site is left unchanged only when the instantiated replacement is not admissible in that
position (the only silent skip of the replacement loop) -/
theorem skipped_iff_not_assignable (c : Change) (assoc : List (Nat × Nat)) (s : Site) (tree : V) (give : V)
    (hg : nodeReplace c assoc s.data = .ok give) (hn : assignable give s.slotTy = false) :
    applySites c assoc [s] tree = .ok tree := by
  simp [applySites, hg, hn, bind, Except.bind, pure, Except.pure]

/-- a site whose replacement can be generated but is not admissible in its slot -/
def Refused (c : Change) (assoc : List (Nat × Nat)) (s : Site) : Prop :=
  ∃ give, nodeReplace c assoc s.data = .ok give ∧ assignable give s.slotTy = false

/-- **A site that is left alone does not disturb the others.** Wherever it stands among the sites of a change, a site
whose replacement is not admissible may as well not be there: the loop ends the same way, with the same tree - what it
does to the sites before and after it does not depend on it. -/
theorem refused_site_is_as_good_as_absent (c : Change) (assoc : List (Nat × Nat)) (s : Site) (hs : Refused c assoc s) :
    ∀ (a b : List Site) (tree : V), applySites c assoc (a ++ s :: b) tree = applySites c assoc (a ++ b) tree
  | [], b, tree => by
    obtain ⟨give, hg, hn⟩ := hs
    simp [applySites, hg, hn, bind, Except.bind]
  | x :: a, b, tree => by
    cases hx : nodeReplace c assoc x.data with
    | error e => simp [applySites, hx, bind, Except.bind]
    | ok gx =>
      simp only [List.cons_append, applySites, hx, bind, Except.bind]
      exact refused_site_is_as_good_as_absent c assoc s hs a b _

/-- a change none of whose sites admits its replacement leaves the tree as it is, and does not fail -/
theorem all_sites_inadmissible_is_a_noop (c : Change) (assoc : List (Nat × Nat)) :
    ∀ (sites : List Site) (tree : V), (∀ s ∈ sites, Refused c assoc s) → applySites c assoc sites tree = .ok tree
  | [], tree, _ => by simp [applySites, pure, Except.pure]
  | s :: ss, tree, h => by
    have := refused_site_is_as_good_as_absent c assoc s (h s (List.mem_cons_self)) [] ss tree
    simp only [List.nil_append] at this
    rw [this]
    exact all_sites_inadmissible_is_a_noop c assoc ss tree (fun x hx => h x (List.mem_cons_of_mem _ hx))

/-- non-vacuity: a selector generated for a slot that holds a name (`-Name` / `+defaults.Name` at a field name) is refused -/
def exChange : Change :=
  { (default : Change) with plus := { pkg := "", imports := [], kind := "expr", node := .ptr "ast.SelectorExpr" 7 [.str "defaults", .str "Name"] } }
def exSite : Site := { parent := 3, field := 1, index := none, slotTy := "*ast.Ident", data := default }
example : Refused exChange [] exSite := ⟨_, rfl, by decide +kernel⟩

/-- '+' tokens that are not metavariables appear verbatim: scalars are reproduced as they are -/
theorem scalars_verbatim (mt : Meta) (assoc : List (Nat × Nat)) (d : Data) (fb : Bool) (s : String) (n : Int) (b : Bool) :
    replaceV mt assoc (.str s) d fb = .ok (.str s) ∧ replaceV mt assoc (.int n) d fb = .ok (.int n) ∧
    replaceV mt assoc (.bool b) d fb = .ok (.bool b) := by
  simp [replaceV]

/-! ### the replacement is an instance of the '+' pattern under the site's own substitution -/

/-- what matching guarantees about the data store it returns: a metavariable stands for non-nil code of its
declared kind; a recorded loop header knows where its body goes -/
def GoodData (mt : Meta) (d : Data) : Prop :=
  (∀ n c k, d.lookMv n = some c → mt.look n = some k → kindOK k c = true ∧ c.isNil = false) ∧
  (∀ k fd, d.lookFor k = some fd → bodyIdxOf fd.ty = some fd.bodyIdx ∧ fd.bodyIdx < fd.fields.length)

mutual
/-- every elision of the '+' pattern has a counterpart that captured a run at this site -/
def dotsBound (assoc : List (Nat × Nat)) (d : Data) : V → Bool
  | .iface _ v => dotsBound assoc d v
  | .slice e vs => if dotsElem e then dotsBoundSeq assoc d e vs else dotsBoundL assoc d vs
  | .ptr _ _ fs => dotsBoundL assoc d fs
  | _ => true
def dotsBoundL (assoc : List (Nat × Nat)) (d : Data) : List V → Bool
  | [] => true
  | v :: vs => dotsBound assoc d v && dotsBoundL assoc d vs
def dotsBoundSeq (assoc : List (Nat × Nat)) (d : Data) (e : String) : List V → Bool
  | [] => true
  | p :: ps =>
      (match dotsKeyOf e p with
       | some k => ((assocLook assoc k).bind d.lookDots).isSome
       | none => dotsBound assoc d p) && dotsBoundSeq assoc d e ps
end

theorem kindOK_copy (k : Kind) (c : V) (h : kindOK k c = true) (hn : c.isNil = false) :
    kindOK k (copyV true c) = true ∧ (copyV true c).isNil = false := by
  cases c with
  | ptr t id fs =>
    have hi : ignoredPtr t = false := by
      cases k with
      | ident =>
        simp only [kindOK] at h
        have : t = "ast.Ident" := by simpa using h
        subst this; decide
      | expr =>
        simp only [kindOK] at h
        by_cases hig : ignoredPtr t = true
        · simp only [ignoredPtr, Bool.or_eq_true, beq_iff_eq] at hig
          rcases hig with rfl | rfl
          · exact absurd h (by decide)
          · exact absurd h (by decide)
        · simpa using hig
    rw [copyV.eq_def]
    simp only [hi, Bool.false_eq_true, ↓reduceIte]
    refine ⟨?_, by simp [V.isNil]⟩
    cases k <;> simpa [kindOK] using h
  | nilP t => simp [V.isNil] at hn
  | pos _ _ => cases k <;> simp [kindOK] at h
  | str _ => cases k <;> simp [kindOK] at h
  | int _ => cases k <;> simp [kindOK] at h
  | bool _ => cases k <;> simp [kindOK] at h
  | nilI _ => cases k <;> simp [kindOK] at h
  | nilS _ => cases k <;> simp [kindOK] at h
  | iface _ _ => cases k <;> simp [kindOK] at h
  | slice _ _ => cases k <;> simp [kindOK] at h

theorem set_getElem? {α} (l : List α) (i : Nat) (x : α) (h : i < l.length) : (l.set i x)[i]? = some x := by
  simp [h]

mutual
/-- **The replacement is the '+' pattern instantiated with the site's bindings.** Whatever `Replace` generates for a
site is an instance (`Inst`: the same tree up to positions, comments and resolved objects) of the '+' pattern under
every substitution that agrees with the site's data store: each metavariable stands for (a copy identical to) the code
it was bound to at this site, everything else is the pattern's own syntax. -/
theorem replaceV_inst (mt : Meta) (assoc : List (Nat × Nat)) (σ : Subst) : ∀ (p : V) (d : Data) (r : V),
    GoodData mt d → Ext d σ → dotsBound assoc d p = true → replaceV mt assoc p d true = .ok r → Inst mt σ p r
  | .pos pv pk, d, r, _, _, _, h => by
    unfold replaceV at h
    cases pv with
    | false => simp at h; subst h; exact Inst.pos _ _ _
    | true =>
      simp only [Bool.not_true, Bool.false_eq_true, ↓reduceIte] at h
      split at h <;> (simp at h; subst h; exact Inst.pos _ _ _)
  | .str s, d, r, _, _, _, h => by simp [replaceV] at h; subst h; exact Inst.str _
  | .int n, d, r, _, _, _, h => by simp [replaceV] at h; subst h; exact Inst.int _
  | .bool b, d, r, _, _, _, h => by simp [replaceV] at h; subst h; exact Inst.bool _
  | .nilP t, d, r, _, _, _, h => by simp [replaceV] at h; subst h; exact Inst.nilP _ _ rfl
  | .nilI i, d, r, _, _, _, h => by simp [replaceV] at h; subst h; exact Inst.nilI _ _ rfl
  | .nilS e, d, r, _, _, _, h => by
    simp [replaceV] at h; subst h
    by_cases he : dotsElem e = true
    · exact Inst.nilSNil _ _ he
    · exact Inst.nilS _ _ (by simpa using he) rfl
  | .iface i pv, d, r, hg, hx, hb, h => by
    unfold replaceV at h
    simp only [dotsBound] at hb
    cases hr : replaceV mt assoc pv d true with
    | error e => simp [hr, Except.bind] at h
    | ok x =>
      simp only [hr, Except.bind] at h
      split at h
      · simp at h; subst h
        exact Inst.iface _ _ _ _ (replaceV_inst mt assoc σ pv d x hg hx hb hr)
      · simp at h
  | .slice e ps, d, r, hg, hx, hb, h => by
    unfold replaceV at h
    simp only [dotsBound] at hb
    by_cases he : dotsElem e = true
    · simp only [he, ↓reduceIte] at h hb
      cases hr : replaceSeq mt assoc e ps d true with
      | error e' => simp [hr, Except.bind] at h
      | ok x =>
        have ih := replaceSeq_inst mt assoc σ e ps d x.1 x.2 hg hx hb (by rw [hr])
        simp only [hr, Except.bind] at h
        split at h
        · rename_i hc
          simp at h; subst h
          simp only [Bool.and_eq_true, List.isEmpty_iff] at hc
          rw [hc.2] at ih
          exact Inst.sliceDotsNil _ _ _ he ih
        · simp at h; subst h
          exact Inst.sliceDots _ _ _ _ he ih
    · have he' : dotsElem e = false := by simpa using he
      simp only [he', Bool.false_eq_true, ↓reduceIte] at h hb
      cases hr : replaceVs mt assoc ps d true with
      | error e' => simp [hr, Except.bind] at h
      | ok items =>
        simp only [hr, Except.bind] at h
        simp at h; subst h
        exact Inst.slice _ _ _ _ he' (replaceVs_inst mt assoc σ ps d items hg hx hb hr)
  | .ptr t id fs, d, r, hg, hx, hb, h => by
    unfold replaceV at h
    simp only [dotsBound] at hb
    by_cases hi : ignoredPtr t = true
    · simp only [hi, ↓reduceIte] at h
      simp at h; subst h
      exact Inst.ignoredPtr _ _ _ _ hi
    · simp only [hi, Bool.false_eq_true, ↓reduceIte] at h
      by_cases hd : (t == "pgo.Dots") = true
      · simp [hd] at h
      · simp only [hd, Bool.false_eq_true, ↓reduceIte] at h
        by_cases hm : (t == "ast.Ident" && (mt.look (identName fs)).isSome) = true
        · simp only [hm, ↓reduceIte] at h
          simp only [Bool.and_eq_true, beq_iff_eq] at hm
          obtain ⟨rfl, hsome⟩ := hm
          obtain ⟨k, hk⟩ := Option.isSome_iff_exists.1 hsome
          cases hl : d.lookMv (identName fs) with
          | none => simp [hl] at h
          | some c =>
            simp only [hl] at h
            simp at h; subst h
            have hgc := hg.1 _ c k hl hk
            have hcopy := kindOK_copy k c hgc.1 hgc.2
            exact Inst.metavar id fs k _ c hk hcopy.1 hcopy.2 (hx _ c hl) (copy_is_identical c)
        · simp only [hm, Bool.false_eq_true, ↓reduceIte] at h
          have hident : t = "ast.Ident" → mt.look (identName fs) = none := by
            intro ht
            subst ht
            simp only [beq_self_eq_true, Bool.true_and, Bool.not_eq_true, Option.isSome_eq_false_iff, Option.isNone_iff_eq_none] at hm
            exact hm
          cases hf : forDotsKeyOf t fs with
          | some k =>
            simp only [hf] at h
            cases hl : (assocLook assoc k).bind d.lookFor with
            | none => simp [hl] at h
            | some fd =>
              simp only [hl] at h
              cases hr : replaceNth mt assoc fs 4 d true with
              | error e' => simp [hr, Except.bind] at h
              | ok body =>
                simp only [hr, Except.bind] at h
                simp at h; subst h
                obtain ⟨k', hk1, hk2⟩ : ∃ k', assocLook assoc k = some k' ∧ d.lookFor k' = some fd := by
                  cases ha : assocLook assoc k with
                  | none => simp [ha] at hl
                  | some k' => exact ⟨k', rfl, by simpa [ha] using hl⟩
                have hfd := hg.2 k' fd hk2
                exact Inst.forDots t id fs k fd.ty 0 _ fd.bodyIdx body hf hfd.1 (set_getElem? _ _ _ hfd.2)
                  (replaceNth_inst mt assoc σ fs 4 d body hg hx hb hr)
          | none =>
            simp only [hf] at h
            cases hr : replaceVs mt assoc fs d true with
            | error e' => simp [hr, Except.bind] at h
            | ok fs' =>
              simp only [hr, Except.bind] at h
              simp at h; subst h
              exact Inst.ptr t id 0 fs fs' hident hf (replaceVs_inst mt assoc σ fs d fs' hg hx hb hr)
theorem replaceVs_inst (mt : Meta) (assoc : List (Nat × Nat)) (σ : Subst) : ∀ (ps : List V) (d : Data) (rs : List V),
    GoodData mt d → Ext d σ → dotsBoundL assoc d ps = true → replaceVs mt assoc ps d true = .ok rs → InstList mt σ ps rs
  | [], d, rs, _, _, _, h => by simp [replaceVs] at h; subst h; exact InstList.nil
  | p :: ps, d, rs, hg, hx, hb, h => by
    unfold replaceVs at h
    simp only [dotsBoundL, Bool.and_eq_true] at hb
    cases hr : replaceV mt assoc p d true with
    | error e => simp [hr, Except.bind] at h
    | ok x =>
      simp only [hr, Except.bind] at h
      split at h
      · simp at h
      · cases hr2 : replaceVs mt assoc ps d true with
        | error e => simp [hr2, Except.bind] at h
        | ok xs =>
          simp only [hr2] at h
          simp at h; subst h
          exact InstList.cons _ _ _ _ (replaceV_inst mt assoc σ p d x hg hx hb.1 hr) (replaceVs_inst mt assoc σ ps d xs hg hx hb.2 hr2)
theorem replaceSeq_inst (mt : Meta) (assoc : List (Nat × Nat)) (σ : Subst) (e : String) : ∀ (ps : List V) (d : Data) (rs : List V) (b : Bool),
    GoodData mt d → Ext d σ → dotsBoundSeq assoc d e ps = true → replaceSeq mt assoc e ps d true = .ok (rs, b) → InstSeq mt σ e ps rs
  | [], d, rs, b, _, _, _, h => by
    simp [replaceSeq] at h
    obtain ⟨h1, _⟩ := h
    subst h1
    exact InstSeq.nil _
  | p :: ps, d, rs, b, hg, hx, hb, h => by
    unfold replaceSeq at h
    simp only [dotsBoundSeq, Bool.and_eq_true] at hb
    cases hk : dotsKeyOf e p with
    | some k =>
      simp only [hk] at h hb
      split at h
      · simp at h
      · have hsome : ((assocLook assoc k).bind d.lookDots).isSome = true := hb.1
        rw [hsome] at h
        cases hr : replaceSeq mt assoc e ps d true with
        | error e' => simp [hr, Except.bind] at h
        | ok x =>
          simp only [hr, Except.bind] at h
          simp at h
          rw [← h.1]
          exact InstSeq.dots e p k ps _ x.1 hk (replaceSeq_inst mt assoc σ e ps d x.1 x.2 hg hx hb.2 (by rw [hr]))
    | none =>
      simp only [hk] at h hb
      cases hr : replaceV mt assoc p d true with
      | error e' => simp [hr, Except.bind] at h
      | ok x =>
        simp only [hr, Except.bind] at h
        split at h
        · simp at h
        · cases hr2 : replaceSeq mt assoc e ps d true with
          | error e' => simp [hr2, Except.bind] at h
          | ok y =>
            simp only [hr2] at h
            simp at h
            rw [← h.1]
            exact InstSeq.elem e p x ps y.1 hk (replaceV_inst mt assoc σ p d x hg hx hb.1 hr)
              (replaceSeq_inst mt assoc σ e ps d y.1 y.2 hg hx hb.2 (by rw [hr2]))
theorem replaceNth_inst (mt : Meta) (assoc : List (Nat × Nat)) (σ : Subst) : ∀ (ps : List V) (i : Nat) (d : Data) (r : V),
    GoodData mt d → Ext d σ → dotsBoundL assoc d ps = true → replaceNth mt assoc ps i d true = .ok r → InstNth mt σ ps i r
  | [], i, d, r, _, _, _, h => by simp [replaceNth] at h
  | p :: ps, 0, d, r, hg, hx, hb, h => by
    simp only [replaceNth] at h
    simp only [dotsBoundL, Bool.and_eq_true] at hb
    exact InstNth.here _ _ _ (replaceV_inst mt assoc σ p d r hg hx hb.1 h)
  | p :: ps, i + 1, d, r, hg, hx, hb, h => by
    simp only [replaceNth] at h
    simp only [dotsBoundL, Bool.and_eq_true] at hb
    exact InstNth.there _ _ _ _ (replaceNth_inst mt assoc σ ps i d r hg hx hb.2 h)
end

/-- everything the matcher records keeps the data store good -/
theorem goodData_pushInv (mt : Meta) : PushInv mt (GoodData mt) where
  pos := fun d k h => h
  dots := fun d k run h => h
  mv := by
    intro d name g k h hk hok hnil hnone
    refine ⟨?_, h.2⟩
    intro n c k' hl hk'
    simp only [Data.lookMv, Data.pushMv, List.lookup_cons] at hl
    by_cases hn : (n == name) = true
    · simp only [hn] at hl
      cases hl
      have : n = name := by simpa using hn
      subst this
      rw [hk] at hk'; cases hk'
      exact ⟨hok, hnil⟩
    · have hn' : (n == name) = false := by simpa using hn
      simp only [hn'] at hl
      exact h.1 n c k' hl hk'
  loop := by
    intro d k t' bi gs gb h hbi hgb
    refine ⟨h.1, ?_⟩
    intro k' fd hl
    simp only [Data.lookFor, Data.pushFor, List.lookup_cons] at hl
    by_cases hk : (k' == k) = true
    · simp only [hk] at hl
      cases hl
      refine ⟨hbi, ?_⟩
      rcases Nat.lt_or_ge bi gs.length with h1 | h1
      · exact h1
      · rw [List.getElem?_eq_none h1] at hgb; cases hgb
    · have hk' : (k' == k) = false := by simpa using hk
      simp only [hk'] at hl
      exact h.2 k' fd hl

theorem goodData_empty (mt : Meta) : GoodData mt Data.empty := by
  refine ⟨?_, ?_⟩
  · intro n c k h; simp [Data.lookMv, Data.empty] at h
  · intro k fd h; simp [Data.lookFor, Data.empty] at h

/-- **The rewrite rule.** When the '-' pattern matches a piece of code, that code is an instance of the '-' pattern and
whatever is generated from the '+' pattern at that site is an instance of the '+' pattern — under one and the same
substitution, the site's bindings (`d'.mv`): every metavariable stands for the same code on both sides. (`dotsBound`: every
elision of the '+' side has a counterpart; otherwise the fallback position of what follows is invalid.) -/
theorem rewrite_rule (mt : Meta) (assoc : List (Nat × Nat)) (minus plus g r : V) (d' : Data)
    (hm : matchV mt minus g Data.empty = some d')
    (hb : dotsBound assoc d' plus = true)
    (hr : replaceV mt assoc plus d' true = .ok r) :
    Inst mt d'.mv minus g ∧ Inst mt d'.mv plus r := by
  have hx : Ext d' d'.mv := fun n c h => h
  have hg : GoodData mt d' := matchV_inv (goodData_pushInv mt) minus g Data.empty d' hm (goodData_empty mt)
  exact ⟨(matchV_sound mt minus g Data.empty d' hm).2 d'.mv hx, replaceV_inst mt assoc d'.mv plus d' r hg hx hb hr⟩

end Gopatch.C03
