import GopatchModel.Spec.Sound
import GopatchModel.FileM
namespace Gopatch.C03
open Gopatch

/-- a metavariable on the '+' side that was never bound is an error, not a rewrite -/
theorem unbound_metavar_errors (mt : Meta) (assoc : List (Nat × Nat)) (id : Nat) (fs : List V)
    (d : Data) (fb : Bool) (k : Kind)
    (hm : mt.look (identName fs) = some k) (hu : d.lookMv (identName fs) = none) :
    ∃ e, replaceV mt assoc (.ptr "ast.Ident" id fs) d fb = .error e := by
  simp [replaceV, ignoredPtr, hm, hu]

/-- every occurrence of a bound metavariable on the '+' side is replaced by a copy of the code
it stood for at this site -/
theorem metavar_replaced_by_copy (mt : Meta) (assoc : List (Nat × Nat)) (id : Nat) (fs : List V)
    (d : Data) (fb : Bool) (k : Kind) (c : V)
    (hm : mt.look (identName fs) = some k) (hb : d.lookMv (identName fs) = some c) :
    replaceV mt assoc (.ptr "ast.Ident" id fs) d fb = .ok (copyV fb c) := by
  simp [replaceV, ignoredPtr, hm, hb]

mutual
/-- the copy is syntactically identical to the captured code (the matcher of the captured value
accepts it: same tree up to comments, objects and position values) -/
theorem copy_is_identical : ∀ v, eqvM v (copyV true v) = true
  | .pos b k => by cases b <;> simp [copyV, eqvM]
  | .str _ => by simp [copyV, eqvM]
  | .int _ => by simp [copyV, eqvM]
  | .bool _ => by simp [copyV, eqvM]
  | .nilP _ => by simp [copyV, eqvM, V.isNil]
  | .nilI _ => by simp [copyV, eqvM, V.isNil]
  | .nilS e => by
      rw [copyV.eq_def]; simp only
      rw [eqvM.eq_def]; simp only
      by_cases h : dotsElem e = true <;> simp [h, V.isNil]
  | .iface i v => by
      rw [copyV.eq_def]; simp only
      rw [eqvM.eq_def]; simp only
      exact copy_is_identical v
  | .slice e vs => by
      rw [copyV.eq_def]; simp only
      rw [eqvM.eq_def]; simp only
      exact copyL_is_identical vs
  | .ptr t id fs => by
      rw [copyV.eq_def]; simp only
      by_cases h : ignoredPtr t = true
      · simp only [h, ↓reduceIte]
        rw [eqvM.eq_def]; simp [h]
      · simp only [h, Bool.false_eq_true, ↓reduceIte]
        rw [eqvM.eq_def]; simp [copyL_is_identical fs]
theorem copyL_is_identical : ∀ vs, eqvMs vs (copyVs true vs) = true
  | [] => by simp [copyVs, eqvMs]
  | v :: vs => by simp [copyVs, eqvMs, copy_is_identical v, copyL_is_identical vs]
end

mutual
/-- every node of a copy is new -/
def allFresh : V → Bool
  | .iface _ v => allFresh v
  | .slice _ vs => allFreshL vs
  | .ptr _ id fs => id == 0 && allFreshL fs
  | _ => true
def allFreshL : List V → Bool
  | [] => true
  | v :: vs => allFresh v && allFreshL vs
end

mutual
/-- the copy shares no node with the file: using a metavariable twice puts two separate copies
into the result, never the same subtree twice -/
theorem copy_is_fresh (fb : Bool) : ∀ v, allFresh (copyV fb v) = true
  | .pos _ _ => by simp [copyV, allFresh]
  | .str _ => by simp [copyV, allFresh]
  | .int _ => by simp [copyV, allFresh]
  | .bool _ => by simp [copyV, allFresh]
  | .nilP _ => by simp [copyV, allFresh]
  | .nilI _ => by simp [copyV, allFresh]
  | .nilS _ => by simp [copyV, allFresh]
  | .iface i v => by rw [copyV.eq_def]; simp only; rw [allFresh.eq_def]; simp only; exact copy_is_fresh fb v
  | .slice e vs => by rw [copyV.eq_def]; simp only; rw [allFresh.eq_def]; simp only; exact copyL_is_fresh fb vs
  | .ptr t id fs => by
      rw [copyV.eq_def]; simp only
      by_cases h : ignoredPtr t = true
      · simp [h, allFresh]
      · simp only [h, Bool.false_eq_true, ↓reduceIte]
        rw [allFresh.eq_def]; simp [copyL_is_fresh fb fs]
theorem copyL_is_fresh (fb : Bool) : ∀ vs, allFreshL (copyVs fb vs) = true
  | [] => by simp [copyVs, allFreshL]
  | v :: vs => by simp [copyVs, allFreshL, copy_is_fresh fb v, copyL_is_fresh fb vs]
end

/-- sites are rewritten independently: the value generated for a site is a function of that
site's own bindings only -/
theorem site_uses_own_bindings (c : Change) (assoc : List (Nat × Nat)) (s1 s2 : Site) (h : s1.data = s2.data) :
    nodeReplace c assoc s1.data = nodeReplace c assoc s2.data := by rw [h]

/-- a site is left unchanged only when the instantiated replacement is not admissible in that
position (the only silent skip of the replacement loop) -/
theorem skipped_iff_not_assignable (c : Change) (assoc : List (Nat × Nat)) (s : Site) (tree : V) (give : V)
    (hg : nodeReplace c assoc s.data = .ok give) (hn : assignable give s.slotTy = false) :
    applySites c assoc [s] tree = .ok tree := by
  simp [applySites, hg, hn, bind, Except.bind, pure, Except.pure]

/-- '+' tokens that are not metavariables appear verbatim: scalars are reproduced as they are -/
theorem scalars_verbatim (mt : Meta) (assoc : List (Nat × Nat)) (d : Data) (fb : Bool) (s : String) (n : Int) (b : Bool) :
    replaceV mt assoc (.str s) d fb = .ok (.str s) ∧ replaceV mt assoc (.int n) d fb = .ok (.int n) ∧
    replaceV mt assoc (.bool b) d fb = .ok (.bool b) := by
  simp [replaceV]

end Gopatch.C03
