import GopatchModel.FileM
import GopatchModel.Spec.ImportsOnly
namespace Gopatch.C11
open Gopatch

/-- adding an import never removes one, and adds at most the import it was asked to add -/
theorem addImport_superset (c : Change) (d : Data) (imp : Option String × String)
    (imps imps' : List (Option String × String)) (n : Option String)
    (h : addImport c d imp imps = .ok (imps', n)) :
    (∀ x ∈ imps, x ∈ imps') ∧ (∀ x ∈ imps', x ∈ imps ∨ x.2 = imp.2) := by
  unfold addImport at h
  cases hn : importNames c d imp with
  | error e => simp [hn, Except.bind] at h
  | ok np =>
    simp only [hn, Except.bind] at h
    split at h
    · injection h with h
      injection h with h1 h2
      subst h1
      exact ⟨fun x hx => hx, fun x hx => Or.inl hx⟩
    · injection h with h
      injection h with h1 h2
      subst h1
      refine ⟨fun x hx => by simp [hx], fun x hx => ?_⟩
      simp only [List.mem_append, List.mem_singleton] at hx
      rcases hx with hx | hx
      · exact Or.inl hx
      · right; rw [hx]

theorem cleanupStep_spec (d : Data) (tree : V) (newNames : List String) (path : String)
    (imps : List (Option String × String)) :
    (∀ x ∈ cleanupStep d tree newNames path imps, x ∈ imps) ∧
    (∀ x ∈ imps, x.2 ≠ path → x ∈ cleanupStep d tree newNames path imps) := by
  unfold cleanupStep
  simp only
  split
  · constructor
    · intro x hx; exact (List.mem_filter.1 hx).1
    · intro x hx hp
      rw [List.mem_filter]
      refine ⟨hx, ?_⟩
      simp [hp]
  · exact ⟨fun x hx => hx, fun x hx _ => hx⟩

/-- the clean-up only ever deletes imports of the paths the change matched -/
theorem cleanup_only_matched (d : Data) (tree : V) (newNames : List String) :
    ∀ (paths : List String) (imps : List (Option String × String)),
      (∀ x ∈ cleanupImports d tree newNames paths imps, x ∈ imps) ∧
      (∀ x ∈ imps, x.2 ∉ paths → x ∈ cleanupImports d tree newNames paths imps)
  | [], imps => by simp [cleanupImports]
  | p :: ps, imps => by
      simp only [cleanupImports]
      have ih := cleanup_only_matched d tree newNames ps (cleanupStep d tree newNames p imps)
      have st := cleanupStep_spec d tree newNames p imps
      constructor
      · intro x hx
        exact st.1 x (ih.1 x hx)
      · intro x hx hnp
        have hp : x.2 ≠ p := fun h => hnp (by simp [h])
        have hps : x.2 ∉ ps := fun h => hnp (by simp [h])
        exact ih.2 x (st.2 x hx hp) hps

/-- a matched import that was not replaced by name and whose package name is still referred to
by the rewritten file is kept -/
theorem matched_but_used_kept (d : Data) (tree : V) (newNames : List String) (path : String)
    (imps : List (Option String × String))
    (hn : (cleanupNames d path).1 ∉ newNames) (hu : usesName (cleanupNames d path).1 tree = true) :
    cleanupStep d tree newNames path imps = imps := by
  simp [cleanupStep, hn, hu]

/-- a matched import whose package name is no longer referred to is deleted -/
theorem matched_unused_deleted (d : Data) (tree : V) (newNames : List String) (path : String)
    (imps : List (Option String × String)) (hu : usesName (cleanupNames d path).1 tree = false) :
    ((cleanupNames d path).2, path) ∉ cleanupStep d tree newNames path imps := by
  simp [cleanupStep, hu, List.mem_filter]

/-- **Unrelated imports survive.** Every import whose path the change does not mention on
its '-' side is still present (same name, same path) after the clean-up, and the clean-up
adds nothing. -/
theorem unmentioned_survive (d : Data) (tree : V) (newNames : List String) (paths : List String)
    (imps : List (Option String × String)) (x : Option String × String)
    (hx : x ∈ imps) (hn : x.2 ∉ paths) : x ∈ cleanupImports d tree newNames paths imps :=
  (cleanup_only_matched d tree newNames paths imps).2 x hx hn

theorem cleanup_adds_nothing (d : Data) (tree : V) (newNames : List String) (paths : List String)
    (imps : List (Option String × String)) (x : Option String × String)
    (hx : x ∈ cleanupImports d tree newNames paths imps) : x ∈ imps :=
  (cleanup_only_matched d tree newNames paths imps).1 x hx

/-- **Editing the imports touches import declarations only.** Making the import declarations of the file follow the new
import list (what astutil.AddNamedImport / DeleteNamedImport do to the tree: specs appended to the first import declaration,
a new declaration in front when there is none, declarations merged, specs and emptied declarations removed) leaves every
other declaration of the file as it is, in the same order. -/
theorem import_edits_touch_import_declarations_only (tree : V) (old new : List (Option String × String)) :
    otherDecls (syncImports tree old new) = otherDecls tree :=
  syncImports_other_decls tree old new

end Gopatch.C11
