import GopatchModel.FileM
import GopatchModel.Spec.LoaderSpec
import GopatchModel.Spec.ApiLoop
namespace Gopatch.C09
open Gopatch

/-- a change that does not match is a no-op that does not disturb the others -/
theorem noMatch_is_noop (c : Change) (cs : List Change) (f : FileM) (m : Bool)
    (h : (match applyChange c f with | .noMatch => true | _ => false) = true) :
    applyChangesCli (c :: cs) f m = applyChangesCli cs f m := by
  cases ha : applyChange c f <;> simp [ha] at h
  simp [applyChangesCli, ha]

/-- a change that applies hands the file it produced to the changes after it -/
theorem ok_feeds_next (c : Change) (cs : List Change) (f f' : FileM) (m : Bool) (k : Nat)
    (h : applyChange c f = .ok f' k) :
    applyChangesCli (c :: cs) f m = applyChangesCli cs f' true := by
  simp [applyChangesCli, h]

/-- **Changes are applied strictly in order.** Running a list of changes `a ++ b` is running `a`
and then, if none of them failed, `b` on the file `a` produced — so later changes see exactly
the code earlier ones introduced and never the code they removed. This is also how several
patch files compose: their changes are concatenated in the order given. -/
theorem sequential (a b : List Change) (f : FileM) (m : Bool) :
    applyChangesCli (a ++ b) f m =
      match applyChangesCli a f m with
      | (f', m', none) => applyChangesCli b f' m'
      | r => r := by
  induction a generalizing f m with
  | nil => simp [applyChangesCli]
  | cons c cs ih =>
    simp only [List.cons_append]
    cases ha : applyChange c f with
    | noMatch => simp only [applyChangesCli, ha]; exact ih f m
    | ok f' k => simp only [applyChangesCli, ha]; exact ih f' true
    | fail e => simp [applyChangesCli, ha]

/-- **A change that matches nothing may stand anywhere.** A change that does not match the file as the changes before it
leave it - an unrelated patch given along with the others, in front, behind or in between - does not disturb the run: the
result, the "matched" flag and the failure, if any, are those of the run without it. -/
theorem a_change_that_does_not_match_may_stand_anywhere (c : Change) (a b : List Change) (f : FileM) (m : Bool)
    (hc : fileMatch c (applyChangesCli a f m).1 = none) :
    applyChangesCli (a ++ c :: b) f m = applyChangesCli (a ++ b) f m := by
  rw [sequential, sequential a b]
  cases h : applyChangesCli a f m with
  | mk f' r =>
    obtain ⟨m', e⟩ := r
    rw [h] at hc
    have hn : applyChange c f' = .noMatch := by simp [applyChange, hc]
    cases e with
    | none => simp [applyChangesCli, hn]
    | some e => rfl

/-! ### one run per change, each starting from the file the previous run printed -/

/-- a chain of runs: one change per run; `rt` is what printing the result and parsing it again does to the tree
(go/printer and go/parser are parameters of the model) -/
def chainRuns (rt : FileM → FileM) : List Change → FileM → Bool → FileM × Bool × Option Err
  | [], f, m => (f, m, none)
  | c :: cs, f, m =>
      match applyChange c f with
      | .noMatch => chainRuns rt cs f m
      | .ok f' _ => chainRuns rt cs (rt f') true
      | .fail e => (f, false, some e)

/-- every intermediate file of the combined run is a fixed point of print + re-parse (evaluated on the real
trees by the harness command `stable`; where it fails the known finding F7 applies) -/
def StableAlong (rt : FileM → FileM) : List Change → FileM → Prop
  | [], _ => True
  | c :: cs, f =>
      match applyChange c f with
      | .noMatch => StableAlong rt cs f
      | .ok f' _ => rt f' = f' ∧ StableAlong rt cs f'
      | .fail _ => True

/-- **A patch with several changes, or several patches, is the chain of single-change runs** — as long as printing
an intermediate file and parsing it again gives back the tree that was printed. -/
theorem combined_eq_chain (rt : FileM → FileM) (cs : List Change) (f : FileM) (m : Bool) (h : StableAlong rt cs f) :
    chainRuns rt cs f m = applyChangesCli cs f m := by
  induction cs generalizing f m with
  | nil => rfl
  | cons c cs ih =>
    unfold chainRuns applyChangesCli
    unfold StableAlong at h
    cases ha : applyChange c f with
    | noMatch => simp only [ha] at h ⊢; exact ih f m h
    | ok f' k => simp only [ha] at h ⊢; rw [h.1]; exact ih f' true h.2
    | fail e => rfl

/-- if any step fails the combined run reports the failure (and the CLI then leaves the file
untouched: see `Gopatch.C16.failures_reported`, `Gopatch.Cli.stepFile`) -/
theorem failure_reported (a b : List Change) (c : Change) (f : FileM) (m : Bool) (f' : FileM) (m' : Bool)
    (e : Err) (h1 : applyChangesCli a f m = (f', m', none)) (h2 : applyChange c f' = .fail e) :
    ∃ g, applyChangesCli (a ++ c :: b) f m = (g, false, some e) := by
  rw [sequential, h1]
  simp [applyChangesCli, h2]

/-- **The library fails exactly when the command line does.** `patch.File.Apply` goes on after a refused change, on
whatever tree the refused change left (`dmg`, arbitrary); the command line stops. All the same: when no change is refused
both end with the same tree and no error, and when the command line reports the error `e` of the first refused change, the
library reports errors too, `e` first - so it returns no bytes. -/
theorem library_fails_exactly_when_the_command_line_does (dmg : Change → FileM → FileM) :
    ∀ (cs : List Change) (f : FileM) (m : Bool),
      match applyChangesCli cs f m with
      | (g, m', none) => applyChangesApi dmg cs f m [] = (g, m', [])
      | (_, _, some e) => ∃ g m' es, applyChangesApi dmg cs f m [] = (g, m', e :: es)
  | [], f, m => by simp [applyChangesCli, applyChangesApi]
  | c :: cs, f, m => by
    cases ha : applyChange c f with
    | noMatch =>
      have ih := library_fails_exactly_when_the_command_line_does dmg cs f m
      simpa [applyChangesCli, applyChangesApi, ha] using ih
    | ok f' k =>
      have ih := library_fails_exactly_when_the_command_line_does dmg cs f' true
      simpa [applyChangesCli, applyChangesApi, ha] using ih
    | fail e =>
      obtain ⟨g, m', es', h⟩ := api_errors_grow dmg cs (dmg c f) m [e]
      simp only [applyChangesCli, ha, applyChangesApi, List.nil_append]
      exact ⟨g, m', es', by simpa using h⟩

/-- the order in which patches given with -p and -P are loaded: flags first, in the order
given, then the files of the list, in file order; stdin only when neither is given -/
def loadOrder (flags list : List String) (stdin : String) : List String :=
  if flags.isEmpty && list.isEmpty then [stdin] else flags ++ list

theorem loadOrder_keeps_flag_order (flags list : List String) (stdin : String) (h : flags ≠ []) :
    loadOrder flags list stdin = flags ++ list := by
  cases flags with
  | nil => exact absurd rfl h
  | cons x xs => simp [loadOrder]

/-! ### which patches a run consists of (loader.go, `loadPatches`) -/

/-- **A list of patches is those patches given with `-p`, in the same order**: a `-P` file that holds paths, one per line
(not empty, no carriage return at the end), loads exactly what the same paths load as `-p` flags - the same sources in the
same order, or the same failure. -/
theorem patches_from_a_list_are_the_flags_in_order (good : Load.Src → Bool) (paths : List Load.Bytes) (hne : paths ≠ [])
    (hok : ∀ p ∈ paths, Load.PathOK p) (listPath : Load.Bytes) (hlp : listPath ≠ []) :
    Load.loadPatches good [] listPath (some (Load.joinNl paths)) = Load.loadPatches good paths [] none :=
  Load.list_is_flags good paths hne hok listPath hlp

/-- **The run consists of the whole plan, in its order**: when loading succeeds, the programs handed to the per-file loop
are the sources of the plan - standard input if neither `-p` nor `-P` is given, the `-p` files in command-line order, then
the non-empty lines of the `-P` file - each of them loaded, none left out, none reordered. -/
theorem the_run_is_the_whole_plan_in_order (good : Load.Src → Bool) (patches : List Load.Bytes) (listPath : Load.Bytes)
    (listContent : Option Load.Bytes) (l : List Load.Src)
    (h : Load.loadPatches good patches listPath listContent = .loaded l) :
    l = (Load.plan patches listPath listContent).1 ∧ (∀ s ∈ l, good s = true) :=
  let r := Load.loaded_is_the_whole_plan good patches listPath listContent l h
  ⟨r.1, r.2.1⟩

/-- `-p` files come before the files of the `-P` list -/
theorem flags_come_before_the_list (patches : List Load.Bytes) (listPath c : Load.Bytes) (hlp : listPath ≠ []) :
    ∃ fromList, (Load.plan patches listPath (some c)).1 = patches.map Load.Src.file ++ fromList :=
  Load.flags_before_list patches listPath c hlp

/-- non-vacuity: `-p a -P l` with `l` = "b\r\n\nc" loads a, b, c -/
example : Load.loadPatches (fun _ => true) ["a".toUTF8.toList] "l".toUTF8.toList (some "b\r\n\nc".toUTF8.toList) =
    .loaded [.file "a".toUTF8.toList, .file "b".toUTF8.toList, .file "c".toUTF8.toList] := by decide +kernel

end Gopatch.C09
