import GopatchModel.FileM
namespace Gopatch.C05

mutual
/-- a tree that does not contain the node `pid` is left untouched by a slot update -/
theorem setV_absent (pid fld : Nat) (idx : Option Nat) (nv : V) :
    ∀ v, hasId pid v = false → setV pid fld idx nv v = v
  | .pos _ _, _ => by simp [setV]
  | .str _, _ => by simp [setV]
  | .int _, _ => by simp [setV]
  | .bool _, _ => by simp [setV]
  | .nilP _, _ => by simp [setV]
  | .nilI _, _ => by simp [setV]
  | .nilS _, _ => by simp [setV]
  | .iface i v, h => by
      simp only [hasId] at h
      simp [setV, setV_absent pid fld idx nv v h]
  | .slice e vs, h => by
      simp only [hasId] at h
      simp [setV, setVs_absent pid fld idx nv vs h]
  | .ptr t id fs, h => by
      simp only [hasId, Bool.or_eq_false_iff] at h
      have h1 : (id == pid) = false := h.1
      simp [setV, setVs_absent pid fld idx nv fs h.2, h1]
theorem setVs_absent (pid fld : Nat) (idx : Option Nat) (nv : V) :
    ∀ vs, hasIdL pid vs = false → setVs pid fld idx nv vs = vs
  | [], _ => by simp [setVs]
  | v :: vs, h => by
      simp only [hasIdL, Bool.or_eq_false_iff] at h
      simp [setVs, setV_absent pid fld idx nv v h.1, setVs_absent pid fld idx nv vs h.2]
end

end Gopatch.C05
