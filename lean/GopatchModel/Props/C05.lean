import GopatchModel.Spec.FrameFile
import GopatchModel.Spec.FrameImports
namespace Gopatch.C05
open Gopatch

/-- **Frame.** Replacing a site stores one value in one slot: with that slot blanked, the file
tree after the replacement equals the file tree before it — every other declaration, statement,
expression and list element keeps its place and content. -/
theorem replacement_changes_only_its_slot (pid fld : Nat) (idx : Option Nat) (nv : V) (tree : V) :
    maskV pid fld idx (setV pid fld idx nv tree) = maskV pid fld idx tree :=
  set_changes_only_slot pid fld idx nv tree

mutual
/-- a tree that does not contain the node `pid` is left untouched by a slot update (a site
nested in code that an outer replacement discarded has no effect) -/
theorem setV_absent (pid fld : Nat) (idx : Option Nat) (nv : V) :
    ∀ v, hasId pid v = false → setV pid fld idx nv v = v
  | .pos _ _, _ => by simp [setV]
  | .str _, _ => by simp [setV]
  | .int _, _ => by simp [setV]
  | .bool _, _ => by simp [setV]
  | .nilP _, _ => by simp [setV]
  | .nilI _, _ => by simp [setV]
  | .nilS _, _ => by simp [setV]
  | .iface i v, h => by
      simp only [hasId] at h
      simp [setV, setV_absent pid fld idx nv v h]
  | .slice e vs, h => by
      simp only [hasId] at h
      simp [setV, setVs_absent pid fld idx nv vs h]
  | .ptr t id fs, h => by
      simp only [hasId, Bool.or_eq_false_iff] at h
      have h1 : (id == pid) = false := h.1
      simp [setV, setVs_absent pid fld idx nv fs h.2, h1]
theorem setVs_absent (pid fld : Nat) (idx : Option Nat) (nv : V) :
    ∀ vs, hasIdL pid vs = false → setVs pid fld idx nv vs = vs
  | [], _ => by simp [setVs]
  | v :: vs, h => by
      simp only [hasIdL, Bool.or_eq_false_iff] at h
      simp [setVs, setV_absent pid fld idx nv v h.1, setVs_absent pid fld idx nv vs h.2]
end

/-- one step of the replacement loop: either the generated value is not admissible in the
slot and the tree is unchanged, or exactly that slot is overwritten -/
theorem applySites_step (c : Change) (assoc : List (Nat × Nat)) (s : Site) (ss : List Site) (tree : V) (give : V)
    (hg : nodeReplace c assoc s.data = .ok give) :
    applySites c assoc (s :: ss) tree =
      applySites c assoc ss (if assignable give s.slotTy then setV s.parent s.field s.index give tree else tree) := by
  simp [applySites, hg, bind, Except.bind]

/-- **Frame of a whole change.** With the slots of the matched sites blanked (all at once, and
nothing else: `blanking_nothing_hides_nothing`), the tree after the replacement loop is the tree
before it — for every list of sites, every generated value, admissible or not, every order. -/
theorem change_rewrites_only_its_sites (c : Change) (assoc : List (Nat × Nat)) (sites : List Site) (tree tree' : V)
    (h : applySites c assoc sites tree = .ok tree') :
    maskP (slotsOf sites) tree' = maskP (slotsOf sites) tree :=
  applySites_in_slots c assoc (slotsOf sites) sites tree tree' (fun s hs => slotsOf_mem sites s hs) h

/-- the blanking used above hides the given slots only: with no slot to blank it is the identity -/
theorem blanking_nothing_hides_nothing (v : V) : maskP (slotsOf []) v = v := maskP_empty v

/-- non-vacuity: in `f(a, b)` with the second argument a site, blanking keeps `f` and `a` -/
example :
    maskP (slotsOf [{ parent := 1, field := 1, index := some 1, slotTy := "ast.Expr", data := default }])
      (.ptr "ast.CallExpr" 1 [.iface "ast.Expr" (.str "f"), .slice "ast.Expr" [.str "a", .str "b"]])
    = .ptr "ast.CallExpr" 1 [.iface "ast.Expr" (.str "f"), .slice "ast.Expr" [.str "a", hole]] := by
  simp [maskP, maskFields, maskPs, blankP, blankElems, slotsOf]

/-- **Frame of a whole change on a file.** One change applied to a file in which every node has an identity, the package
clause and the import declarations left as they are: the new tree — after the replacement loop and after the nodes the
replacer built were given identities — equals the old one once the slots of the matched sites are blanked. -/
theorem change_rewrites_only_its_sites_in_the_file (c : Change) (f : FileM) (d : Data) (sites : List Site) (tree1 : V)
    (imps : List (Option String × String)) (names : List String)
    (hm : fileMatch c f = some (d, sites)) (hp : c.plus.pkg = "")
    (hs : applySites c c.assoc sites f.tree = .ok tree1)
    (hi : addImports c d c.plus.imports f.imports [] = .ok (imps, names))
    (hsame : syncImports tree1 f.imports (cleanupImports d tree1 names (d.matched.getD []) imps) = tree1)
    (hz : hasId 0 f.tree = false) :
    ∃ f', applyChange c f = .ok f' sites.length ∧ maskP (slotsOf sites) f'.tree = maskP (slotsOf sites) f.tree := by
  have hpk : (c.plus.pkg != "") = false := by simp [hp]
  have happ : applyChange c f = .ok { pkg := f.pkg, imports := cleanupImports d tree1 names (d.matched.getD []) imps,
                                       tree := (renumV tree1 f.nextId).1, nextId := (renumV tree1 f.nextId).2 } sites.length := by
    simp only [applyChange, hm, hpk, Bool.false_eq_true, ↓reduceIte, hs, hi, hsame]
  exact ⟨_, happ, sites_then_numbering c c.assoc sites f.tree tree1 f.nextId hz hs⟩

/-- a sufficient condition for the hypothesis `hsame` above: the import list did not change and the file has no empty
import declaration (`import ()`), which the synchronisation would drop -/
theorem syncImports_same (tree : V) (l : List (Option String × String))
    (hne : match tree with
      | .ptr _ _ (_ :: _ :: _ :: .slice _ decls :: _) => ∀ x ∈ decls, (isImportGenDecl x && (specsOf x).isEmpty) = false
      | _ => True) :
    syncImports tree l l = tree := by
  have hd : diffImports l l = [] := by
    simp only [diffImports, List.filter_eq_nil_iff]
    intro x hx
    simp [List.contains_iff_mem, hx]
  unfold syncImports
  split
  · rename_i t id doc pk nm e decls rest
    simp only [hd, addSpecs, List.isEmpty_nil, ↓reduceIte, deleteSpecs, List.foldl_nil]
    simp only [] at hne
    congr
    rw [List.filter_eq_self]
    intro x hx
    simp [hne x hx]
  · rfl

/-- **Frame of a whole change that also edits the imports.** One change applied to a file in which every node has an
identity, where no site is an element of the file's declaration list itself (sites lie inside declarations), the package
clause left as it is, the import list changed in whatever way the change dictates: the declarations of the result other than
import declarations are, in order and with the slots of the sites blanked, those the replacement loop left - although
their indexes in the declaration list may have shifted - and those are, index by index, the original declarations with
the same slots blanked. -/
theorem change_with_import_edits_keeps_the_other_declarations (c : Change) (f : FileM) (d : Data) (sites : List Site)
    (tree1 : V) (imps : List (Option String × String)) (names : List String)
    (t : String) (id : Nat) (doc pk nm : V) (e : String) (decls rest : List V)
    (hf : f.tree = .ptr t id (doc :: pk :: nm :: .slice e decls :: rest))
    (hm : fileMatch c f = some (d, sites)) (hp : c.plus.pkg = "")
    (hs : applySites c c.assoc sites f.tree = .ok tree1)
    (hi : addImports c d c.plus.imports f.imports [] = .ok (imps, names))
    (hz : hasId 0 f.tree = false)
    (hfile : ∀ s ∈ sites, s.parent = id → s.field ≠ 3) :
    ∃ f', applyChange c f = .ok f' sites.length ∧
      (otherDecls f'.tree).map (maskP (slotsOf sites)) = ((declsOf tree1).filter notImport).map (maskP (slotsOf sites)) ∧
      maskPs (slotsOf sites) (declsOf tree1) = maskPs (slotsOf sites) decls := by
  have hP : ∀ idx, slotsOf sites id 3 idx = false := by
    intro idx
    simp only [slotsOf, List.any_eq_false, Bool.and_eq_true, beq_iff_eq, not_and]
    intro s hs hpar
    exact absurd hpar.2 (hfile s hs hpar.1)
  have hmask := change_rewrites_only_its_sites c c.assoc sites f.tree tree1 hs
  rw [hf] at hmask
  obtain ⟨a, b, c3, ds1, rest1, ht1, hds⟩ := mask_file_shape (slotsOf sites) t id doc pk nm e decls rest hP tree1 hmask
  have hin : ∀ s ∈ sites, slotsOf sites s.parent s.field s.index = true := fun s hs => slotsOf_mem sites s hs
  have hfresh := applySites_fresh c c.assoc (slotsOf sites) sites f.tree tree1 hin (fresh_of_noZero _ f.tree noq hz) hs
  have hpk : (c.plus.pkg != "") = false := by simp [hp]
  refine ⟨{ pkg := f.pkg, imports := cleanupImports d tree1 names (d.matched.getD []) imps,
            tree := (renumV (syncImports tree1 f.imports (cleanupImports d tree1 names (d.matched.getD []) imps)) f.nextId).1,
            nextId := (renumV (syncImports tree1 f.imports (cleanupImports d tree1 names (d.matched.getD []) imps)) f.nextId).2 }, ?_, ?_, ?_⟩
  · simp only [applyChange, hm, hpk, Bool.false_eq_true, ↓reduceIte, hs, hi]
  · subst ht1
    simp only [declsOf]
    exact sync_then_numbering_keeps_others (slotsOf sites) t id a b c3 e ds1 rest1 f.imports _ f.nextId hP hfresh
  · subst ht1
    simpa [declsOf] using hds

/-- the package clause changes only if the '+' side names a package -/
theorem package_kept (c : Change) (f f' : FileM) (k : Nat) (h : applyChange c f = .ok f' k) (hp : c.plus.pkg = "") :
    f'.pkg = f.pkg := by
  cases hm : fileMatch c f with
  | none => simp [applyChange, hm] at h
  | some ds =>
    obtain ⟨d, sites⟩ := ds
    simp only [applyChange, hm] at h
    generalize hap : applySites c c.assoc sites (if (c.plus.pkg != "") = true then renamePkg f.tree (if (c.plus.pkg != "") = true then c.plus.pkg else f.pkg) else f.tree) = r1 at h
    cases r1 with
    | error e => simp at h
    | ok tree =>
      simp only at h
      generalize hai : addImports c d c.plus.imports f.imports [] = r2 at h
      cases r2 with
      | error e => simp at h
      | ok r =>
        obtain ⟨imps, names⟩ := r
        simp only [Outcome.ok.injEq] at h
        obtain ⟨rfl, _⟩ := h
        simp [hp]

/-- a change that does not match leaves the file as it is -/
theorem noMatch_identity (c : Change) (cs : List Change) (f : FileM) (m : Bool)
    (h : fileMatch c f = none) : applyChangesCli (c :: cs) f m = applyChangesCli cs f m := by
  simp [applyChangesCli, applyChange, h]

end Gopatch.C05
