import GopatchModel.MetaP
import GopatchModel.FileM
import GopatchModel.Spec.SplitSpec
namespace Gopatch.C13
open Gopatch.Sec

/-- '#' lines never reach the splitter's state machine: the lines it sees are exactly the
non-comment lines, in order — so adding or removing comment lines anywhere changes the
sectioning only by renumbering line positions -/
theorem comments_dropped : ∀ (ls : List Line) (acc : List Bytes),
    (attachComments ls acc).map Prod.fst = ls.filter (fun l => !isComment l.text)
  | [], _ => by simp [attachComments]
  | l :: ls, acc => by
      unfold attachComments
      by_cases h : isComment l.text = true
      · simp [h, comments_dropped ls]
      · simp [h, comments_dropped ls]

/-- a non-comment line takes the comment run accumulated so far and resets it: comment lines
further up never reach a later line -/
theorem noncomment_resets (p : Line) (rest : List Line) (acc : List Bytes) (hp : isComment p.text = false) :
    attachComments (p :: rest) acc = (p, acc) :: attachComments rest [] := by
  simp [attachComments, hp]

/-- the description attached to a line is exactly the run of comment lines directly above it -/
theorem description_is_run_above (h : Line) (post : List Line) (hh : isComment h.text = false) :
    ∀ (cs : List Line) (acc0 : List Bytes), (∀ c ∈ cs, isComment c.text = true) →
      attachComments (cs ++ h :: post) acc0 =
        (h, acc0 ++ cs.map (fun c => commentText c.text)) :: attachComments post [] := by
  intro cs
  induction cs with
  | nil => intro acc0 _; simp [attachComments, hh]
  | cons c cs ih =>
    intro acc0 hc
    have hc1 : isComment c.text = true := hc c (by simp)
    simp only [List.cons_append, attachComments, hc1, ↓reduceIte, List.map_cons]
    rw [ih (acc0 ++ [commentText c.text]) (fun x hx => hc x (by simp [hx]))]
    simp [List.append_assoc]

/-- the name of a change is only stored: two headers that differ in the name give changes that
differ in the name only (sectioning and every later stage receive the same lines) -/
theorem name_only_stored (u : Uni) (eof fuel : Nat) (h1 h2 : Line) (c1 c2 : List Bytes) (rest : List (Line × List Bytes))
    (hoff : h1.off = h2.off) (hc : c1 = c2)
    (hn1 : (readName u h1).2 = none) (hn2 : (readName u h2).2 = none) :
    ((readProgram u eof (fuel + 1) ((h1, c1) :: rest)).1.map (fun c => (c.headerOff, c.metaL, c.atOff, c.patch, c.comments))) =
    ((readProgram u eof (fuel + 1) ((h2, c2) :: rest)).1.map (fun c => (c.headerOff, c.metaL, c.atOff, c.patch, c.comments))) := by
  subst hc
  simp only [readProgram]
  cases hm : readMeta rest [] with
  | none => simp [hoff]
  | some r =>
    obtain ⟨m, atl, rest'⟩ := r
    simp [hoff]

/-! ### positions of the patch matter to the engine only through their order -/

theorem insertAsc_map (f : Nat → Nat) (hf : ∀ a b, a ≤ b ↔ f a ≤ f b) (x : Nat) :
    ∀ l, (insertAsc x l).map f = insertAsc (f x) (l.map f)
  | [] => rfl
  | y :: ys => by
      unfold insertAsc
      by_cases h : x ≤ y
      · have h' : f x ≤ f y := (hf x y).1 h
        simp [h, h']
      · have h' : ¬ f x ≤ f y := fun hh => h ((hf x y).2 hh)
        simp [h, h', insertAsc_map f hf x ys]

/-- sorting the '...' positions commutes with any order-preserving relabelling of patch
positions (moving lines around by inserting comment or blank lines, or re-wrapping) -/
theorem sortAsc_map (f : Nat → Nat) (hf : ∀ a b, a ≤ b ↔ f a ≤ f b) :
    ∀ l, (sortAsc l).map f = sortAsc (l.map f)
  | [] => rfl
  | x :: xs => by
      have : sortAsc (x :: xs) = insertAsc x (sortAsc xs) := by simp [sortAsc]
      rw [this, insertAsc_map f hf, sortAsc_map f hf xs]
      simp [sortAsc]

theorem f_inj (f : Nat → Nat) (hf : ∀ a b, a ≤ b ↔ f a ≤ f b) (a b : Nat) (h : f a = f b) : a = b := by
  have h1 : a ≤ b := (hf a b).2 (by omega)
  have h2 : b ≤ a := (hf b a).2 (by omega)
  omega

theorem nearestBefore_map (f : Nat → Nat) (hf : ∀ a b, a ≤ b ↔ f a ≤ f b) (r : Nat) :
    ∀ (lhs : List Nat) (acc : Option Nat),
      (lhs.map f).foldl (nbStep (f r)) (acc.map f) = (lhs.foldl (nbStep r) acc).map f
  | [], acc => rfl
  | l :: ls, acc => by
      simp only [List.map_cons, List.foldl_cons]
      have hstep : nbStep (f r) (acc.map f) (f l) = (nbStep r acc l).map f := by
        unfold nbStep
        by_cases h : l ≤ r
        · have h' : f l ≤ f r := (hf l r).1 h
          cases acc with
          | none => simp [h, h']
          | some a =>
            by_cases h2 : a ≤ l
            · have h2' : f a ≤ f l := (hf a l).1 h2
              simp [h, h', h2, h2']
            · have h2' : ¬ f a ≤ f l := fun hh => h2 ((hf a l).2 hh)
              simp [h, h', h2, h2']
        · have h' : ¬ f l ≤ f r := fun hh => h ((hf l r).2 hh)
          simp [h, h']
      rw [hstep]
      exact nearestBefore_map f hf r ls (nbStep r acc l)

theorem lookup_map (f : Nat → Nat) (hf : ∀ a b, a ≤ b ↔ f a ≤ f b) (r : Nat) :
    ∀ (conns : List (Nat × Nat)), (conns.map (fun p => (f p.1, f p.2))).lookup (f r) = (conns.lookup r).map f
  | [] => rfl
  | (a, b) :: cs => by
      simp only [List.map_cons, List.lookup_cons]
      by_cases h : r = a
      · subst h; simp
      · have h' : ¬ f r = f a := fun hh => h (f_inj f hf r a hh)
        have e1 : (r == a) = false := by simpa using h
        have e2 : (f r == f a) = false := by simpa using h'
        simp only [e1, e2]
        exact lookup_map f hf r cs

theorem connectDotsGo_map (f : Nat → Nat) (hf : ∀ a b, a ≤ b ↔ f a ≤ f b) (lhs : List Nat) :
    ∀ (rs : List Nat) (conns : List (Nat × Nat)),
      connectDotsGo (lhs.map f) (rs.map f) (conns.map (fun p => (f p.1, f p.2)))
        = (connectDotsGo lhs rs conns).map (fun p => (f p.1, f p.2))
  | [], conns => rfl
  | r :: rs, conns => by
      simp only [List.map_cons, connectDotsGo]
      have hn : nearestBefore (lhs.map f) (f r) = (nearestBefore lhs r).map f := by
        have := nearestBefore_map f hf r lhs none
        simpa [nearestBefore] using this
      rw [hn]
      cases hnb : nearestBefore lhs r with
      | none => simp
      | some l =>
        simp only [Option.map_some]
        rw [lookup_map f hf r conns]
        cases hl : conns.lookup r with
        | some v => simp
        | none =>
          simp only [Option.map_none, Option.isSome_none, Bool.false_eq_true, ↓reduceIte]
          have := connectDotsGo_map f hf lhs rs ((r, l) :: conns)
          simpa using this

/-- **The association of '...' between the '-' and '+' sides depends on patch positions only
through their order.** For every order-preserving relabelling `f` of patch (line, column)
keys — which is what inserting or deleting comment and blank lines, naming a change, or
re-wrapping lines amounts to — the association computed from relabelled positions is the
relabelled association. -/
theorem connectDots_relabel (f : Nat → Nat) (hf : ∀ a b, a ≤ b ↔ f a ≤ f b) (lhs rhs : List Nat) :
    connectDots (lhs.map f) (rhs.map f) = (connectDots lhs rhs).map (fun p => (f p.1, f p.2)) := by
  unfold connectDots
  rw [← sortAsc_map f hf rhs]
  have := connectDotsGo_map f hf lhs (sortAsc rhs) []
  simpa using this

/-! ### an unchanged line: once with a blank in front, or as a '-'/'+' pair -/

/-- the bytes of the two versions of a body around a '-'/'+' pair of the same text `t` -/
theorem pair_versions (a b : List Line) (o1 o2 : Nat) (t : Bytes) :
    (splitPatch (a ++ ⟨o1, minusB :: t⟩ :: ⟨o2, plusB :: t⟩ :: b)).1.contents =
      flat (a.filterMap (sideLine true)) ++ (t ++ [nl]) ++ flat (b.filterMap (sideLine true)) ∧
    (splitPatch (a ++ ⟨o1, minusB :: t⟩ :: ⟨o2, plusB :: t⟩ :: b)).2.contents =
      flat (a.filterMap (sideLine false)) ++ (t ++ [nl]) ++ flat (b.filterMap (sideLine false)) := by
  have hne : (plusB == minusB) = false := by decide
  constructor <;>
    simp [splitPatch, build_eq, List.filterMap_append, List.filterMap_cons, sideLine, hne, flat_append, flat]

/-- **Pair or context line.** Writing an unchanged line once with a blank in front instead of as an identical '-'/'+' pair
changes each version of the change by exactly that one blank at the start of the line: the same Go tokens. -/
theorem context_versions (a b : List Line) (o : Nat) (t : Bytes) :
    (splitPatch (a ++ ⟨o, 32 :: t⟩ :: b)).1.contents =
      flat (a.filterMap (sideLine true)) ++ (32 :: t ++ [nl]) ++ flat (b.filterMap (sideLine true)) ∧
    (splitPatch (a ++ ⟨o, 32 :: t⟩ :: b)).2.contents =
      flat (a.filterMap (sideLine false)) ++ (32 :: t ++ [nl]) ++ flat (b.filterMap (sideLine false)) := by
  have h1 : ((32 : UInt8) == minusB) = false := by decide
  have h2 : ((32 : UInt8) == plusB) = false := by decide
  constructor <;>
    simp [splitPatch, build_eq, List.filterMap_append, List.filterMap_cons, sideLine, h1, h2, flat_append, flat]

end Gopatch.C13
