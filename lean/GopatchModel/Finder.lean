/-
  Finder.lean — model of internal/pgo/augment/find.go: the token-level scan that
  decides where a fake package clause / fake function is needed and which "..."
  tokens are elisions (as opposed to variadic parameters or spreads).

  go/scanner's token stream is an input of the model.  After the last real token
  the scanner returns EOF for ever; the model keeps a single EOF token at the end
  of the list and `next` does not move past it.

  Every function below is defined by well-founded recursion on the number of
  remaining tokens: Lean accepting the definitions *is* the proof that the scan
  terminates on every token stream (C08).  The loops of `funcDecl` and
  `fieldList` carry the EOF test added by the `fix:` commit; without it the
  definitions are not accepted (see `Props/C08.lean` for the explicit witness).
-/
namespace Gopatch.Fnd

inductive K where
  | eof | package_ | import_ | lparen | rparen | period | ident | type_ | const_ | var_ | func_
  | lbrace | ellipsis | comma | other
  deriving DecidableEq, Repr, Inhabited

structure Tok where
  kind : K
  off : Nat
  line : Nat
  deriving Repr, Inhabited

inductive Aug where
  | fakePackage (start : Nat)
  | fakeFunc (start : Nat) (braces : Bool)
  | dots (start stop : Nat) (named : Bool)
  deriving Repr, Inhabited, DecidableEq

structure St where
  toks : List Tok
  augs : List Aug
  deriving Inhabited

def eofTok : Tok := { kind := .eof, off := 0, line := 0 }

def St.cur (s : St) : Tok := s.toks.head?.getD eofTok
def St.kind (s : St) : K := s.cur.kind

/-- `finder.next`: advance, but never past the final EOF -/
def nextToks : List Tok → List Tok
  | t :: t' :: rest => if t.kind == .eof then t :: t' :: rest else t' :: rest
  | l => l

def St.next (s : St) : St := { s with toks := nextToks s.toks }

def St.push (s : St) (a : Aug) : St := { s with augs := s.augs ++ [a] }

theorem nextToks_le : ∀ l, (nextToks l).length ≤ l.length
  | [] => by simp [nextToks]
  | [_] => by simp [nextToks]
  | t :: t' :: rest => by
      simp only [nextToks]
      by_cases h : (t.kind == K.eof) = true <;> simp [h]

theorem next_le (s : St) : s.next.toks.length ≤ s.toks.length := nextToks_le s.toks

/-- a stream is well-formed when it ends with its only EOF token -/
def WF : List Tok → Prop
  | [] => False
  | [t] => t.kind = .eof
  | t :: t' :: rest => t.kind ≠ .eof ∧ WF (t' :: rest)

theorem wf_nextToks : ∀ l, WF l → WF (nextToks l)
  | [], h => h
  | [_], h => h
  | t :: t' :: rest, h => by
      have h1 : t.kind ≠ .eof := h.1
      have : (t.kind == K.eof) = false := by simpa using h1
      simp only [nextToks, this]
      exact h.2

theorem wf_next (s : St) (h : WF s.toks) : WF s.next.toks := wf_nextToks s.toks h

theorem nextToks_lt : ∀ l, WF l → (l.head?.getD eofTok).kind ≠ .eof → (nextToks l).length < l.length
  | [], h, _ => absurd h (by simp [WF])
  | [t], h, hk => by
      have : t.kind = .eof := h
      simp [this] at hk
  | t :: t' :: rest, _, hk => by
      have h1 : t.kind ≠ .eof := by simpa using hk
      have : (t.kind == K.eof) = false := by simpa using h1
      simp [nextToks, this]

theorem next_lt (s : St) (h : WF s.toks) (hk : s.kind ≠ .eof) : s.next.toks.length < s.toks.length :=
  nextToks_lt s.toks h hk

/-- a state together with the facts the termination argument needs -/
structure Res (s : St) where
  st : St
  le : st.toks.length ≤ s.toks.length
  wf : WF s.toks → WF st.toks

def Res.refl (s : St) : Res s := ⟨s, Nat.le_refl _, id⟩
def Res.step (s : St) : Res s := ⟨s.next, next_le s, wf_next s⟩
def Res.trans {a : St} (r : Res a) (r2 : Res r.st) : Res a :=
  ⟨r2.st, Nat.le_trans r2.le r.le, fun h => r2.wf (r.wf h)⟩
def Res.mapAugs {a : St} (r : Res a) (f : List Aug → List Aug) : Res a :=
  ⟨{ r.st with augs := f r.st.augs }, r.le, r.wf⟩

/-- `finder.ident`: IDENT, optionally followed by "..." (a spread `foo...`) -/
def ident (s : St) : Res s :=
  let r := Res.step s
  if r.st.kind == .ellipsis then r.trans (Res.step r.st) else r

/-- `finder.ellipsis` -/
def ellipsis (s : St) : Res s :=
  let t := s.cur
  let r := Res.step s
  let sameLine := t.line == r.st.cur.line
  if r.st.kind == .ident && sameLine then r.trans (Res.step r.st)
  else r.mapAugs (· ++ [Aug.dots t.off (t.off + 3) false])

end Gopatch.Fnd

namespace Gopatch.Fnd

theorem kind_ne_eof_of_eq {s : St} {k : K} (h : s.kind = k) (hk : k ≠ .eof) : s.kind ≠ .eof := by
  rw [h]; exact hk

mutual
/-- `params(); results()` — the part of `function` / `funcDecl` after the name -/
def functionBody (s : St) (h : WF s.toks) : Res s :=
  let r1 := fieldList s h
  if r1.st.kind == .lparen then r1.trans (fieldList r1.st (r1.wf h)) else r1
termination_by (s.toks.length, 3)
decreasing_by
  all_goals simp_wf
  · exact Prod.Lex.right _ (by omega)
  · rcases Nat.lt_or_eq_of_le r1.le with hlt | heq
    · exact Prod.Lex.left _ _ hlt
    · rw [heq]; exact Prod.Lex.right _ (by omega)
/-- `fieldList`: "(" … ")" -/
def fieldList (s : St) (h : WF s.toks) : Res s :=
  let r0 := Res.step s
  r0.trans (fieldLoop r0.st (r0.wf h) [] false)
termination_by (s.toks.length, 2)
decreasing_by
  all_goals simp_wf
  show Prod.Lex _ _ (s.next.toks.length, 1) _
  rcases Nat.lt_or_eq_of_le (next_le s) with hlt | heq
  · exact Prod.Lex.left _ _ hlt
  · rw [heq]; exact Prod.Lex.right _ (by omega)
/-- the loop of `fieldList`, with the EOF test of the `fix:` commit -/
def fieldLoop (s : St) (h : WF s.toks) (ell : List Nat) (named : Bool) : Res s :=
  if hstop : s.kind = .rparen ∨ s.kind = .eof then
    (Res.step s).mapAugs (· ++ ell.map (fun off => Aug.dots off (off + 3) named))
  else
    have hne : s.kind ≠ .eof := fun hh => hstop (Or.inr hh)
    have hlt : s.next.toks.length < s.toks.length := next_lt s h hne
    if s.kind = .func_ then
      let r := functionBody s.next (wf_next s h)
      have hlt2 : r.st.toks.length < s.toks.length := Nat.lt_of_le_of_lt r.le hlt
      let r' : Res s := (Res.step s).trans r
      r'.trans (fieldLoop r.st (r.wf (wf_next s h)) ell named)
    else if s.kind = .ident then
      let r1 := Res.step s
      let r2 : Res s := if r1.st.kind = .period then r1.trans ((Res.step r1.st).trans (Res.step _)) else r1
      have hlt2 : r2.st.toks.length < s.toks.length := by
        show (if r1.st.kind = .period then r1.trans ((Res.step r1.st).trans (Res.step _)) else r1).st.toks.length < _
        split
        · exact Nat.lt_of_le_of_lt (Nat.le_trans (next_le _) (next_le _)) hlt
        · exact hlt
      let named' := named || (r2.st.kind != .comma && r2.st.kind != .rparen)
      r2.trans (fieldLoop r2.st (r2.wf h) ell named')
    else if s.kind = .ellipsis then
      let off := s.cur.off
      let r1 := Res.step s
      if r1.st.kind == .ident then r1.trans (fieldLoop r1.st (r1.wf h) ell named)
      else r1.trans (fieldLoop r1.st (r1.wf h) (ell ++ [off]) named)
    else
      let r1 := Res.step s
      r1.trans (fieldLoop r1.st (r1.wf h) ell named)
termination_by (s.toks.length, 1)
decreasing_by
  all_goals simp_wf
  all_goals first
    | exact Prod.Lex.left _ _ hlt2
    | exact Prod.Lex.left _ _ hlt
end

end Gopatch.Fnd

namespace Gopatch.Fnd

theorem step_lt (s : St) (h : WF s.toks) (hk : s.kind ≠ .eof) : (Res.step s).st.toks.length < s.toks.length :=
  next_lt s h hk

/-- `finder.function` -/
def function (s : St) (h : WF s.toks) : Res s :=
  (Res.step s).trans (functionBody s.next (wf_next s h))

/-- `finder.process` -/
def process (s : St) (h : WF s.toks) : Res s :=
  if s.kind = .ident then ident s
  else if s.kind = .ellipsis then ellipsis s
  else if s.kind = .func_ then function s h
  else Res.step s

theorem ident_lt (s : St) (h : WF s.toks) (hk : s.kind ≠ .eof) : (ident s).st.toks.length < s.toks.length := by
  unfold ident
  simp only
  split
  · exact Nat.lt_of_le_of_lt (next_le _) (next_lt s h hk)
  · exact next_lt s h hk

theorem ellipsis_lt (s : St) (h : WF s.toks) (hk : s.kind ≠ .eof) : (ellipsis s).st.toks.length < s.toks.length := by
  unfold ellipsis
  simp only
  split
  · exact Nat.lt_of_le_of_lt (next_le _) (next_lt s h hk)
  · exact next_lt s h hk

theorem process_lt (s : St) (h : WF s.toks) (hk : s.kind ≠ .eof) : (process s h).st.toks.length < s.toks.length := by
  unfold process
  split
  · exact ident_lt s h hk
  · split
    · exact ellipsis_lt s h hk
    · split
      · exact Nat.lt_of_le_of_lt (functionBody s.next (wf_next s h)).le (next_lt s h hk)
      · exact next_lt s h hk

/-- the receiver loop of `funcDecl`, with the EOF test of the `fix:` commit -/
def recvLoop (s : St) (h : WF s.toks) : Res s :=
  if hstop : s.kind = .rparen ∨ s.kind = .eof then Res.refl s
  else
    have hne : s.kind ≠ .eof := fun hh => hstop (Or.inr hh)
    let r := process s h
    have hlt : r.st.toks.length < s.toks.length := process_lt s h hne
    r.trans (recvLoop r.st (r.wf h))
termination_by s.toks.length

/-- `finder.funcDecl` -/
def funcDecl (s : St) (h : WF s.toks) : Res s :=
  let r0 := Res.step s                          -- func
  let r1 : Res s :=
    if r0.st.kind = .lparen then
      let a := Res.step r0.st                   -- (
      let b := recvLoop a.st (a.wf (r0.wf h))
      let c := Res.step b.st                    -- )
      r0.trans (a.trans (b.trans c))
    else r0
  let r2 := Res.step r1.st                      -- func name
  let r3 := functionBody r2.st (r2.wf (r1.wf h))
  r1.trans (r2.trans r3)

/-- the main loop of `find` -/
def findLoop (s : St) (h : WF s.toks) : Res s :=
  if hstop : s.kind = .eof then Res.refl s
  else
    let r := process s h
    have hlt : r.st.toks.length < s.toks.length := process_lt s h hstop
    r.trans (findLoop r.st (r.wf h))
termination_by s.toks.length

/-- `finder.pkg` -/
def pkg (s : St) : Res s :=
  if s.kind ≠ .package_ then (Res.refl s).mapAugs (· ++ [Aug.fakePackage s.cur.off])
  else (Res.step s).trans ((Res.step _).trans (Res.step _))

/-- skip to the closing parenthesis of an import group -/
def skipGroup (s : St) (h : WF s.toks) : Res s :=
  if hstop : s.kind = .rparen ∨ s.kind = .eof then Res.refl s
  else
    have hne : s.kind ≠ .eof := fun hh => hstop (Or.inr hh)
    have hlt : s.next.toks.length < s.toks.length := next_lt s h hne
    (Res.step s).trans (skipGroup s.next (wf_next s h))
termination_by s.toks.length

/-- `finder.imports` -/
def imports (s : St) (h : WF s.toks) : Res s :=
  if hi : s.kind = .import_ then
    have hne : s.kind ≠ .eof := by rw [hi]; decide
    have hlt : s.next.toks.length < s.toks.length := next_lt s h hne
    let r0 := Res.step s                        -- import
    if r0.st.kind = .lparen then
      let a := skipGroup r0.st (r0.wf h)
      let b := (Res.step a.st).trans (Res.step _)     -- ) ;
      let r : Res s := r0.trans (a.trans b)
      have hlt2 : r.st.toks.length < s.toks.length := Nat.lt_of_le_of_lt (a.trans b).le hlt
      r.trans (imports r.st (r.wf h))
    else if r0.st.kind = .eof then r0
    else
      let a : Res r0.st := if r0.st.kind = .period ∨ r0.st.kind = .ident then Res.step r0.st else Res.refl r0.st
      let b := (Res.step a.st).trans (Res.step _)     -- "path" ;
      let r : Res s := r0.trans (a.trans b)
      have hlt2 : r.st.toks.length < s.toks.length := Nat.lt_of_le_of_lt (a.trans b).le hlt
      r.trans (imports r.st (r.wf h))
  else Res.refl s
termination_by s.toks.length

/-- `finder.topLevelDecl` -/
def topLevelDecl (s : St) (h : WF s.toks) : Res s :=
  if s.kind = .type_ ∨ s.kind = .const_ ∨ s.kind = .var_ then Res.step s
  else if s.kind = .func_ then funcDecl s h
  else if s.kind = .lbrace then ((Res.refl s).mapAugs (· ++ [Aug.fakeFunc s.cur.off false])).trans (Res.step _)
  else (Res.refl s).mapAugs (· ++ [Aug.fakeFunc s.cur.off true])

/-- `find`: the augmentations for a token stream (which must end with its EOF token) -/
def find (toks : List Tok) (h : WF toks) : List Aug :=
  let s0 : St := { toks := toks, augs := [] }
  let r1 := pkg s0
  let r2 := imports r1.st (r1.wf h)
  let r3 := topLevelDecl r2.st (r2.wf (r1.wf h))
  let r4 := findLoop r3.st (r3.wf (r2.wf (r1.wf h)))
  r4.st.augs

def wfB : List Tok → Bool
  | [] => false
  | [t] => t.kind == .eof
  | t :: t' :: rest => t.kind != .eof && wfB (t' :: rest)

theorem wfB_sound : ∀ l, wfB l = true → WF l
  | [], h => by simp [wfB] at h
  | [t], h => by simpa [wfB, WF] using h
  | t :: t' :: rest, h => by
      simp only [wfB, Bool.and_eq_true, bne_iff_ne, ne_eq] at h
      exact ⟨h.1, wfB_sound _ h.2⟩

/-- total entry point: the token stream as delivered by go/scanner (ending in EOF) -/
def findTotal (toks : List Tok) : Option (List Aug) :=
  if h : wfB toks = true then some (find toks (wfB_sound toks h)) else none

end Gopatch.Fnd

namespace Gopatch.Fnd

def Aug.start : Aug → Nat
  | .fakePackage s => s
  | .fakeFunc s _ => s
  | .dots s _ _ => s

def Aug.stop : Aug → Nat
  | .fakePackage s => s
  | .fakeFunc s _ => s
  | .dots _ e _ => e

def insertByStart (a : Aug) : List Aug → List Aug
  | [] => [a]
  | b :: bs => if a.start ≤ b.start then a :: b :: bs else b :: insertByStart a bs

/-- stable sort by start offset -/
def sortByStart (l : List Aug) : List Aug := l.foldr insertByStart []

def strBytes (s : String) : List UInt8 := s.toUTF8.toList

structure RwSt where
  pos : Nat := 0
  dst : List UInt8 := []
  tail : List UInt8 := []
  adjs : List (Nat × Nat) := []
  reduceBy : Nat := 0
  out : List Aug := []

/-- one iteration of the loop of `rewrite` -/
def rwStep (src : List UInt8) (st : RwSt) (a : Aug) : RwSt :=
  let dst := st.dst ++ (src.drop st.pos).take (a.start - st.pos)
  match a with
  | .fakePackage _ =>
      let start := dst.length
      let dst' := dst ++ strBytes "package _\n"
      let rb := st.reduceBy + (dst'.length - start)
      { st with pos := a.stop, dst := dst', adjs := st.adjs ++ [(start, rb)], reduceBy := rb, out := st.out ++ [.fakePackage start] }
  | .fakeFunc _ braces =>
      let start := dst.length
      let dst' := dst ++ strBytes "func _() " ++ (if braces then strBytes "{\n" else [])
      let rb := st.reduceBy + (dst'.length - start)
      { st with pos := a.stop, dst := dst', tail := st.tail ++ (if braces then strBytes "}\n" else []),
                adjs := st.adjs ++ [(start, rb)], reduceBy := rb, out := st.out ++ [.fakeFunc start braces] }
  | .dots _ _ named =>
      let start := dst.length
      let dst' := dst ++ (if named then strBytes "_ d" else strBytes "dts")
      { st with pos := a.stop, dst := dst', out := st.out ++ [.dots start dst'.length named] }

/-- `rewrite`: the augmented source, the augmentations with their new offsets, the position
adjustments -/
def rewrite (src : List UInt8) (augs : List Aug) : List UInt8 × List Aug × List (Nat × Nat) :=
  let st := (sortByStart augs).foldl (rwStep src) {}
  (st.dst ++ src.drop st.pos ++ st.tail, st.out, st.adjs)

/-- `posAdjuster.Pos` on offsets: subtract the adjustment of the last splice at or before it -/
def adjust (adjs : List (Nat × Nat)) (off : Nat) : Nat :=
  match (adjs.filter (fun a => a.1 ≤ off)).getLast? with
  | some a => off - a.2
  | none => off

end Gopatch.Fnd
