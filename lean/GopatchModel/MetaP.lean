import GopatchModel.Section
/-
  MetaP.lean — model of internal/parse/meta.go (metaParser over go/scanner
  tokens, which are an input of the model), of the offset → patch line:column
  mapping installed with AddLineColumnInfo, and of engine/meta.go:compileMeta.
-/
namespace Gopatch.Sec

structure Tok where
  off : Nat
  kind : String          -- "var" | "ident" | "," | ";" | "eof" | anything else
  text : String
  errs : List Nat        -- offsets of scanner errors reported while scanning this token
  deriving Repr, Inhabited

inductive MErr where
  | scan | expectedVar | expectedIdent | expectedSemi | unknownType | duplicate (firstOff : Nat)
  deriving Repr, DecidableEq, Inhabited

structure VarDecl where
  names : List (String × Nat)
  ty : String × Nat
  deriving Repr, Inhabited

structure PState where
  toks : List Tok           -- head = current token
  failed : Bool
  errors : List (Nat × MErr)
  deriving Inhabited

def cur (s : PState) : Tok := s.toks.head?.getD { off := 0, kind := "eof", text := "", errs := [] }

/-- `metaParser.next`: scan one more token; scanner errors fail the parser -/
def pnext (s : PState) : PState :=
  match s.toks with
  | _ :: t :: rest =>
      { toks := t :: rest, failed := s.failed || !t.errs.isEmpty,
        errors := s.errors ++ t.errs.map (fun o => (o, MErr.scan)) }
  | _ => s

def perr (s : PState) (e : MErr) : PState :=
  { s with failed := true, errors := s.errors ++ [((cur s).off, e)] }

/-- `parseIdent` (with its deferred `next`) -/
def parseIdent (s : PState) : Option (String × Nat) × PState :=
  if (cur s).kind != "ident" then (none, pnext (perr s .expectedIdent))
  else (some ((cur s).text, (cur s).off), pnext s)

/-- the `for` loop over names of `parseDecl` -/
def parseNames : Nat → PState → List (String × Nat) → Option (List (String × Nat)) × PState
  | 0, s, _ => (none, s)
  | fuel + 1, s, acc =>
      let s := pnext s            -- skip var / ,
      match parseIdent s with
      | (none, s) => (none, s)
      | (some n, s) =>
          if (cur s).kind != "," then (some (acc ++ [n]), s) else parseNames fuel s (acc ++ [n])

/-- `parseDecl` (with its deferred `next`) -/
def parseDecl (s : PState) : Option VarDecl × PState :=
  if (cur s).kind != "var" then (none, pnext (perr s .expectedVar))
  else
    match parseNames (s.toks.length + 1) s [] with
    | (none, s) => (none, pnext s)
    | (some names, s) =>
        match parseIdent s with
        | (none, s) => (none, pnext s)
        | (some ty, s) =>
            if (cur s).kind != ";" then (none, pnext (perr s .expectedSemi))
            else (some { names := names, ty := ty }, pnext s)

def parseLoop : Nat → PState → List (Option VarDecl) → List (Option VarDecl) × PState
  | 0, s, acc => (acc, s)
  | fuel + 1, s, acc =>
      if s.failed || (cur s).kind == "eof" then (acc, s)
      else
        let (d, s) := parseDecl s
        parseLoop fuel s (acc ++ [d])

/-- `parseMeta` on the token stream of the scratch buffer -/
def parseMeta (toks : List Tok) : List (Option VarDecl) × List (Nat × MErr) :=
  match toks with
  | [] => ([], [])
  | t :: _ =>
      let s0 : PState := { toks := toks, failed := !t.errs.isEmpty, errors := t.errs.map (fun o => (o, MErr.scan)) }
      let (ds, s) := parseLoop (toks.length + 1) s0 []
      (ds, s.errors)

/-- `compileMeta`: errors only (the variable map is observed through the engine stream) -/
def compileMetaErrs : List VarDecl → List (String × Nat) → List (Nat × MErr)
  | [], _ => []
  | d :: ds, seen =>
      if d.ty.1 != "identifier" && d.ty.1 != "expression" then
        (d.ty.2, MErr.unknownType) :: compileMetaErrs ds seen
      else
        let step := d.names.foldl (fun (acc : List (String × Nat) × List (Nat × MErr)) n =>
          if n.1 == "_" then acc
          else match acc.1.lookup n.1 with
            | some first => (acc.1, acc.2 ++ [(n.2, MErr.duplicate first)])
            | none => (acc.1 ++ [n], acc.2)) (seen, [])
        step.2 ++ compileMetaErrs ds step.1

/-- Scratch-buffer offset → (line, column) in the patch file. `lines` are the meta lines of
the change (offsets in the patch file); scratch line k starts at `starts[k]`. -/
def scratchStarts : Nat → List Line → List Nat
  | _, [] => []
  | o, l :: ls => o :: scratchStarts (o + l.text.length + 1) ls

def mapPos (content : Bytes) (lines : List Line) (o : Nat) : Nat × Nat :=
  let starts := scratchStarts 0 lines
  -- index of the scratch line containing o
  let k := (starts.filter (· ≤ o)).length - 1
  match lines[k]?, starts[k]? with
  | some l, some s =>
      let total := (lines.foldl (fun a x => a + x.text.length + 1) 0)
      if o < total then ((position content l.off).1, (position content l.off).2 + (o - s))
      else ((position content l.off).1 + 1, 1)
  | _, _ => (1, 1 + o)

end Gopatch.Sec
