import GopatchModel.Section
/-
  SplitPatch.lean — model of `splitPatch` (internal/parse/patch.go): the body of a change,
  a list of patch lines, is cut into its '-' version and its '+' version; each version is a
  byte string plus one `LinePos` per line that says at which offset of the patch file the
  text of that line begins.  Also `token.File.Position` for a file whose alternative
  positions were set from those entries (`AddLineColumnInfo` in `parsePatchVersion`).
-/
namespace Gopatch.Sec

structure LinePos where
  off : Nat   -- offset of the line in the version's contents
  pos : Nat   -- offset of its text in the patch file
  deriving Repr, DecidableEq, Inhabited

structure Version where
  contents : Bytes := []
  lines : List LinePos := []
  deriving Repr, Inhabited

def minusB : UInt8 := 45
def plusB : UInt8 := 43

/-- the text a patch line gives to the '-' version (`m = true`) or the '+' version, if any: a leading
'-' or '+' selects the version and is not part of the text; every other line goes to both as it is
(the blank of a context line included) -/
def sideLine (m : Bool) (l : Line) : Option Line :=
  match l.text with
  | b :: rest =>
      if b == minusB then (if m then some ⟨l.off + 1, rest⟩ else none)
      else if b == plusB then (if m then none else some ⟨l.off + 1, rest⟩)
      else some l
  | [] => some l

/-- one `w.Write(line.Text); w.Write(newline)` with its `LinePos` entry -/
def Version.add (v : Version) (l : Line) : Version :=
  { contents := v.contents ++ l.text ++ [nl], lines := v.lines ++ [⟨v.contents.length, l.off⟩] }

def build (ls : List Line) : Version := ls.foldl Version.add {}

/-- `splitPatch` -/
def splitPatch (ls : List Line) : Version × Version :=
  (build (ls.filterMap (sideLine true)), build (ls.filterMap (sideLine false)))

/-- `token.File.Position` of an offset of a version's contents, after `parsePatchVersion` registered
every `LinePos` with `AddLineColumnInfo(off, file, line, column)`: the last entry at or before the
offset gives line and column of its text in the patch file; the column moves on with the offset -/
def Version.positionIn (v : Version) (content : Bytes) (o : Nat) : Nat × Nat :=
  match (v.lines.filter (fun lp => lp.off ≤ o)).getLast? with
  | some lp => let p := Sec.position content lp.pos; (p.1, p.2 + (o - lp.off))
  | none => (0, 0)

end Gopatch.Sec
