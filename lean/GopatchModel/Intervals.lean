import GopatchModel.Engine
/-
  Intervals.lean — model of the comment filter of cleanupFilePos over the
  intervals returned by Changelog.ChangedIntervals() (the set Changed −
  Unchanged as computed by the external intervalset package, an input here):
  a comment is removed iff it lies wholly inside one interval that does not
  start at NoPos.
-/
namespace Gopatch

structure Iv where
  s : Nat
  e : Nat
  deriving Repr, Inhabited, DecidableEq

structure Comment where
  pos : Nat
  stop : Nat
  text : String
  deriving Repr, Inhabited, DecidableEq

/-- the test of cleanupFilePos for one interval `dr` of `Changelog.ChangedIntervals()`:
intervals that start at NoPos are skipped, a comment is removed when it lies wholly inside -/
def inside (i : Iv) (c : Comment) : Bool := i.s != 0 && i.s ≤ c.pos && c.stop ≤ i.e

def dropped (ivs : List Iv) (c : Comment) : Bool := ivs.any (fun i => inside i c)

/-- the comments left in every comment group after one change -/
def filterComments (ivs : List Iv) (cs : List Comment) : List Comment :=
  cs.filter (fun c => !dropped ivs c)

/-- every changed interval starts at NoPos (and is skipped by the filter) or at or after `hi` -/
def startsClearB (hi : Nat) (ivs : List Iv) : Bool := ivs.all (fun i => i.s == 0 || decide (hi ≤ i.s))

/-- the extent of a top-level declaration: from its doc comment to the comments trailing its last line -/
structure Extent where
  s : Nat
  e : Nat
  deriving Repr, Inhabited, DecidableEq

/-- the interval does not reach into the extent (intervals starting at NoPos are ignored by the filter) -/
def clearOf (i : Iv) (x : Extent) : Bool := i.s == 0 || i.e ≤ x.s || x.e ≤ i.s

/-- what astdiff owes the comment filter: no changed interval reaches into a declaration in which nothing was rewritten -/
def respects (ivs : List Iv) (untouched : List Extent) : Bool := ivs.all (fun i => untouched.all (clearOf i))

/-- the first (interval, extent) pair that breaks `respects`, for the replay -/
def offender (ivs : List Iv) (untouched : List Extent) : Option (Iv × Extent) :=
  (ivs.flatMap (fun i => untouched.map (fun x => (i, x)))).find? (fun p => !clearOf p.1 p.2)

/-! ### `Changelog.ChangedIntervals`: the positions recorded as changed and not recorded as unchanged -/

/-- the position lies in one of the intervals (an interval with `e ≤ s` holds nothing) -/
def covers (ivs : List Iv) (p : Nat) : Bool := ivs.any (fun i => i.s ≤ p && p < i.e)

/-- the set `plus − minus` of `ChangedIntervals`, position by position -/
def changedAt (plus minus : List Iv) (p : Nat) : Bool := covers plus p && !covers minus p

/-- the interval list denotes only changed positions, each interval non-empty (tested on the intervals the real
changelog returns, position by position) -/
def soundOutB (out plus minus : List Iv) : Bool :=
  out.all (fun iv => iv.s < iv.e && (List.range' iv.s (iv.e - iv.s)).all (changedAt plus minus))

/-- the region keeps clear of the extent, with no exemption for regions that start at NoPos -/
def strongClear (r : Iv) (x : Extent) : Bool := r.e ≤ x.s || x.e ≤ r.s || r.e ≤ r.s

/-- the boundaries at which membership can change -/
def boundaries (plus minus : List Iv) : List Nat :=
  ((plus ++ minus).flatMap (fun i => [i.s, i.e])).foldr (fun b acc => if acc.contains b then acc else b :: acc) []

def insertSorted (b : Nat) : List Nat → List Nat
  | [] => [b]
  | a :: as => if b ≤ a then b :: a :: as else a :: insertSorted b as

/-- `ChangedIntervals` as a canonical list: the maximal runs of changed positions, in order -/
def changedIntervals (plus minus : List Iv) : List Iv :=
  let bs := (boundaries plus minus).foldr insertSorted []
  let segs := (bs.zip bs.tail).filter (fun p => changedAt plus minus p.1)
  segs.foldl (fun (acc : List Iv) p =>
    match acc.getLast? with
    | some l => if l.e == p.1 then acc.dropLast ++ [{ s := l.s, e := p.2 }] else acc ++ [{ s := p.1, e := p.2 }]
    | none => [{ s := p.1, e := p.2 }]) []

mutual
/-- the value has no comment group anywhere -/
def noComments : V → Bool
  | .iface _ v => noComments v
  | .slice _ vs => noCommentsL vs
  | .ptr t _ fs => t != "ast.CommentGroup" && noCommentsL fs
  | _ => true
def noCommentsL : List V → Bool
  | [] => true
  | v :: vs => noComments v && noCommentsL vs
end

end Gopatch
