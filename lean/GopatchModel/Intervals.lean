import GopatchModel.Engine
/-
  Intervals.lean — model of the comment filter of cleanupFilePos over the
  intervals returned by Changelog.ChangedIntervals() (the set Changed −
  Unchanged as computed by the external intervalset package, an input here):
  a comment is removed iff it lies wholly inside one interval that does not
  start at NoPos.
-/
namespace Gopatch

structure Iv where
  s : Nat
  e : Nat
  deriving Repr, Inhabited, DecidableEq

structure Comment where
  pos : Nat
  stop : Nat
  text : String
  deriving Repr, Inhabited, DecidableEq

/-- the test of cleanupFilePos for one interval `dr` of `Changelog.ChangedIntervals()`:
intervals that start at NoPos are skipped, a comment is removed when it lies wholly inside -/
def inside (i : Iv) (c : Comment) : Bool := i.s != 0 && i.s ≤ c.pos && c.stop ≤ i.e

def dropped (ivs : List Iv) (c : Comment) : Bool := ivs.any (fun i => inside i c)

/-- the comments left in every comment group after one change -/
def filterComments (ivs : List Iv) (cs : List Comment) : List Comment :=
  cs.filter (fun c => !dropped ivs c)

/-- the extent of a top-level declaration: from its doc comment to the comments trailing its last line -/
structure Extent where
  s : Nat
  e : Nat
  deriving Repr, Inhabited, DecidableEq

/-- the interval does not reach into the extent (intervals starting at NoPos are ignored by the filter) -/
def clearOf (i : Iv) (x : Extent) : Bool := i.s == 0 || i.e ≤ x.s || x.e ≤ i.s

/-- what astdiff owes the comment filter: no changed interval reaches into a declaration in which nothing was rewritten -/
def respects (ivs : List Iv) (untouched : List Extent) : Bool := ivs.all (fun i => untouched.all (clearOf i))

/-- the first (interval, extent) pair that breaks `respects`, for the replay -/
def offender (ivs : List Iv) (untouched : List Extent) : Option (Iv × Extent) :=
  (ivs.flatMap (fun i => untouched.map (fun x => (i, x)))).find? (fun p => !clearOf p.1 p.2)

mutual
/-- the value has no comment group anywhere -/
def noComments : V → Bool
  | .iface _ v => noComments v
  | .slice _ vs => noCommentsL vs
  | .ptr t _ fs => t != "ast.CommentGroup" && noCommentsL fs
  | _ => true
def noCommentsL : List V → Bool
  | [] => true
  | v :: vs => noComments v && noCommentsL vs
end

end Gopatch
