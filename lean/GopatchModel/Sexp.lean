import GopatchModel.FileM
/-
  Sexp.lean — line protocol between the Go harness and the model driver:
  an S-expression reader, the decoding of trees / changes / files, and the
  canonical printers.  Not part of any theorem; trusted as part of the
  correspondence check.
-/
namespace Gopatch

inductive Sx where
  | atom (s : String)
  | str (s : String)
  | list (xs : List Sx)
  deriving Inhabited

namespace Sx

partial def parseStr (cs : Array Char) (i : Nat) (acc : String) : String × Nat :=
  if h : i < cs.size then
    let c := cs[i]
    if c == '"' then (acc, i+1)
    else if c == '\\' then
      if h2 : i+1 < cs.size then
        let c2 := cs[i+1]
        let r := if c2 == 'n' then '\n' else if c2 == 't' then '\t' else if c2 == 'r' then '\r' else c2
        parseStr cs (i+2) (acc.push r)
      else (acc, i+1)
    else parseStr cs (i+1) (acc.push c)
  else (acc, i)

partial def parseAtom (cs : Array Char) (i : Nat) (acc : String) : String × Nat :=
  if h : i < cs.size then
    let c := cs[i]
    if c == ' ' || c == '(' || c == ')' || c == '\n' then (acc, i) else parseAtom cs (i+1) (acc.push c)
  else (acc, i)

mutual
partial def parse (cs : Array Char) (i : Nat) : Sx × Nat :=
  if h : i < cs.size then
    let c := cs[i]
    if c == ' ' || c == '\n' then parse cs (i+1)
    else if c == '(' then
      let (xs, j) := parseList cs (i+1) #[]
      (.list xs.toList, j)
    else if c == '"' then
      let (s, j) := parseStr cs (i+1) ""
      (.str s, j)
    else
      let (s, j) := parseAtom cs i ""
      (.atom s, j)
  else (.list [], i)
partial def parseList (cs : Array Char) (i : Nat) (acc : Array Sx) : Array Sx × Nat :=
  if h : i < cs.size then
    let c := cs[i]
    if c == ' ' || c == '\n' then parseList cs (i+1) acc
    else if c == ')' then (acc, i+1)
    else
      let (x, j) := parse cs i
      parseList cs j (acc.push x)
  else (acc, i)
end

def ofString (s : String) : Sx := (parse s.toList.toArray 0).1

def asStr : Sx → String
  | .atom s => s
  | .str s => s
  | .list _ => ""

def asNat (x : Sx) : Nat := x.asStr.toNat?.getD 0
def asInt (x : Sx) : Int := x.asStr.toInt?.getD 0

/-- `(key ...)` lookup inside a list of tagged lists -/
def field (xs : List Sx) (key : String) : List Sx :=
  match xs.find? (fun x => match x with | .list (.atom k :: _) => k == key | _ => false) with
  | some (.list (_ :: rest)) => rest
  | _ => []

end Sx

partial def decodeV : Sx → V
  | .str s => .str s
  | .list [.atom "P", k] => .pos true k.asNat
  | .list [.atom "p"] => .pos false 0
  | .list [.atom "I", n] => .int n.asInt
  | .list [.atom "B", b] => .bool (b.asStr == "1")
  | .list [.atom "N", t] => .nilP t.asStr
  | .list (.atom "S" :: t :: id :: fs) => .ptr t.asStr id.asNat (fs.map decodeV)
  | .list [.atom "NI", i] => .nilI i.asStr
  | .list [.atom "F", i, v] => .iface i.asStr (decodeV v)
  | .list [.atom "NL", e] => .nilS e.asStr
  | .list (.atom "L" :: e :: vs) => .slice e.asStr (vs.map decodeV)
  | _ => .str "<?>"

def escapeStr (s : String) : String :=
  s.foldl (fun acc c =>
    if c == '"' then acc ++ "\\\"" else if c == '\\' then acc ++ "\\\\"
    else if c == '\n' then acc ++ "\\n" else if c == '\t' then acc ++ "\\t" else if c == '\r' then acc ++ "\\r"
    else acc.push c) ""

/-- canonical printer: identities dropped, positions reduced to validity -/
partial def canonV : V → String
  | .pos v _ => if v then "(P)" else "(p)"
  | .str s => "\"" ++ escapeStr s ++ "\""
  | .int n => s!"(I {n})"
  | .bool b => if b then "(B 1)" else "(B 0)"
  | .nilP t => s!"(N {t})"
  | .ptr t _ fs => "(S " ++ t ++ String.join (fs.map (fun f => " " ++ canonV f)) ++ ")"
  | .nilI i => s!"(NI {i})"
  | .iface i v => s!"(F {i} {canonV v})"
  | .nilS e => s!"(NL {e})"
  | .slice e vs => "(L " ++ e ++ String.join (vs.map (fun f => " " ++ canonV f)) ++ ")"

def decodeImports (xs : List Sx) : List (Option String × String) :=
  xs.filterMap (fun x => match x with
    | .list [.atom "imp", n, p] => some (if n.asStr == "" then none else some n.asStr, p.asStr)
    | _ => none)

def decodePFile (xs : List Sx) : PFile :=
  { pkg := ((Sx.field xs "pkg").head?.map Sx.asStr).getD ""
    imports := decodeImports (Sx.field xs "imports")
    kind := ((Sx.field xs "kind").head?.map Sx.asStr).getD ""
    node := ((Sx.field xs "node").head?.map decodeV).getD (.str "<none>") }

def decodeMeta (xs : List Sx) : Meta :=
  xs.filterMap (fun x => match x with
    | .list [n, k] => some (n.asStr, if k.asStr == "i" then Kind.ident else Kind.expr)
    | _ => none)

def decodeChange (x : Sx) : Change :=
  match x with
  | .list (.atom "change" :: xs) =>
      { mt := decodeMeta (Sx.field xs "meta")
        minus := decodePFile (Sx.field xs "minus")
        plus := decodePFile (Sx.field xs "plus")
        startKey := ((Sx.field xs "start").head?.map Sx.asNat).getD 0
        endKey := ((Sx.field xs "end").head?.map Sx.asNat).getD 0 }
  | _ => default

def decodeFile (xs : List Sx) : FileM :=
  { pkg := ((Sx.field xs "pkg").head?.map Sx.asStr).getD ""
    imports := decodeImports (Sx.field xs "imports")
    tree := ((Sx.field xs "tree").head?.map decodeV).getD (.str "<none>")
    nextId := ((Sx.field xs "next").head?.map Sx.asNat).getD 1 }

def isImportDecl : V → Bool
  | .iface _ (.ptr t _ (_ :: _ :: .int tok :: _)) => t == "ast.GenDecl" && tok == tokIMPORT
  | _ => false

/-- the file with its import declarations removed from `Decls` (they are compared as a
multiset of (name, path) instead) -/
def stripImportDecls : V → V
  | .ptr t id (doc :: pk :: nm :: .slice e decls :: rest) =>
      .ptr t id (doc :: pk :: nm :: .slice e (decls.filter (fun d => !isImportDecl d)) :: rest)
  | v => v

def insertStr (x : String) : List String → List String
  | [] => [x]
  | y :: ys => if x ≤ y then x :: y :: ys else y :: insertStr x ys

def canonImports (imps : List (Option String × String)) : String :=
  let strs := imps.map (fun p => "(imp \"" ++ escapeStr (p.1.getD "") ++ "\" \"" ++ escapeStr p.2 ++ "\")")
  "(imports" ++ String.join ((strs.foldr insertStr []).map (" " ++ ·)) ++ ")"

def canonFile (f : FileM) : String :=
  "(pkg \"" ++ escapeStr f.pkg ++ "\") " ++ canonImports f.imports ++ " (tree " ++ canonV (stripImportDecls f.tree) ++ ")"

end Gopatch
