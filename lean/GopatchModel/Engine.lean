import GopatchModel.Data
/-
  Engine.lean — executable model of internal/engine: matcher and replacer
  (reflect_match.go, reflect_replace.go, metavar.go, pos.go, slice_dots.go,
  for_dots.go, stmt_list.go), written as direct recursion on the *pattern*
  value (compile ∘ match fused; compile has no state besides the dots it finds).
-/
namespace Gopatch

def firstSome {α β} : List α → (α → Option β) → Option β
  | [], _ => none
  | a :: as, f => match f a with
    | some b => some b
    | none => firstSome as f

/-- all ways of cutting a list into (skipped prefix, rest), shortest prefix first -/
def splits {α} : List α → List (List α × List α)
  | [] => [([], [])]
  | a :: as => ([], a :: as) :: (splits as).map (fun p => (a :: p.1, p.2))

/-- key of a bare `pgo.Dots` expression value -/
def dotsExprKey : V → Option Nat
  | .iface _ (.ptr t _ [_, .pos _ k]) => if t == "pgo.Dots" then some k else none
  | _ => none

/-- `isDots` of compileSliceDots, per element type; returns the dots position key -/
def dotsKeyOf (e : String) (item : V) : Option Nat :=
  if e == "ast.Expr" then dotsExprKey item
  else if e == "ast.Stmt" then
    match item with
    | .iface _ (.ptr t _ [x]) => if t == "ast.ExprStmt" then dotsExprKey x else none
    | _ => none
  else if e == "*ast.Field" then
    match item with
    | .ptr t _ [_, _, ty, _, _] => if t == "ast.Field" then dotsExprKey ty else none
    | _ => none
  else none

/-- `for ... {` header: Cond is Dots, Init and Post are nil. Returns the dots key. -/
def forDotsKeyOf (t : String) (fs : List V) : Option Nat :=
  if t == "ast.ForStmt" then
    match fs with
    | [_, init, cond, post, _] => if init.isNil && post.isNil then dotsExprKey cond else none
    | _ => none
  else none

def identName (fs : List V) : String :=
  match fs with
  | [_, .str s, _] => s
  | _ => ""

def bodyIdxOf (t : String) : Option Nat :=
  if t == "ast.ForStmt" then some 4 else if t == "ast.RangeStmt" then some 7 else none

/-- pointer types that always match / are always produced as nil -/
def ignoredPtr (t : String) : Bool := t == "ast.CommentGroup" || t == "ast.Object"

/-! ### Matching a captured metavariable value against later occurrences
   (`metavarData.Matcher`, compiled with `meta = nil` from a value of the target file). -/
mutual
def eqvM : V → V → Bool
  | .pos pv _, g => match g with | .pos gv _ => pv == gv | _ => false
  | .str s, g => match g with | .str s' => s == s' | _ => false
  | .int n, g => match g with | .int n' => n == n' | _ => false
  | .bool b, g => match g with | .bool b' => b == b' | _ => false
  | .nilP t, g => ignoredPtr t || g.isNil
  | .nilI _, g => g.isNil
  | .nilS e, g =>
      if dotsElem e then (match g with | .nilS _ => true | .slice _ [] => true | _ => false)
      else g.isNil
  | .iface _ pv, g => match g with | .iface _ gv => eqvM pv gv | _ => false
  | .slice _ ps, g => match g with
      | .slice _ gs => eqvMs ps gs
      | .nilS _ => ps.isEmpty
      | _ => false
  | .ptr t _ fs, g =>
      ignoredPtr t ||
      (match g with
       | .ptr t' _ gs => t == t' && eqvMs fs gs
       | _ => false)
def eqvMs : List V → List V → Bool
  | [], [] => true
  | p :: ps, g :: gs => eqvM p g && eqvMs ps gs
  | _, _ => false
end

/-- `MetavarMatcher.TypeMatches` on the static type of the candidate value. -/
def kindOK (k : Kind) (g : V) : Bool :=
  match k, g with
  | .ident, .ptr t _ _ => t == "ast.Ident"
  | .ident, .nilP t => t == "ast.Ident"
  | .expr, .ptr t _ _ => isExprType t
  | .expr, .nilP t => isExprType t
  | _, _ => false

/-- `MetavarMatcher.Match` (after the `fix:` rejecting nil values). -/
def matchMetavar (k : Kind) (name : String) (g : V) (d : Data) : Option Data :=
  if !kindOK k g || g.isNil then none
  else match d.lookMv name with
    | some c => if eqvM c g then some d else none
    | none => some (d.pushMv name g)

mutual
/-- `Matcher.Match` of the matcher compiled from pattern value `p`, on `g`. -/
def matchV (mt : Meta) : V → V → Data → Option Data
  | .pos pv pk, g, d => match g with
      | .pos gv _ => if pv == gv then some (if pv then d.pushPos pk else d) else none
      | _ => none
  | .str s, g, d => match g with | .str s' => if s == s' then some d else none | _ => none
  | .int n, g, d => match g with | .int n' => if n == n' then some d else none | _ => none
  | .bool b, g, d => match g with | .bool b' => if b == b' then some d else none | _ => none
  | .nilP t, g, d => if ignoredPtr t || g.isNil then some d else none
  | .nilI _, g, d => if g.isNil then some d else none
  | .nilS e, g, d =>
      if dotsElem e then (match g with | .nilS _ => some d | .slice _ [] => some d | _ => none)
      else if g.isNil then some d else none
  | .iface _ pv, g, d => match g with | .iface _ gv => matchV mt pv gv d | _ => none
  | .slice e ps, g, d =>
      if dotsElem e then
        (match g with
         | .slice _ gs => matchSeq mt e ps gs d
         | .nilS _ => matchSeq mt e ps [] d
         | _ => none)
      else
        (match g with
         | .slice _ gs => matchVs mt ps gs d
         | .nilS _ => if ps.isEmpty then some d else none
         | _ => none)
  | .ptr t _ fs, g, d =>
      if ignoredPtr t then some d
      else if t == "ast.Ident" then
        (match mt.look (identName fs) with
         | some k => matchMetavar k (identName fs) g d
         | none => match g with
            | .ptr t' _ gs => if t == t' then matchVs mt fs gs d else none
            | _ => none)
      else match forDotsKeyOf t fs with
        | some k =>
            (match g with
             | .ptr t' _ gs =>
                 (match bodyIdxOf t' with
                  | some bi =>
                      (match gs[bi]? with
                       | some gb => matchNth mt fs 4 gb
                                      (d.pushFor k { ty := t', bodyIdx := bi, fields := gs })
                       | none => none)
                  | none => none)
             | _ => none)
        | none => match g with
            | .ptr t' _ gs => if t == t' then matchVs mt fs gs d else none
            | _ => none
/-- exact element-wise matching (`SliceMatcher`, `StructMatcher`) -/
def matchVs (mt : Meta) : List V → List V → Data → Option Data
  | [], [], d => some d
  | p :: ps, g :: gs, d => (matchV mt p g d).bind (matchVs mt ps gs)
  | _, _, _ => none
/-- `SliceDotsMatcher` (after the `fix:` that made it backtrack): every dots takes the
shortest run that lets the rest of the pattern match, left to right. -/
def matchSeq (mt : Meta) (e : String) : List V → List V → Data → Option Data
  | [], gs, d => if gs.isEmpty then some d else none
  | p :: ps, gs, d =>
      match dotsKeyOf e p with
      | some k => firstSome (splits gs) (fun sr => matchSeq mt e ps sr.2 (d.pushDots k sr.1))
      | none => match gs with
          | [] => none
          | g :: gs' => (matchV mt p g d).bind (matchSeq mt e ps gs')
/-- match only the pattern field at index `i` -/
def matchNth (mt : Meta) : List V → Nat → V → Data → Option Data
  | [], _, _, _ => none
  | p :: _, 0, g, d => matchV mt p g d
  | _ :: ps, i+1, g, d => matchNth mt ps i g d
end

/-! ### Replacement -/

inductive Err where
  | err (msg : String)
  | panic (msg : String)
  deriving Repr, Inhabited

abbrev R := Except Err

/- The value a metavariable's captured `Replacer` rebuilds: a deep copy with fresh
identity, comments and objects dropped, every valid position set to the fallback. -/
mutual
def copyV (fb : Bool) : V → V
  | .pos v k => .pos (v && fb) (if v && fb then k else 0)
  | .str s => .str s
  | .int n => .int n
  | .bool b => .bool b
  | .nilP t => .nilP t
  | .nilI i => .nilI i
  | .nilS e => .nilS e
  | .iface i v => .iface i (copyV fb v)
  | .slice e vs => .slice e (copyVs fb vs)
  | .ptr t _ fs => if ignoredPtr t then .nilP t else .ptr t 0 (copyVs fb fs)
def copyVs (fb : Bool) : List V → List V
  | [] => []
  | v :: vs => copyV fb v :: copyVs fb vs
end

/-- can a produced value be stored (`reflect.Value.Set`) in a slot whose static type is
that of pattern value `pf`? -/
def fits (out pf : V) : Bool := out.tyOf == pf.tyOf

def assocLook (assoc : List (Nat × Nat)) (k : Nat) : Option Nat := assoc.lookup k

/-- does the run fit a slice of element type `e`? (`result.Index(i).Set(item)`) -/
def runFits (e : String) (run : List V) : Bool :=
  run.all (fun v => match v with
    | .iface i _ => i == e
    | .nilI i => i == e
    | .ptr t _ _ => "*" ++ t == e
    | .nilP t => "*" ++ t == e
    | _ => false)

mutual
/-- `Replacer.Replace` of the replacer compiled from pattern value `p`.
`fb` is the validity of the fallback position `pos`. -/
def replaceV (mt : Meta) (assoc : List (Nat × Nat)) : V → Data → Bool → R V
  | .pos pv pk, d, fb =>
      if !pv then .ok (.pos false 0)
      else if d.posm.contains pk then .ok (.pos true pk) else .ok (.pos fb (if fb then pk else 0))
  | .str s, _, _ => .ok (.str s)
  | .int n, _, _ => .ok (.int n)
  | .bool b, _, _ => .ok (.bool b)
  | .nilP t, _, _ => .ok (.nilP t)
  | .nilI i, _, _ => .ok (.nilI i)
  | .nilS e, _, _ => .ok (.nilS e)
  | .iface i pv, d, fb =>
      (replaceV mt assoc pv d fb).bind (fun x =>
        if assignable x i then .ok (.iface i x)
        else .error (.err s!"cannot use {x.tyOf} as {i}"))
  | .slice e ps, d, fb =>
      if dotsElem e then
        (replaceSeq mt assoc e ps d fb).bind (fun r =>
          if r.2 && r.1.isEmpty then .ok (.nilS e) else .ok (.slice e r.1))
      else
        (replaceVs mt assoc ps d fb).bind (fun items => .ok (.slice e items))
  | .ptr t _ fs, d, fb =>
      if ignoredPtr t then .ok (.nilP t)
      else if t == "pgo.Dots" then .error (.err "cannot generate code for \"...\" outside a list")
      else if t == "ast.Ident" && (mt.look (identName fs)).isSome then
        (match d.lookMv (identName fs) with
         | some c => .ok (copyV fb c)
         | none => .error (.err s!"could not find value for metavariable {identName fs}"))
      else match forDotsKeyOf t fs with
        | some k =>
            (match (assocLook assoc k).bind d.lookFor with
             | some fd =>
                 (replaceNth mt assoc fs 4 d fb).bind (fun body =>
                   .ok (.ptr fd.ty 0 (fd.fields.set fd.bodyIdx body)))
             | none => .error (.err "match data not found for 'for ...'"))
        | none => (replaceVs mt assoc fs d fb).bind (fun fs' => .ok (.ptr t 0 fs'))
/-- element-wise (struct fields, plain slices) with the `Set` assignability check -/
def replaceVs (mt : Meta) (assoc : List (Nat × Nat)) : List V → Data → Bool → R (List V)
  | [], _, _ => .ok []
  | p :: ps, d, fb =>
      (replaceV mt assoc p d fb).bind (fun x =>
        if !fits x p then .error (.err s!"cannot use {x.tyOf} as {p.tyOf}")
        else (replaceVs mt assoc ps d fb).bind (fun xs => .ok (x :: xs)))
/-- `SliceDotsReplacer` / `SliceReplacer` for the dots-aware element types: returns the
items and whether the pattern list contained a dots. -/
def replaceSeq (mt : Meta) (assoc : List (Nat × Nat)) (e : String) :
    List V → Data → Bool → R (List V × Bool)
  | [], _, _ => .ok ([], false)
  | p :: ps, d, fb =>
      match dotsKeyOf e p with
      | some k =>
          if !runFits e (((assocLook assoc k).bind d.lookDots).getD []) then
            .error (.err s!"cannot reproduce elided values in a list of {e}")
          else
            (replaceSeq mt assoc e ps d ((assocLook assoc k).bind d.lookDots).isSome).bind (fun r =>
              .ok ((((assocLook assoc k).bind d.lookDots).getD []) ++ r.1, true))
      | none =>
          (replaceV mt assoc p d fb).bind (fun x =>
            if !fits x p then .error (.err s!"cannot use {x.tyOf} as {p.tyOf}")
            else (replaceSeq mt assoc e ps d fb).bind (fun r => .ok (x :: r.1, r.2)))
def replaceNth (mt : Meta) (assoc : List (Nat × Nat)) : List V → Nat → Data → Bool → R V
  | [], _, _, _ => .error (.err "no such field")
  | p :: _, 0, d, fb => replaceV mt assoc p d fb
  | _ :: ps, i+1, d, fb => replaceNth mt assoc ps i d fb
end

end Gopatch
