/-
  Generated.lean — model of main.go:checkGeneratedCode = ast.IsGenerated ∨
  "@generated" in the package doc comment, over the comment structure that
  go/parser hands over (comment groups before the package clause).
-/
namespace Gopatch

/-- one comment: its text as in `ast.Comment.Text` (including the `//` or `/*` marker) and
whether it ends before the package clause -/
structure Cmt where
  text : String
  beforePackage : Bool
  deriving Repr, Inhabited

def genPrefix : String := "// Code generated "
def genSuffix : String := " DO NOT EDIT."

/-- split at newlines -/
def splitLines : List Char → List (List Char)
  | [] => [[]]
  | c :: cs =>
      match splitLines cs with
      | [] => [[c]]
      | l :: ls => if c == '\n' then [] :: l :: ls else (c :: l) :: ls

/-- the marker test of `ast.generator` on one line of a comment's text -/
def isGenLineL (cs : List Char) : Bool :=
  genPrefix.toList.isPrefixOf cs && genSuffix.toList.isSuffixOf cs &&
    decide (genPrefix.toList.length + genSuffix.toList.length ≤ cs.length)

def isGenLine (text : String) : Bool := isGenLineL text.toList

/-- some line of the comment text is the marker -/
def hasGenLine (text : String) : Bool := (splitLines text.toList).any isGenLineL

/-- `ast.IsGenerated`: some comment that starts before the package clause has a marker line -/
def astIsGenerated (groups : List (List Cmt)) : Bool :=
  groups.any (fun g => g.any (fun c => c.beforePackage && hasGenLine c.text))

def hasInfix (sub : List Char) : List Char → Bool
  | [] => sub.isEmpty
  | c :: cs => sub.isPrefixOf (c :: cs) || hasInfix sub cs

def containsSub (s sub : String) : Bool := hasInfix sub.toList s.toList

/-- `checkGeneratedCode` -/
def checkGenerated (groups : List (List Cmt)) (doc : Option (List Cmt)) : Bool :=
  astIsGenerated groups ||
    (match doc with
     | none => false
     | some cs => cs.any (fun c => containsSub c.text "@generated"))

end Gopatch
