/-
  Section.lean — model of internal/parse/section (Split) over raw bytes, with
  byte offsets, and of token.File.Position for a file whose line table was set
  from its content.  Unicode-aware pieces of the Go code (unicode.IsSpace,
  unicode.IsLetter) are modelled for ASCII input; the correspondence generator
  stays within ASCII for the header and comment syntax.
-/
namespace Gopatch.Sec

abbrev Bytes := List UInt8

def nl : UInt8 := 10
def hash : UInt8 := 35
def atB : UInt8 := 64

def isSpaceB (b : UInt8) : Bool := b == 32 || (9 ≤ b && b ≤ 13)

def isLetterB (b : UInt8) : Bool := (65 ≤ b && b ≤ 90) || (97 ≤ b && b ≤ 122)
def isDigitB (b : UInt8) : Bool := 48 ≤ b && b ≤ 57

/-- offsets at which a line starts according to `token.File.SetLinesForContent`: 0 and every
offset after a newline that still has a byte (a trailing newline opens no further line) -/
def lineStartsFrom : Nat → Bytes → List Nat
  | _, [] => []
  | i, b :: bs => if b == nl && !bs.isEmpty then (i + 1) :: lineStartsFrom (i + 1) bs else lineStartsFrom (i + 1) bs

def lineStarts (content : Bytes) : List Nat := 0 :: lineStartsFrom 0 content

/-- (line, column), both 1-based, of a byte offset: `token.File.Position` after
`SetLinesForContent` -/
def position (content : Bytes) (off : Nat) : Nat × Nat :=
  let before := (lineStarts content).filter (· ≤ off)
  (before.length, off - before.getLast?.getD 0 + 1)

structure Line where
  off : Nat
  text : Bytes
  deriving Repr, Inhabited, DecidableEq

/-- split the content into lines (without the newline), each with its start offset -/
def linesFrom : Nat → Bytes → Bytes → List Line
  | off, acc, [] => [⟨off - acc.length, acc.reverse⟩]
  | off, acc, b :: bs =>
      if b == nl then ⟨off - acc.length, acc.reverse⟩ :: linesFrom (off + 1) [] bs
      else linesFrom (off + 1) (b :: acc) bs

/-- The raw lines that `programSplitter.next` walks over. A trailing newline does not open
another line (the loop stops when offset reaches len(content)). -/
def rawLines (content : Bytes) : List Line :=
  let ls := linesFrom 0 [] content
  match content.getLast? with
  | some b => if b == nl then ls.dropLast else ls
  | none => []

def trimLeft (s : Bytes) : Bytes := s.dropWhile isSpaceB
def trimSpace (s : Bytes) : Bytes := ((trimLeft s).reverse.dropWhile isSpaceB).reverse

def isComment (s : Bytes) : Bool :=
  match trimLeft s with
  | b :: _ => b == hash
  | [] => false

/-- the text recorded for a comment line: `bytes.TrimSpace(text[1:])` -/
def commentText (s : Bytes) : Bytes := trimSpace (s.drop 1)

inductive ErrKind where
  | badName (ch : UInt8)
  | badHeader
  | eofMeta
  | noChange
  deriving Repr, DecidableEq, Inhabited

structure Err where
  off : Nat
  kind : ErrKind
  deriving Repr, DecidableEq, Inhabited

structure Change where
  headerOff : Option Nat          -- none: NoPos (EOF)
  name : Bytes
  metaL : List Line
  atOff : Option Nat
  patch : List Line
  comments : List Bytes
  deriving Repr, Inhabited

/-- Unicode classification of the runes outside ASCII (`unicode.IsLetter`, `unicode.IsDigit`): a parameter of the
model, supplied by the harness from Go's tables for the runes that occur in the input. -/
structure Uni where
  letter : Nat → Bool
  digit : Nat → Bool

def Uni.ascii : Uni := { letter := fun _ => false, digit := fun _ => false }

def isCont (b : UInt8) : Bool := 128 ≤ b && b < 192

/-- the rune that starts at the head of the bytes, as `for i, ch := range s` decodes it: (code point, width);
an invalid or truncated sequence is U+FFFD of width 1 -/
def decodeRune : Bytes → Nat × Nat
  | [] => (0, 0)
  | b :: rest =>
      if b < 128 then (b.toNat, 1)
      else if 192 ≤ b && b < 224 then
        (match rest with
         | c1 :: _ => if isCont c1 then ((b.toNat - 192) * 64 + (c1.toNat - 128), 2) else (65533, 1)
         | _ => (65533, 1))
      else if 224 ≤ b && b < 240 then
        (match rest with
         | c1 :: c2 :: _ => if isCont c1 && isCont c2 then ((b.toNat - 224) * 4096 + (c1.toNat - 128) * 64 + (c2.toNat - 128), 3) else (65533, 1)
         | _ => (65533, 1))
      else if 240 ≤ b && b < 248 then
        (match rest with
         | c1 :: c2 :: c3 :: _ =>
             if isCont c1 && isCont c2 && isCont c3 then
               ((b.toNat - 240) * 262144 + (c1.toNat - 128) * 4096 + (c2.toNat - 128) * 64 + (c3.toNat - 128), 4)
             else (65533, 1)
         | _ => (65533, 1))
      else (65533, 1)

/-- may the rune `cp` stand at byte index `i` of a change name? -/
def validRune (u : Uni) (i : Nat) (cp : Nat) : Bool :=
  if cp < 128 then isLetterB cp.toUInt8 || cp == 95 || (i > 0 && isDigitB cp.toUInt8)
  else u.letter cp || (i > 0 && u.digit cp)

/-- `validateChangeName`: byte index and first byte of the first rune that may not stand in a change name
(`fuel` = number of bytes suffices) -/
def validateName (u : Uni) : Nat → Nat → Bytes → Option (Nat × UInt8)
  | 0, _, _ => none
  | _, _, [] => none
  | fuel + 1, i, b :: bs =>
      let r := decodeRune (b :: bs)
      if validRune u i r.1 then validateName u fuel (i + r.2) ((b :: bs).drop r.2)
      else some (i, b)

/-- non-comment lines paired with the comment run directly above each of them -/
def attachComments : List Line → List Bytes → List (Line × List Bytes)
  | [], _ => []
  | l :: ls, acc =>
      if isComment l.text then attachComments ls (acc ++ [commentText l.text])
      else (l, acc) :: attachComments ls []

/-- `readName`: the name, or an error -/
def readName (u : Uni) (l : Line) : Bytes × Option Err :=
  let t := l.text
  if t == [atB, atB] then ([], none)
  else if t.length > 2 && t.head? == some atB && t.getLast? == some atB then
    let inner := (t.drop 1).dropLast
    let lead := (inner.takeWhile isSpaceB).length
    let allSpace := lead == inner.length
    let shift := if allSpace then 1 else 1 + lead
    let name := if allSpace then [] else ((inner.drop lead).reverse.dropWhile isSpaceB).reverse
    match validateName u name.length 0 name with
    | none => (name, none)
    | some (i, ch) => ([], some ⟨l.off + shift + i, .badName ch⟩)
  else ([], some ⟨l.off, .badHeader⟩)

def isAtAt (t : Bytes) : Bool := t == [atB, atB]

/-- meta lines up to the closing "@@": (meta, rest after the "@@" line, the "@@" line) -/
def readMeta : List (Line × List Bytes) → List Line → Option (List Line × Line × List (Line × List Bytes))
  | [], _ => none
  | (l, _) :: rest, acc => if isAtAt l.text then some (acc.reverse, l, rest) else readMeta rest (l :: acc)

def readPatch : List (Line × List Bytes) → List Line → List Line × List (Line × List Bytes)
  | [], acc => (acc.reverse, [])
  | (l, c) :: rest, acc =>
      if l.text.head? == some atB then (acc.reverse, (l, c) :: rest) else readPatch rest (l :: acc)

/-- `readProgram` with explicit fuel (the number of lines suffices: every change consumes at
least its header line) -/
def readProgram (u : Uni) (eofOff : Nat) : Nat → List (Line × List Bytes) → List Change × List Err
  | 0, _ => ([], [])
  | _, [] => ([], [])
  | fuel + 1, (h, cs) :: rest =>
      let (name, e1) := readName u h
      match readMeta rest [] with
      | none =>
          -- EOF inside the metavariable section: Meta = nil, AtPos = NoPos, Patch empty
          ([{ headerOff := some h.off, name := name, metaL := [], atOff := none, patch := [], comments := cs }],
           e1.toList ++ [⟨eofOff, .eofMeta⟩])
      | some (m, atl, rest') =>
          let (p, rest'') := readPatch rest' []
          let (chs, es) := readProgram u eofOff fuel rest''
          ({ headerOff := some h.off, name := name, metaL := m, atOff := some atl.off, patch := p, comments := cs } :: chs,
           e1.toList ++ es)

def split (u : Uni) (content : Bytes) : List Change × List Err :=
  let ls := attachComments (rawLines content) []
  let (chs, es) := readProgram u content.length (ls.length + 1) ls
  if chs.isEmpty then (chs, es ++ [⟨content.length, .noChange⟩]) else (chs, es)

end Gopatch.Sec
