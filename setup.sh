#!/bin/sh
# Builds everything the checks need from files on disk only (no network).
set -e
cd "$(dirname "$0")"
export GOFLAGS=-mod=mod GOPROXY=off GOSUMDB=off GOTOOLCHAIN=local
mkdir -p .build evidence
(cd lean && lake build GopatchModel modeldriver)
(cd lean && lake build $(ls GopatchModel/Props/*.lean | sed 's#/#.#g; s#\.lean$##'))
python3 - <<'PY'
import sys, os
sys.path.insert(0, os.path.join(os.getcwd(), "lib"))
import common
common.build_go()
print("setup ok")
PY
