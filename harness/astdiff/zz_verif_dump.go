//go:build verif

package astdiff

import (
	"fmt"
	"go/token"
	"reflect"
	"strconv"
	"strings"
	"sync"

	"github.com/uber-go/gopatch/internal/goast"
)

// VerifDump writes the snapshot value as an S-expression for the model
// driver (injected with -overlay by /verif; not part of the repository).
func (s *Snapshot) VerifDump(sb *strings.Builder) { verifDumpValue(sb, s.value) }

// the objects that non-nil pointers point to, numbered in the order the dumps meet them: the same number in two
// snapshots means one and the same AST node object (the field is read by name, so that a tree without it still builds)
var (
	verifAddrMu  sync.Mutex
	verifAddrIDs = map[uint64]int{}
)

func verifObjectID(v *value) string {
	f := reflect.ValueOf(v).Elem().FieldByName("addr")
	if !f.IsValid() || !f.CanUint() || f.Uint() == 0 {
		return ""
	}
	verifAddrMu.Lock()
	defer verifAddrMu.Unlock()
	id, ok := verifAddrIDs[f.Uint()]
	if !ok {
		id = len(verifAddrIDs) + 1
		verifAddrIDs[f.Uint()] = id
	}
	return "@" + strconv.Itoa(id)
}

func verifDumpValue(sb *strings.Builder, v *value) {
	kind := 4
	switch v.t.Kind() {
	case reflect.Ptr:
		kind = 0
	case reflect.Interface:
		kind = 1
	case reflect.Slice:
		kind = 2
	case reflect.Struct:
		kind = 3
	}
	elemNode := 0
	if kind == 2 && v.t.Elem().Implements(goast.NodeType) {
		elemNode = 1
	}
	pos, end := int(v.pos), int(v.end)
	payload := ""
	if v.t == goast.PosType {
		if p, ok := v.value.(token.Pos); ok {
			pos, end = int(p), int(p)
		}
	} else if kind == 4 && !v.isNil {
		payload = fmt.Sprintf("%v", v.value)
	} else if kind == 0 && !v.isNil {
		payload = verifObjectID(v)
	}
	b2i := func(b bool) int {
		if b {
			return 1
		}
		return 0
	}
	sb.WriteString("(v ")
	sb.WriteString(strconv.Quote(v.t.String()))
	fmt.Fprintf(sb, " %d %d %d %d (", kind, b2i(v.IsNode), pos, end)
	for i, cg := range v.Comments {
		if i > 0 {
			sb.WriteByte(' ')
		}
		sb.WriteString("(")
		if cg != nil {
			for j, c := range cg.List {
				if j > 0 {
					sb.WriteByte(' ')
				}
				fmt.Fprintf(sb, "%d %d", int(c.Pos()), int(c.End()))
			}
		}
		sb.WriteString(")")
	}
	fmt.Fprintf(sb, ") %d %s %d", b2i(v.isNil), strconv.Quote(payload), elemNode)
	if v.Elem != nil {
		sb.WriteByte(' ')
		verifDumpValue(sb, v.Elem)
	}
	for _, c := range v.Children {
		sb.WriteByte(' ')
		verifDumpValue(sb, c)
	}
	sb.WriteString(")")
}
