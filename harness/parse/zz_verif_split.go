//go:build verif

package parse

import "github.com/uber-go/gopatch/internal/parse/section"

// VerifSplitPatch exposes splitPatch to the harness of /verif (injected with
// -overlay; not part of the repository): the two versions of a change's body
// with the LinePos entries of their lines.
func VerifSplitPatch(s section.Section) (minus []byte, minusLines []section.LinePos, plus []byte, plusLines []section.LinePos) {
	b, a := splitPatch(s)
	return b.Contents, b.Lines, a.Contents, a.Lines
}
