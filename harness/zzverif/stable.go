//go:build verif

package main

import (
	"bufio"
	"bytes"
	"fmt"
	"go/ast"
	"go/format"
	"go/parser"
	"go/token"
	"os"

	"github.com/uber-go/gopatch/internal/engine"
	"github.com/uber-go/gopatch/internal/parse"
)

// stableUnderPrint reports whether the tree is a fixed point of print + re-parse:
// printing it and parsing the text gives the same canonical tree (parentheses
// included, positions and comments excluded).
func stableUnderPrint(fset *token.FileSet, f *ast.File) (ok bool) {
	defer func() {
		if recover() != nil {
			ok = false
		}
	}()
	var buf bytes.Buffer
	if err := format.Node(&buf, fset, f); err != nil {
		return false
	}
	g, err := parser.ParseFile(token.NewFileSet(), "a.go", buf.Bytes(), parser.AllErrors|parser.ParseComments)
	if err != nil {
		return false
	}
	return canonFile(f) == canonFile(g)
}

// runStable: for every case, applies the changes of its chain one after the other
// on one tree (as a combined run does) and prints, per case, "1" when the source
// tree and every intermediate tree is stable under print + re-parse, "0" when one
// is not (then a chain of separate runs legitimately sees different syntax), "?"
// when the chain cannot be run here.
func runStable(cases []Case) {
	w := bufio.NewWriter(os.Stdout)
	defer w.Flush()
	for _, c := range cases {
		fmt.Fprintln(w, stableCase(c))
	}
}

func stableCase(c Case) (res string) {
	defer func() {
		if recover() != nil {
			res = "?"
		}
	}()
	fset := token.NewFileSet()
	var changes []*engine.Change
	texts := c.Chain
	if len(texts) == 0 {
		texts = c.Patches
	}
	for i, p := range texts {
		prog, err := parse.Parse(fset, fmt.Sprintf("p%d.patch", i), []byte(p))
		if err != nil {
			return "?"
		}
		eprog, err := engine.Compile(fset, prog)
		if err != nil {
			return "?"
		}
		changes = append(changes, eprog.Changes...)
	}
	f, err := parser.ParseFile(fset, "a.go", c.Src, parser.AllErrors|parser.ParseComments)
	if err != nil {
		return "?"
	}
	if !stableUnderPrint(fset, f) {
		return "0"
	}
	for k, ch := range changes {
		d, ok := ch.Match(f)
		if !ok {
			continue
		}
		fout, err := ch.Replace(d, engine.NewChangelog())
		if err != nil {
			return "?"
		}
		f = fout
		if k < len(changes)-1 && !stableUnderPrint(fset, f) {
			return "0"
		}
	}
	return "1"
}
