//go:build verif

package main

import (
	"bufio"
	"encoding/json"
	"fmt"
	"os"
	"time"

	"github.com/uber-go/gopatch/patch"
)

type seqCase struct {
	ID    string   `json:"id"`
	Patch string   `json:"patch"`
	Srcs  []string `json:"srcs"`
}

type seqStep struct {
	Out   string `json:"out"`
	Err   string `json:"err,omitempty"`
	Panic string `json:"panic,omitempty"`
}

type seqOut struct {
	ID       string    `json:"id"`
	ParseErr string    `json:"parse_err,omitempty"`
	Shared   []seqStep `json:"shared"` // one parsed patch for the whole sequence (each source applied twice in a row)
	Fresh    []seqStep `json:"fresh"`  // a newly parsed patch for every call
	Hang     bool      `json:"hang,omitempty"`
}

// runAPISeq applies one parsed patch to a sequence of sources (succeeding, failing, not matching, repeated) and, for
// comparison, a freshly parsed patch to each of them: a call's result must not depend on the calls before it.
func runAPISeq(path string) {
	fh, err := os.Open(path)
	if err != nil {
		fmt.Fprintln(os.Stderr, err)
		os.Exit(2)
	}
	defer fh.Close()
	w := bufio.NewWriter(os.Stdout)
	defer w.Flush()
	sc := bufio.NewScanner(fh)
	sc.Buffer(make([]byte, 1<<20), 1<<26)
	for sc.Scan() {
		var c seqCase
		if json.Unmarshal(sc.Bytes(), &c) != nil {
			continue
		}
		o := seqOut{ID: c.ID}
		done := make(chan seqOut, 1)
		go func() {
			o := o
			step := func(f *patch.File, name string, src string) seqStep {
				out, e, p := applyOnce(f, name, []byte(src))
				return seqStep{Out: out, Err: e, Panic: p}
			}
			f, err := patch.Parse("p.patch", []byte(c.Patch))
			if err != nil {
				o.ParseErr = err.Error()
				done <- o
				return
			}
			for k, s := range c.Srcs {
				name := fmt.Sprintf("s%d.go", k)
				o.Shared = append(o.Shared, step(f, name, s), step(f, name, s))
				ff, err := patch.Parse("p.patch", []byte(c.Patch))
				if err != nil {
					o.Fresh = append(o.Fresh, seqStep{Err: "parse: " + err.Error()})
					continue
				}
				o.Fresh = append(o.Fresh, step(ff, name, s))
			}
			done <- o
		}()
		select {
		case o = <-done:
		case <-time.After(10 * time.Second):
			o.Hang = true
		}
		bs, _ := json.Marshal(o)
		w.Write(bs)
		w.WriteByte('\n')
		w.Flush()
	}
}
