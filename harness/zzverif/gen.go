//go:build verif

package main

import (
	"regexp"
	"fmt"
	"go/ast"
	"go/parser"
	"go/scanner"
	"go/token"
	"math/rand"
	"sort"
	"strings"
)

// ---------------------------------------------------------------------------
// Random Go text

type gen struct {
	r    *rand.Rand
	mode string
}

func (g *gen) pick(xs ...string) string { return xs[g.r.Intn(len(xs))] }
func (g *gen) chance(p float64) bool    { return g.r.Float64() < p }

var (
	// a few names outside ASCII: positions count bytes, names are compared as strings
	varNames  = []string{"a", "b", "c", "d", "n", "s", "v", "w", "err", "ctx", "größe", "a", "b", "v"}
	funcNames = []string{"foo", "bar", "baz", "qux", "f", "g", "h", "zähle"}
	pkgNames  = []string{"fmt", "strings", "os", "pkg"}
	selNames  = []string{"Println", "Sprintf", "Do", "Get", "Name", "Len", "Close"}
	typeNames = []string{"int", "string", "T", "error", "bool", "byte", "any", "interface{}"}
	binOps    = []string{"+", "-", "*", "/", "==", "!=", "<", ">", "&&", "||", "%", "<<", "&"}
)

func (g *gen) ident() string { return g.pick(varNames...) }

func (g *gen) typ(depth int) string {
	if depth <= 0 {
		return g.pick(typeNames...)
	}
	switch g.r.Intn(12) {
	case 0:
		return "*" + g.typ(depth-1)
	case 1:
		return "[]" + g.typ(depth-1)
	case 2:
		return "map[" + g.pick("string", "int") + "]" + g.typ(depth-1)
	case 3:
		return g.pick("chan ", "<-chan ", "chan<- ") + g.typ(depth-1)
	case 4:
		return "func(" + g.typ(depth-1) + ") " + g.typ(depth-1)
	case 5:
		return g.pick(pkgNames...) + "." + g.pick("Type", "Reader", "Context")
	case 6:
		return "[4]" + g.typ(depth-1)
	case 7:
		return "struct{ X " + g.typ(depth-1) + " }"
	case 8:
		return "interface{ M() " + g.typ(depth-1) + " }"
	case 9:
		return "G[" + g.typ(depth-1) + "]"
	default:
		return g.pick(typeNames...)
	}
}

func (g *gen) lit() string {
	switch g.r.Intn(6) {
	case 0:
		return fmt.Sprint(g.r.Intn(10))
	case 1:
		return fmt.Sprintf("%q", g.pick("x", "hello", "a b", "%d", "", "héllo", "日本"))
	case 2:
		// incl. quote characters inside literals of another kind and the comment marker of the patch language
		return g.pick("1.5", "0x1f", "'c'", "`raw`", "1e3", "\"`\"", "'`'", "\"#\"", "`\"`", "'\"'", "\"'\"", "\"//\"", "`#`")
	case 3:
		return g.pick("true", "false", "nil")
	default:
		return fmt.Sprint(g.r.Intn(100))
	}
}

func (g *gen) args(depth, max int) string {
	n := g.r.Intn(max + 1)
	var xs []string
	for i := 0; i < n; i++ {
		xs = append(xs, g.expr(depth))
	}
	s := strings.Join(xs, ", ")
	if n > 0 && g.chance(0.08) {
		s += "..."
	}
	return s
}

func (g *gen) expr(depth int) string {
	if depth <= 0 {
		if g.chance(0.6) {
			return g.ident()
		}
		return g.lit()
	}
	d := depth - 1
	switch g.r.Intn(22) {
	case 0, 1:
		return g.ident()
	case 2:
		return g.lit()
	case 3, 4:
		return g.expr(d) + " " + g.pick(binOps...) + " " + g.expr(d)
	case 5, 6, 7:
		return g.pick(funcNames...) + "(" + g.args(d, 3) + ")"
	case 8:
		return g.pick(pkgNames...) + "." + g.pick(selNames...) + "(" + g.args(d, 3) + ")"
	case 9:
		return g.ident() + "." + g.pick(selNames...)
	case 10:
		return g.ident() + "[" + g.expr(d) + "]"
	case 11:
		return g.ident() + "[" + g.expr(0) + ":" + g.expr(0) + "]"
	case 12:
		return g.pick("-", "!", "&", "*", "<-", "^") + g.ident()
	case 13:
		return "(" + g.expr(d) + ")"
	case 14:
		return g.pick("T", "pkg.T", "[]int", "map[string]int") + "{" + g.elts(d) + "}"
	case 15:
		return "func(" + g.ident() + " " + g.typ(1) + ") " + g.typ(0) + " { return " + g.expr(d) + " }"
	case 16:
		return g.ident() + ".(" + g.typ(1) + ")"
	case 17:
		return g.expr(d) + "." + g.pick(selNames...) + "(" + g.args(d, 2) + ")"
	case 18:
		t := g.typ(1)
		if strings.HasPrefix(t, "func") {
			t = "(" + t + ")" // go/printer writes the parentheses anyway
		}
		return t + "(" + g.expr(d) + ")"
	case 19:
		return "G[" + g.typ(0) + "](" + g.args(d, 2) + ")"
	case 20:
		return "&" + g.pick("T", "pkg.T") + "{" + g.elts(d) + "}"
	default:
		return g.pick(funcNames...) + "(" + g.args(d, 4) + ")"
	}
}

func (g *gen) elts(depth int) string {
	n := g.r.Intn(4)
	var xs []string
	kv := g.chance(0.4)
	for i := 0; i < n; i++ {
		if kv {
			xs = append(xs, g.pick("A", "B", "C", `"k"`)+": "+g.expr(depth))
		} else {
			xs = append(xs, g.expr(depth))
		}
	}
	return strings.Join(xs, ", ")
}

func indent(s, pre string) string {
	lines := strings.Split(strings.TrimRight(s, "\n"), "\n")
	for i := range lines {
		if lines[i] != "" {
			lines[i] = pre + lines[i]
		}
	}
	return strings.Join(lines, "\n") + "\n"
}

func (g *gen) block(depth, max int) string {
	n := g.r.Intn(max + 1)
	var sb strings.Builder
	for i := 0; i < n; i++ {
		sb.WriteString(g.stmt(depth))
	}
	return sb.String()
}

// stmt returns one statement, newline-terminated, possibly spanning lines.
func (g *gen) stmt(depth int) string {
	d := depth - 1
	if depth <= 0 {
		switch g.r.Intn(7) {
		case 6:
			// statements that begin with a token which can also begin a type: after a "..." line they must not turn
			// the elision into a variadic parameter
			return g.pick("<-done\n", "*p = "+g.expr(0)+"\n", "func() { use("+g.ident()+") }()\n", "[]int{1, 2}[0]++\n",
				"map[string]int{}[\"k\"]++\n", "(*p).x++\n", "<-time.After(1)\n")
		case 0:
			return g.ident() + " := " + g.expr(1) + "\n"
		case 1:
			return g.ident() + " = " + g.expr(1) + "\n"
		case 2:
			return g.pick(funcNames...) + "(" + g.args(1, 3) + ")\n"
		case 3:
			return "return " + g.expr(1) + "\n"
		case 4:
			return g.ident() + g.pick("++", "--") + "\n"
		default:
			return g.pick(pkgNames...) + "." + g.pick(selNames...) + "(" + g.args(1, 2) + ")\n"
		}
	}
	switch g.r.Intn(26) {
	case 0, 1:
		return g.ident() + " := " + g.expr(2) + "\n"
	case 2:
		return g.ident() + ", " + g.ident() + " := " + g.expr(1) + ", " + g.expr(1) + "\n"
	case 3:
		return g.ident() + " " + g.pick("=", "+=", "-=", "|=") + " " + g.expr(2) + "\n"
	case 4, 5:
		return g.pick(funcNames...) + "(" + g.args(2, 3) + ")\n"
	case 6:
		s := "if " + g.expr(1) + " {\n" + indent(g.block(d, 2), "\t") + "}"
		if g.chance(0.4) {
			s += " else {\n" + indent(g.block(d, 2), "\t") + "}"
		}
		return s + "\n"
	case 7:
		return "if " + g.ident() + " := " + g.expr(1) + "; " + g.ident() + " != nil {\n" + indent(g.block(d, 2), "\t") + "}\n"
	case 8:
		return "for i := 0; i < " + g.expr(0) + "; i++ {\n" + indent(g.block(d, 2), "\t") + "}\n"
	case 9:
		return "for " + g.expr(1) + " {\n" + indent(g.block(d, 2), "\t") + "}\n"
	case 10:
		return "for {\n" + indent(g.block(d, 2)+g.pick("break\n", "continue\n", ""), "\t") + "}\n"
	case 11:
		return "for " + g.pick("k, v", "_, v", "k", "i") + " := range " + g.expr(1) + " {\n" + indent(g.block(d, 2), "\t") + "}\n"
	case 12:
		return "for range " + g.ident() + " {\n" + indent(g.block(d, 1), "\t") + "}\n"
	case 13:
		s := "switch " + g.pick(g.ident(), "", "x := "+g.expr(1)+"; x") + " {\n"
		for i, n := 0, 1+g.r.Intn(2); i < n; i++ {
			s += "case " + g.expr(1) + ":\n" + indent(g.block(d, 2), "\t")
		}
		if g.chance(0.5) {
			s += "default:\n" + indent(g.block(d, 1), "\t")
		}
		return s + "}\n"
	case 14:
		s := "select {\n"
		s += "case " + g.pick("v := <-ch", "<-done", "ch <- "+g.expr(0)) + ":\n" + indent(g.block(d, 2), "\t")
		if g.chance(0.5) {
			s += "default:\n" + indent(g.block(d, 1), "\t")
		}
		return s + "}\n"
	case 15:
		return "return " + g.args(1, 2) + "\n"
	case 16:
		return g.pick("defer ", "go ") + g.pick(funcNames...) + "(" + g.args(1, 2) + ")\n"
	case 17:
		return g.pick("defer ", "go ") + "func() {\n" + indent(g.block(d, 2), "\t") + "}()\n"
	case 18:
		return g.ident() + g.pick("++", "--") + "\n"
	case 19:
		return "{\n" + indent(g.block(d, 2), "\t") + "}\n"
	case 20:
		return "var " + g.ident() + " " + g.typ(1) + g.pick("", " = "+g.expr(1)) + "\n"
	case 21:
		return g.pick("const c = 1\n", "type L struct{ X int }\n", "var (\n\tp = 1\n\tq = 2\n)\n", "type A = int\n")
	case 22:
		return "ch <- " + g.expr(1) + "\n"
	case 23:
		return "L" + fmt.Sprint(g.r.Intn(3)) + ":\n\tfor {\n\t\t" + g.pick("break", "continue") + " L0\n\t}\n"
	case 24:
		return "switch v := " + g.ident() + ".(type) {\ncase int:\n\t_ = v\ncase " + g.typ(1) + ":\n" + indent(g.block(d, 1), "\t") + "}\n"
	default:
		return g.pick(pkgNames...) + "." + g.pick(selNames...) + "(" + g.args(2, 3) + ")\n"
	}
}

func (g *gen) params(max int, named bool) string {
	n := g.r.Intn(max + 1)
	var xs []string
	for i := 0; i < n; i++ {
		t := g.typ(1)
		if i == n-1 && g.chance(0.15) {
			t = "..." + g.pick(typeNames...)
		}
		if named {
			xs = append(xs, fmt.Sprintf("p%d %s", i, t))
		} else {
			xs = append(xs, t)
		}
	}
	return strings.Join(xs, ", ")
}

func (g *gen) funcDecl(name string, bodyDepth int) string {
	s := "func "
	if g.chance(0.3) {
		s += "(" + g.pick("r *T", "r T", "T", "r *G[K]") + ") "
	}
	s += name
	if g.chance(0.12) {
		s += "[K any, V comparable]"
	}
	s += "(" + g.params(3, true) + ")"
	switch g.r.Intn(4) {
	case 0:
		s += " " + g.typ(1)
	case 1:
		if ps := g.params(2, false); strings.Contains(ps, ", ") {
			s += " (" + ps + ")"
		} else if ps != "" {
			s += " " + ps // a single result is written without the redundant parentheses
		}
	case 2:
		s += " (res int, err error)"
	}
	s += " {\n" + indent(g.block(bodyDepth, 4), "\t") + "}\n"
	return s
}

func (g *gen) genDecl() string {
	switch g.r.Intn(9) {
	case 0:
		return "type " + g.pick("A", "B", "Conf") + " struct {\n\tName string `json:\"name\"`\n\t" + g.pick("Age int\n\t", "") + "T\n\t*pkg.Base\n\tX, Y " + g.typ(1) + "\n}\n"
	case 1:
		return "type " + g.pick("I", "J") + " interface {\n\tM(x int) string\n\t" + g.pick("N()\n\t", "") + "fmt.Stringer\n}\n"
	case 2:
		return "type " + g.pick("A", "B") + " = " + g.typ(1) + "\n"
	case 3:
		return "type " + g.pick("A", "B") + " " + g.typ(2) + "\n"
	case 4:
		return "var " + g.ident() + " = " + g.expr(2) + "\n"
	case 5:
		return "var " + g.ident() + ", " + g.ident() + " " + g.typ(1) + "\n"
	case 6:
		return "const (\n\tC0 = iota\n\tC1\n\tC2 = " + g.expr(1) + "\n)\n"
	case 7:
		return "var (\n\tu " + g.typ(1) + "\n\tv = " + g.expr(1) + "\n)\n"
	default:
		return "const " + g.pick("K", "M") + " = " + g.lit() + "\n"
	}
}

// ---------------------------------------------------------------------------
// Fragments, holes and patterns

type fragKind int

const (
	kExpr fragKind = iota
	kStmts
	kFuncDecl
	kGenDecl
)

func (k fragKind) String() string { return [...]string{"expr", "stmts", "funcdecl", "gendecl"}[k] }

// wrap turns a fragment into a parseable file and returns the offset at which
// the fragment starts.
func wrapFrag(k fragKind, frag string) (string, int) {
	switch k {
	case kExpr:
		pre := "package p\n\nvar _ = "
		return pre + frag + "\n", len(pre)
	case kStmts:
		pre := "package p\n\nfunc _() {\n"
		return pre + frag + "}\n", len(pre)
	default:
		pre := "package p\n\n"
		return pre + frag, len(pre)
	}
}

type holeKind int

const (
	hExpr  holeKind = iota // an expression replaced by an expression metavariable
	hIdent                 // an identifier replaced by an identifier metavariable
	hDots                  // a run of list elements replaced by "..."
)

type hole struct {
	kind       holeKind
	start, end int    // byte range in the fragment
	text       string // original text
	list       string // for hDots: "args", "elts", "fields", "stmts", "forhdr"
	sep        string // separator to use when filling a dots run
	name       string // metavariable name (assigned later)
	top        bool   // hDots: a run of the top-level statements of a statement pattern
}

// findHoles parses the fragment and lists the places that can be abstracted.
func findHoles(k fragKind, frag string) ([]hole, bool) {
	src, off := wrapFrag(k, frag)
	fset := token.NewFileSet()
	f, err := parser.ParseFile(fset, "frag.go", src, parser.SkipObjectResolution)
	if err != nil {
		return nil, false
	}
	tf := fset.File(f.Pos())
	rng := func(n ast.Node) (int, int) { return tf.Offset(n.Pos()) - off, tf.Offset(n.End()) - off }
	var holes []hole
	addRun := func(list string, sep string, nodes []ast.Node, lo, hi int) {
		// every run [i,j) of the list, including empty runs, is a candidate;
		// lo/hi is the byte range of the inside of the list.
		for i := 0; i <= len(nodes); i++ {
			for j := i; j <= len(nodes) && j <= i+3; j++ {
				if i == j {
					continue // empty runs are produced by inserting, handled at pick time
				}
				s, _ := rng(nodes[i])
				_, e := rng(nodes[j-1])
				if s < 0 || e > len(frag) {
					continue
				}
				holes = append(holes, hole{kind: hDots, start: s, end: e, text: frag[s:e], list: list, sep: sep})
			}
		}
		_ = lo
		_ = hi
	}
	var root ast.Node
	topDone := false
	ast.Inspect(f, func(n ast.Node) bool {
		if n == nil {
			return false
		}
		s, e := rng(n)
		inside := s >= 0 && e <= len(frag) && s < e
		if inside && root == nil {
			root = n
		}
		switch x := n.(type) {
		case *ast.CallExpr:
			if inside && len(x.Args) > 0 && !x.Ellipsis.IsValid() {
				var ns []ast.Node
				for _, a := range x.Args {
					ns = append(ns, a)
				}
				addRun("args", ", ", ns, 0, 0)
			}
		case *ast.CompositeLit:
			if inside && len(x.Elts) > 0 {
				var ns []ast.Node
				for _, a := range x.Elts {
					ns = append(ns, a)
				}
				addRun("elts", ", ", ns, 0, 0)
			}
		case *ast.FieldList:
			if inside && len(x.List) > 0 && x.Opening.IsValid() {
				var ns []ast.Node
				for _, a := range x.List {
					ns = append(ns, a)
				}
				sep := ", "
				if src[tf.Offset(x.Opening)] == '{' {
					sep = "\n"
				}
				if src[tf.Offset(x.Opening)] != '[' {
					addRun("fields", sep, ns, 0, 0)
				}
			}
		case *ast.BlockStmt:
			if inside && len(x.List) > 0 {
				var ns []ast.Node
				for _, a := range x.List {
					ns = append(ns, a)
				}
				addRun("stmts", "\n", ns, 0, 0)
			} else if k == kStmts && !topDone && s < 0 && len(x.List) >= 2 {
				// the top-level statements of a statement pattern: an explicit "..." line between
				// (or around) the pattern's own statements, never the whole pattern
				topDone = true
				var ns []ast.Node
				for _, a := range x.List {
					ns = append(ns, a)
				}
				before := len(holes)
				addRun("stmts", "\n", ns, 0, 0)
				kept := holes[:before]
				for _, h := range holes[before:] {
					if !(h.start == 0 && h.end >= len(strings.TrimRight(frag, "\n"))) {
						h.top = true
						kept = append(kept, h)
					}
				}
				holes = kept
			}
		case *ast.ForStmt:
			if inside {
				hs := tf.Offset(x.For) - off + len("for ")
				he := tf.Offset(x.Body.Lbrace) - off - 1
				if he > hs {
					holes = append(holes, hole{kind: hDots, start: hs, end: he, text: frag[hs:he], list: "forhdr"})
				}
			}
		case *ast.RangeStmt:
			if inside {
				hs := tf.Offset(x.For) - off + len("for ")
				he := tf.Offset(x.Body.Lbrace) - off - 1
				if he > hs {
					holes = append(holes, hole{kind: hDots, start: hs, end: he, text: frag[hs:he], list: "forhdr"})
				}
			}
		case *ast.Ident:
			if inside && x.Name != "_" {
				holes = append(holes, hole{kind: hIdent, start: s, end: e, text: frag[s:e]})
			}
		}
		if ex, ok := n.(ast.Expr); ok && inside {
			switch ex.(type) {
			case *ast.KeyValueExpr, *ast.Ellipsis:
			default:
				if !(s == 0 && e == len(strings.TrimRight(frag, "\n"))) {
					holes = append(holes, hole{kind: hExpr, start: s, end: e, text: frag[s:e]})
				}
			}
		}
		return true
	})
	return holes, true
}

// pickHoles selects a non-overlapping subset.
func (g *gen) pickHoles(all []hole, max int) []hole {
	g.r.Shuffle(len(all), func(i, j int) { all[i], all[j] = all[j], all[i] })
	var chosen []hole
	want := g.r.Intn(max + 1)
	for _, h := range all {
		if len(chosen) >= want {
			break
		}
		// bias: identifiers are numerous, take them less often
		if h.kind == hIdent && g.chance(0.6) {
			continue
		}
		ok := true
		for _, c := range chosen {
			if h.start < c.end && c.start < h.end {
				ok = false
				break
			}
		}
		if ok {
			chosen = append(chosen, h)
		}
	}
	sort.Slice(chosen, func(i, j int) bool { return chosen[i].start < chosen[j].start })
	return chosen
}

const emptyRun = "\x00EMPTY"

func (g *gen) shareProb() float64 {
	switch g.mode {
	case "c01", "c04":
		return 0
	case "c02", "c09":
		return 0.95
	}
	return 0.8
}

func overlaps(h hole, chosen []hole) bool {
	for _, c := range chosen {
		if h.start < c.end && c.start < h.end {
			return true
		}
	}
	return false
}

// pickHolesMode selects holes according to the generator mode.
func (g *gen) pickHolesMode(all []hole) []hole {
	var chosen []hole
	switch g.mode {
	case "c02":
		// prefer a text that occurs several times: all its occurrences
		// become the same metavariable
		count := map[string][]hole{}
		for _, h := range all {
			if h.kind != hDots {
				k := fmt.Sprint(h.kind) + h.text
				if !overlaps(h, count[k]) {
					count[k] = append(count[k], h)
				}
			}
		}
		var keys []string
		for k, v := range count {
			if len(v) >= 2 {
				keys = append(keys, k)
			}
		}
		sort.Strings(keys)
		if len(keys) > 0 {
			chosen = append(chosen, count[keys[g.r.Intn(len(keys))]]...)
		}
	case "c04":
		var dots []hole
		for _, h := range all {
			if h.kind == hDots {
				dots = append(dots, h)
			}
		}
		g.r.Shuffle(len(dots), func(i, j int) { dots[i], dots[j] = dots[j], dots[i] })
		want := 1 + g.r.Intn(3)
		for _, h := range dots {
			if len(chosen) >= want {
				break
			}
			if !overlaps(h, chosen) {
				chosen = append(chosen, h)
			}
		}
	}
	if g.mode != "c02" && g.chance(0.35) {
		// an explicit "..." line among the top-level statements of a statement pattern
		var tops []hole
		for _, h := range all {
			if h.top && !overlaps(h, chosen) {
				tops = append(tops, h)
			}
		}
		if len(tops) > 0 {
			chosen = append(chosen, tops[g.r.Intn(len(tops))])
		}
	}
	for _, h := range g.pickHoles(all, 3) {
		if !overlaps(h, chosen) {
			chosen = append(chosen, h)
		}
	}
	sort.Slice(chosen, func(i, j int) bool { return chosen[i].start < chosen[j].start })
	return chosen
}

// fill replaces the holes of frag by the given texts. The text emptyRun for a
// dots hole removes the run together with one adjacent separator.
func fill(frag string, holes []hole, texts []string) string {
	var sb strings.Builder
	pos := 0
	for i, h := range holes {
		sb.WriteString(frag[pos:h.start])
		pos = h.end
		if texts[i] == emptyRun {
			if h.sep != "" && strings.HasPrefix(frag[pos:], h.sep) {
				pos += len(h.sep)
			} else if h.sep != "" && strings.HasSuffix(sb.String(), h.sep) {
				t := sb.String()
				sb.Reset()
				sb.WriteString(t[:len(t)-len(h.sep)])
			} else if h.sep == "\n" {
				// a statement / field run that is alone in its block
				t := strings.TrimRight(sb.String(), "\t ")
				sb.Reset()
				sb.WriteString(t)
				pos += len(frag[pos:]) - len(strings.TrimLeft(frag[pos:], "\t "))
				if strings.HasPrefix(frag[pos:], "\n") && strings.HasSuffix(t, "\n") {
					pos++
				}
			}
			continue
		}
		sb.WriteString(texts[i])
	}
	sb.WriteString(frag[pos:])
	return sb.String()
}

func (g *gen) runFor(h hole) string {
	n := g.r.Intn(4)
	if h.top && g.chance(0.4) {
		return emptyRun // the elision stands for nothing: the block may be shorter than the pattern has lines
	}
	var xs []string
	for i := 0; i < n; i++ {
		switch h.list {
		case "args":
			xs = append(xs, g.expr(1))
		case "elts":
			if strings.Contains(h.text, ": ") {
				xs = append(xs, g.pick("A", "B", "D", `"z"`)+": "+g.expr(1))
			} else {
				xs = append(xs, g.expr(1))
			}
		case "fields":
			if h.sep == "\n" {
				xs = append(xs, fmt.Sprintf("F%d %s", g.r.Intn(9), g.typ(1)))
			} else if strings.Contains(h.text, " ") {
				xs = append(xs, fmt.Sprintf("q%d %s", g.r.Intn(9), g.typ(1)))
			} else {
				xs = append(xs, g.typ(1))
			}
		case "stmts":
			xs = append(xs, strings.TrimRight(g.stmt(1), "\n"))
		}
	}
	if h.list == "forhdr" {
		return g.pick("i := 0; i < 10; i++", "_, x := range xs", "cond()", "k := range m", "; n > 0; n--", "range ch")
	}
	if n == 0 {
		if g.chance(0.5) {
			return emptyRun
		}
		return h.text
	}
	if h.sep == "\n" {
		// keep the indentation of the first line of the run
		ind := ""
		return strings.Join(xs, h.sep+ind)
	}
	return strings.Join(xs, h.sep)
}

// tokenMutate changes one token of s outside the protected ranges.
func (g *gen) tokenMutate(s string, protect []hole) (string, bool) {
	fset := token.NewFileSet()
	tf := fset.AddFile("m.go", -1, len(s))
	var sc scanner.Scanner
	sc.Init(tf, []byte(s), nil, 0)
	type tk struct {
		off int
		tok token.Token
		lit string
	}
	var toks []tk
	for {
		p, t, l := sc.Scan()
		if t == token.EOF {
			break
		}
		o := tf.Offset(p)
		prot := false
		for _, h := range protect {
			if o >= h.start && o < h.end {
				prot = true
			}
		}
		if prot || (t == token.SEMICOLON && l == "\n") {
			continue
		}
		toks = append(toks, tk{o, t, l})
	}
	if len(toks) == 0 {
		return s, false
	}
	for try := 0; try < 10; try++ {
		t := toks[g.r.Intn(len(toks))]
		var repl string
		old := t.lit
		if old == "" {
			old = t.tok.String()
		}
		switch {
		case t.tok == token.IDENT:
			repl = old + "Z"
			if g.chance(0.5) {
				repl = g.pick("zz", "other", "foo", "a")
			}
		case t.tok == token.INT:
			repl = old + "7"
		case t.tok == token.STRING:
			repl = `"mut"`
		case t.tok == token.ADD, t.tok == token.SUB, t.tok == token.MUL, t.tok == token.QUO:
			repl = g.pick("+", "-", "*", "/")
		case t.tok == token.EQL, t.tok == token.NEQ, t.tok == token.LSS, t.tok == token.GTR:
			repl = g.pick("==", "!=", "<", ">")
		case t.tok == token.LAND, t.tok == token.LOR:
			repl = g.pick("&&", "||")
		case t.tok == token.DEFINE:
			repl = "="
		case t.tok == token.INC:
			repl = "--"
		case t.tok == token.DEC:
			repl = "++"
		case t.tok == token.DEFER:
			repl = "go"
		case t.tok == token.GO:
			repl = "defer"
		case t.tok == token.BREAK:
			repl = "continue"
		case t.tok == token.CONTINUE:
			repl = "break"
		case t.tok == token.ARROW:
			continue
		default:
			continue
		}
		if repl == old {
			continue
		}
		return s[:t.off] + repl + s[t.off+len(old):], true
	}
	return s, false
}

// lineDiff renders minus/plus texts as a unified-diff style patch body.
func lineDiff(minus, plus string) string {
	a := strings.Split(strings.TrimRight(minus, "\n"), "\n")
	b := strings.Split(strings.TrimRight(plus, "\n"), "\n")
	// LCS table
	n, m := len(a), len(b)
	lcs := make([][]int, n+1)
	for i := range lcs {
		lcs[i] = make([]int, m+1)
	}
	for i := n - 1; i >= 0; i-- {
		for j := m - 1; j >= 0; j-- {
			if a[i] == b[j] {
				lcs[i][j] = lcs[i+1][j+1] + 1
			} else if lcs[i+1][j] >= lcs[i][j+1] {
				lcs[i][j] = lcs[i+1][j]
			} else {
				lcs[i][j] = lcs[i][j+1]
			}
		}
	}
	var sb strings.Builder
	i, j := 0, 0
	for i < n || j < m {
		switch {
		case i < n && j < m && a[i] == b[j]:
			sb.WriteString(" " + a[i] + "\n")
			i++
			j++
		case i < n && (j >= m || lcs[i+1][j] >= lcs[i][j+1]):
			sb.WriteString("-" + a[i] + "\n")
			i++
		default:
			sb.WriteString("+" + b[j] + "\n")
			j++
		}
	}
	return sb.String()
}

type pattern struct {
	kind  fragKind
	frag  string
	holes []hole
	minus string
	plus  string
	meta  string
	// a fixed package/import head for the patch and a declaration to put before or after the instances
	forceHead string
	extraDecl string
}

var identRe = func(s string) bool {
	if s == "" {
		return false
	}
	for i, c := range s {
		if !(c == '_' || c >= 'a' && c <= 'z' || c >= 'A' && c <= 'Z' || i > 0 && c >= '0' && c <= '9') {
			return false
		}
	}
	return true
}

// an elision in an argument or element list (not the variadic "..." after an expression)
var elisionRe = regexp.MustCompile(`(\(|, |\{)\.\.\.(,|\)|\})`)

// derivePlus rewrites the minus text into a plus text.
func (g *gen) derivePlus(p *pattern) string {
	minus := p.minus
	var mvs []string
	for _, h := range p.holes {
		if h.kind != hDots {
			mvs = append(mvs, h.name)
		}
	}
	renameTok := func(s string) string {
		// rename the first plain identifier that is not a metavariable or keyword
		fset := token.NewFileSet()
		tf := fset.AddFile("m.go", -1, len(s))
		var sc scanner.Scanner
		sc.Init(tf, []byte(s), nil, 0)
		var cands [][2]int
		for {
			pos, t, l := sc.Scan()
			if t == token.EOF {
				break
			}
			if t == token.IDENT && !strings.HasPrefix(l, "mv") && !strings.HasPrefix(l, "id") && l != "_" {
				cands = append(cands, [2]int{tf.Offset(pos), len(l)})
			}
		}
		if len(cands) == 0 {
			return s
		}
		c := cands[g.r.Intn(len(cands))]
		return s[:c[0]] + s[c[0]:c[0]+c[1]] + "New" + s[c[0]+c[1]:]
	}
	switch p.kind {
	case kExpr:
		if g.mode == "c03" && len(mvs) > 0 && g.chance(0.12) {
			// the whole replacement is what a metavariable stood for: whether it fits depends on the site
			return mvs[g.r.Intn(len(mvs))] + "\n"
		}
		if g.chance(0.06) {
			// the '+' side differs in a token that the syntax tree records only as a position being valid
			hidden := elisionRe.ReplaceAllString(strings.TrimRight(minus, "\n"), "${1}dts${2}")
			if t, ok := g.posOnlyCopy(hidden); ok {
				return strings.ReplaceAll(t, "dts", "...") + "\n"
			}
		}
		switch g.r.Intn(8) {
		case 0:
			return "wrap(" + strings.TrimRight(minus, "\n") + ")\n"
		case 1:
			if len(mvs) > 0 {
				x := mvs[g.r.Intn(len(mvs))]
				y := mvs[g.r.Intn(len(mvs))]
				return g.pick("newCall("+x+", "+y+")", x+" + "+y, "T2{"+x+"}", "pkg.Fn("+x+")", x+".Method("+y+")", "&"+x, x,
					"("+x+") == nil", "!("+x+")", "(("+x+"))", "("+x+")."+"Field", "keep(("+x+"), ("+y+"))") + "\n"
			}
			return "replaced(1)\n"
		case 2:
			if len(mvs) >= 2 {
				// swap two metavariables
				x, y := mvs[0], mvs[1]
				s := strings.ReplaceAll(minus, x, "\x00")
				s = strings.ReplaceAll(s, y, x)
				return strings.ReplaceAll(s, "\x00", y)
			}
			return renameTok(minus)
		case 3:
			if len(mvs) > 0 {
				x := mvs[g.r.Intn(len(mvs))]
				return strings.Replace(minus, x, "dup("+x+", "+x+")", 1)
			}
			return renameTok(minus)
		case 4:
			if len(mvs) > 0 {
				x := mvs[g.r.Intn(len(mvs))]
				return strings.Replace(minus, x, "0", 1)
			}
			return renameTok(minus)
		default:
			return renameTok(minus)
		}
	case kStmts:
		lines := strings.Split(strings.TrimRight(minus, "\n"), "\n")
		switch g.r.Intn(6) {
		case 0:
			k := g.r.Intn(len(lines) + 1)
			extra := "added(" + strings.Join(mvs, ", ") + ")"
			lines = append(lines[:k], append([]string{extra}, lines[k:]...)...)
			return strings.Join(lines, "\n") + "\n"
		case 1:
			if len(lines) > 1 {
				// delete a simple (single-line) statement line
				for try := 0; try < 5; try++ {
					k := g.r.Intn(len(lines))
					l := strings.TrimSpace(lines[k])
					if l != "..." && !strings.ContainsAny(l, "{}") && !strings.HasSuffix(l, ":") {
						lines = append(lines[:k], lines[k+1:]...)
						return strings.Join(lines, "\n") + "\n"
					}
				}
			}
			return renameTok(minus)
		default:
			return renameTok(minus)
		}
	case kGenDecl:
		// add or remove the parentheses of the declaration (recorded only as positions being valid), possibly with
		// another specification next to the old one
		trim := strings.TrimRight(minus, "\n")
		for _, kw := range []string{"var ", "const ", "type "} {
			if strings.HasPrefix(trim, kw) && !strings.HasPrefix(trim, kw+"(") && g.chance(0.3) {
				extra := ""
				if g.chance(0.5) {
					extra = map[string]string{"var ": "\n\taddedV = 30", "const ": "\n\taddedC = 30", "type ": "\n\taddedT int"}[kw]
				}
				cand := kw + "(\n\t" + strings.ReplaceAll(trim[len(kw):], "\n", "\n\t") + extra + "\n)\n"
				if parses("package p\n" + elisionRe.ReplaceAllString(strings.ReplaceAll(cand, "...", "dts"), "${1}dts${2}")) || parses("package p\n"+cand) {
					return cand
				}
			}
		}
		return renameTok(minus)
	default:
		return renameTok(minus)
	}
}

// makePattern builds a random pattern together with its source fragment.
func (g *gen) makePattern() (*pattern, bool) {
	if g.chance(map[string]float64{"c11": 0.1, "c03": 0.06, "c05": 0.06, "c10": 0.04, "mix": 0.04}[g.mode]) {
		// a bare name replaced by a qualified one from a package the patch imports; the file also declares the name,
		// a place where the replacement does not fit (after or before the places where it does)
		name := g.pick("defaultTimeout", "maxRetries", "oldLimit")
		pkgq := g.pick("config", "settings")
		p := &pattern{kind: kExpr, frag: name + "\n", minus: name + "\n", plus: pkgq + "." + strings.ToUpper(name[:1]) + name[1:] + "\n",
			forceHead: "+import \"example.com/app/" + pkgq + "\"\n\n",
			extraDecl: g.pick("var "+name+" = 30\n", "const "+name+" = 30\n", "func "+name+"() int { return 30 }\n", "var (\n\tother = 1\n\t"+name+" = 30\n)\n")}
		return p, true
	}
	k := fragKind(g.r.Intn(4))
	if g.chance(0.25) {
		k = kExpr
	}
	var frag string
	switch k {
	case kExpr:
		frag = g.expr(2 + g.r.Intn(2))
		if g.mode == "c02" {
			e := g.expr(1)
			if strings.Contains(e, " ") {
				e = "(" + e + ")"
			}
			if g.chance(0.35) {
				// fillers whose variants differ only in a token that the AST records as a position
				e = g.pick("h(a...)", "h(a, b...)", "h(a, b)", "func() { type T = int }", "func() { type T int }",
					"func() { var (q int) }", "func() { var q int }", "make(<-chan int)", "make(chan int)",
					"func(xs ...int) {}", "func(xs []int) {}", "new(func() (int))", "new(func() int)",
					"new(struct{ a, b int })", "new(interface{ M() })", "x.(type2)", "s[1:2:3]", "s[1:2]",
					"f(\"x\")", "f(`raw`, 1)", "g(0x1f)", "h('c', 1e3)", "f(\"a b\")", "k(1.5)")
			}
			frag = g.pick("foo("+e+", "+e+")", e+" == "+e, "g("+e+", h("+e+"))", "T{A: "+e+", B: "+e+"}",
				e+".Do("+e+")", "bar("+e+", 1, "+e+")", "f(func() int { return "+e+" }, "+e+")")
		}
		if identRe(frag) {
			frag = g.pick(funcNames...) + "(" + g.args(2, 3) + ")"
		}
		frag += "\n"
	case kStmts:
		n := 1 + g.r.Intn(3)
		for i := 0; i < n; i++ {
			frag += g.stmt(1 + g.r.Intn(2))
		}
		if g.mode == "c02" {
			v := g.ident()
			frag = v + " := " + g.expr(1) + "\n" + frag + "use(" + v + ")\n"
		}
	case kFuncDecl:
		frag = g.funcDecl(g.pick(funcNames...), 1)
	case kGenDecl:
		frag = g.genDecl()
	}
	var holes []hole
	if multi := g.multiDots(k); multi != nil && g.chance(map[string]float64{"c04": 0.25, "c02": 0.2, "c05": 0.2, "c01": 0.1, "c03": 0.1, "mix": 0.1}[g.mode]) {
		// several "..." in one list with a metavariable bound before one of them and used again
		// after a later one: the shortest run of the first "..." usually has to be given up
		k, frag, holes = multi.kind, multi.frag, multi.holes
	} else {
		all, ok := findHoles(k, frag)
		if !ok {
			return nil, false
		}
		holes = g.pickHolesMode(all)
	}
	p := &pattern{kind: k, frag: frag, holes: holes}
	// name metavariables; identical texts share a name most of the time
	byText := map[string]string{}
	nExpr, nIdent := 0, 0
	var exprNames, identNames []string
	texts := make([]string, len(holes))
	for i := range holes {
		h := &holes[i]
		switch h.kind {
		case hDots:
			texts[i] = "..."
		case hExpr, hIdent:
			if h.name != "" { // preassigned (multiDots): every occurrence is the same metavariable
				if _, seen := byText["pre"+h.name]; !seen {
					byText["pre"+h.name] = h.name
					exprNames = append(exprNames, h.name)
				}
				texts[i] = h.name
				continue
			}
			key := fmt.Sprint(h.kind) + h.text
			if n, ok := byText[key]; ok && g.chance(g.shareProb()) {
				h.name = n
			} else if h.kind == hExpr {
				nExpr++
				h.name = fmt.Sprintf("mv%d", nExpr)
				exprNames = append(exprNames, h.name)
			} else {
				nIdent++
				h.name = fmt.Sprintf("id%d", nIdent)
				identNames = append(identNames, h.name)
			}
			byText[key] = h.name
			texts[i] = h.name
		}
	}
	p.minus = fill(frag, holes, texts)
	if len(exprNames) > 0 {
		p.meta += "var " + strings.Join(exprNames, ", ") + " expression\n"
	}
	if len(identNames) > 0 {
		p.meta += "var " + strings.Join(identNames, ", ") + " identifier\n"
	}
	p.plus = g.derivePlus(p)
	return p, true
}

// multiDots builds a fragment of the shape  f(r1, E, r2, F, r3, E)  (or the statement
// analogue) whose runs r* become "..." and whose two occurrences of E become one metavariable.
func (g *gen) multiDots(k fragKind) *pattern {
	var sb strings.Builder
	var holes []hole
	simple := func() string { return g.pick("1", "2", "a", "b", "x.y", "f()", `"s"`, "nil", "a+b") }
	e := simple()
	add := func(kind holeKind, text, list, sep string, top bool) {
		h := hole{kind: kind, start: sb.Len(), end: sb.Len() + len(text), text: text, list: list, sep: sep, top: top}
		if kind == hExpr && (text == e || text == "open("+e+")") {
			h.name = "mvs"
		}
		holes = append(holes, h)
		sb.WriteString(text)
	}
	f := simple()
	for f == e {
		f = simple()
	}
	nd := 2 + g.r.Intn(2) // two or three elisions
	if k == kStmts {
		v := g.ident()
		sb.WriteString(v + " := ")
		add(hExpr, "open("+e+")", "", "", false)
		sb.WriteString("\n")
		add(hDots, "step1()", "stmts", "\n", true)
		sb.WriteString("\ndefer recover()\n")
		add(hDots, "step2()", "stmts", "\n", true)
		sb.WriteString("\nuse(")
		add(hExpr, "open("+e+")", "", "", false)
		sb.WriteString(")\n")
		return &pattern{kind: kStmts, frag: sb.String(), holes: holes}
	}
	if g.chance(0.3) {
		// a wide pattern: many tokens are recorded before the repeated metavariable comes up again
		n := 20 + g.r.Intn(50)
		sb.WriteString(g.pick(funcNames...) + "(")
		for i := 0; i < n; i++ {
			sb.WriteString(fmt.Sprintf("w%d, ", i))
		}
		add(hExpr, e, "", "", false)
		sb.WriteString(" " + g.pick("-", "+", "==", "*") + " ")
		add(hExpr, e, "", "", false)
		sb.WriteString(")\n")
		return &pattern{kind: kExpr, frag: sb.String(), holes: holes}
	}
	sb.WriteString(g.pick(funcNames...) + "(")
	add(hDots, simple(), "args", ", ", false)
	sb.WriteString(", ")
	add(hExpr, e, "", "", false)
	sb.WriteString(", ")
	add(hDots, simple(), "args", ", ", false)
	if nd == 3 {
		sb.WriteString(", ")
		add(hExpr, f, "", "", false)
		sb.WriteString(", ")
		add(hDots, simple(), "args", ", ", false)
	}
	sb.WriteString(", ")
	add(hExpr, e, "", "", false)
	sb.WriteString(")\n")
	return &pattern{kind: kExpr, frag: sb.String(), holes: holes}
}

// instance fills the pattern's holes with fresh code. With probability
// pInconsistent a repeated metavariable gets different fillers (a near-miss).
func (g *gen) instance(p *pattern, pInconsistent float64) string {
	bind := map[string]string{}
	texts := make([]string, len(p.holes))
	for i, h := range p.holes {
		switch h.kind {
		case hDots:
			texts[i] = g.runFor(h)
		case hExpr:
			if t, ok := bind[h.name]; ok && !g.chance(pInconsistent) {
				texts[i] = t
			} else if ok && g.chance(0.6) {
				// an almost identical filler: one token differs
				texts[i] = g.nearCopy(t)
			} else {
				t := h.text
				if g.chance(0.7) {
					t = g.expr(g.r.Intn(3))
					if g.chance(0.3) {
						t = "(" + t + ")"
					}
				}
				if (g.mode == "c02" || g.mode == "c01") && g.chance(0.3) {
					t = g.pick("f", "pkg.Do", "g") + "(" + g.pick("xs", "a, b", "1", "v, xs") + g.pick("", "", "...") + ")"
				}
				// keep precedence safe
				if strings.ContainsAny(t, " ") && !strings.HasPrefix(t, "(") && !strings.HasPrefix(t, "func") {
					t = "(" + t + ")"
				}
				if _, ok := bind[h.name]; !ok {
					bind[h.name] = t
				}
				texts[i] = t
			}
		case hIdent:
			if t, ok := bind[h.name]; ok && !g.chance(pInconsistent) {
				texts[i] = t
			} else {
				t := h.text
				if g.chance(0.5) {
					t = g.pick("alpha", "beta", "gamma", "a", "foo")
				}
				if (g.mode == "c02" || g.mode == "c01" || g.mode == "mix") && g.chance(0.15) {
					// not a single identifier: where the slot admits an expression this is a near miss
					t = g.pick("pkg.Name", "bytes.Buffer", "a.b.c", "fmt.Println", "(alpha)", "xs[0]", "*p", "f()", "os.Args")
				}
				if _, ok := bind[h.name]; !ok {
					bind[h.name] = t
				}
				texts[i] = t
			}
		}
	}
	return fill(p.frag, p.holes, texts)
}

// instantiateText replaces metavariable names by their fillers and every
// elision by an empty run (handling the separators of the common shapes).
func instantiateText(text string, bind map[string]string) string {
	for _, r := range [][2]string{{"(...)", "()"}, {", ...)", ")"}, {"(..., ", "("}, {", ..., ", ", "}, {"{...}", "{}"}, {", ...}", "}"}, {"{..., ", "{"}} {
		text = strings.ReplaceAll(text, r[0], r[1])
	}
	var lines []string
	for _, l := range strings.Split(text, "\n") {
		if strings.TrimSpace(l) == "..." {
			continue
		}
		lines = append(lines, l)
	}
	text = strings.Join(lines, "\n")
	names := make([]string, 0, len(bind))
	for n := range bind {
		names = append(names, n)
	}
	sort.Slice(names, func(i, j int) bool { return len(names[i]) > len(names[j]) })
	for _, n := range names {
		text = replaceWord(text, n, bind[n])
	}
	return text
}

func replaceWord(s, word, repl string) string {
	var sb strings.Builder
	isW := func(c byte) bool {
		return c == '_' || c >= '0' && c <= '9' || c >= 'a' && c <= 'z' || c >= 'A' && c <= 'Z'
	}
	for i := 0; i < len(s); {
		if strings.HasPrefix(s[i:], word) && (i == 0 || !isW(s[i-1])) && (i+len(word) >= len(s) || !isW(s[i+len(word)])) {
			sb.WriteString(repl)
			i += len(word)
			continue
		}
		sb.WriteByte(s[i])
		i++
	}
	return sb.String()
}

func wrapForParse(k fragKind, frag string) string {
	src, _ := wrapFrag(k, frag)
	return src
}

// structMutate changes the fragment by one structural token: an extra or a
// missing argument, variadic "...", alias "=", channel direction, a label.
func (g *gen) structMutate(t string) string {
	if g.chance(0.3) {
		// the same value spelled differently: equal for the compiler, not syntactically identical
		type re2 struct{ from, to string }
		for _, r := range []re2{{"\"x\"", "`x`"}, {"\"hello\"", "`hello`"}, {"\"a b\"", "\"a\\x20b\""}, {"`raw`", "\"raw\""}, {"\"s\"", "`s`"},
			{"0x1f", "31"}, {"1e3", "1000.0"}, {"'c'", "'\\x63'"}, {"1.5", "1.50"}, {"\"%d\"", "`%d`"}, {"\"\"", "``"},
			{"interface{}", "any"}, {"any)", "interface{})"}, {"[]any", "[]interface{}"}} {
			if strings.Contains(t, r.from) {
				return strings.Replace(t, r.from, r.to, 1)
			}
		}
	}
	type tog struct{ from, to string }
	togs := []tog{{"...)", ")"}, {" = int", " int"}, {"<-chan ", "chan "}, {"chan<- ", "chan "}, {"chan ", "<-chan "},
		{"()", "(extra)"}, {", ", ", extra, "}, {"break L0", "break"}, {"continue L0", "continue"}, {"break\n", "break L0\n"},
		{"[]", "[3]"}, {"*", ""}, {"&", ""}, {":= ", "= "}, {"for range ", "for _ = range "}, {"go ", "defer "}, {" else {", " else if cond {"},
		{"struct{", "struct{ Extra int; "}, {"interface{", "interface{ Extra(); "}, {"case ", "case extra, "}, {"return ", "return extra, "}}
	g.r.Shuffle(len(togs), func(i, j int) { togs[i], togs[j] = togs[j], togs[i] })
	for _, tg := range togs {
		if strings.Contains(t, tg.from) {
			// replace one occurrence chosen at random
			n := strings.Count(t, tg.from)
			k := g.r.Intn(n)
			idx := 0
			for i := 0; i <= k; i++ {
				j := strings.Index(t[idx:], tg.from)
				if i == k {
					return t[:idx+j] + tg.to + t[idx+j+len(tg.from):]
				}
				idx += j + len(tg.from)
			}
		}
	}
	return t
}

// posOnlyCopy returns the expression t with one token added or removed that
// go/ast records only as a position being valid: the "..." of a call.
func (g *gen) posOnlyCopy(t string) (string, bool) {
	e, err := parser.ParseExpr(t)
	if err != nil {
		return "", false
	}
	type edit struct {
		off int
		del int
		ins string
	}
	var cands []edit
	ast.Inspect(e, func(n ast.Node) bool {
		if c, ok := n.(*ast.CallExpr); ok && len(c.Args) > 0 {
			if c.Ellipsis.IsValid() {
				cands = append(cands, edit{int(c.Ellipsis) - 1, 3, ""})
			} else {
				cands = append(cands, edit{int(c.Rparen) - 1, 0, "..."})
			}
		}
		return true
	})
	if len(cands) == 0 {
		return "", false
	}
	c := cands[g.r.Intn(len(cands))]
	if c.off < 0 || c.off+c.del > len(t) {
		return "", false
	}
	out := t[:c.off] + c.ins + t[c.off+c.del:]
	if _, err := parser.ParseExpr(out); err != nil {
		return "", false
	}
	return out, true
}

// nearCopy returns code that differs from t in a single token, preferring the
// tokens go/ast represents only by the validity of a position.
func (g *gen) nearCopy(t string) string {
	if g.chance(0.12) && parses("package p\nvar _ = ("+t+")") {
		// the same expression in redundant parentheses: not the same syntax
		return "(" + t + ")"
	}
	if g.chance(0.25) {
		if m := g.structMutate(t); m != t && parses("package p\nvar _ = "+m) {
			return m
		}
	}
	if g.chance(0.6) {
		if m, ok := g.posOnlyCopy(t); ok {
			return m
		}
	}
	type tog struct{ from, to string }
	togs := []tog{{"...)", ")"}, {"type T = int", "type T int"}, {"type T int", "type T = int"}, {"var (q int)", "var q int"},
		{"var q int", "var (q int)"}, {"<-chan", "chan"}, {"(xs ...int)", "(xs []int)"}, {"() (int)", "() int"}, {"() int)", "() (int))"},
		{"[1:2:3]", "[1:2]"}, {"[1:2]", "[1:2:3]"}, {"a, b int", "a int; b int"}}
	g.r.Shuffle(len(togs), func(i, j int) { togs[i], togs[j] = togs[j], togs[i] })
	for _, tg := range togs {
		if strings.Contains(t, tg.from) {
			return strings.Replace(t, tg.from, tg.to, 1)
		}
	}
	if strings.HasSuffix(t, ")") && !strings.HasSuffix(t, "()") && !strings.Contains(t, "...") && strings.Contains(t, "(") && g.chance(0.5) {
		return t[:len(t)-1] + "...)"
	}
	if m, ok := g.tokenMutate(t, nil); ok {
		return m
	}
	return t + "2"
}

// useOfImport is a declaration that refers to an import by its local name: in a value, or only in a type of a signature,
// also of a function literal or declaration with a parameter named like the package.
func (g *gen) useOfImport(name string) string {
	switch g.r.Intn(8) {
	case 0:
		return "var _ = func(" + name + " *" + name + ".T) {}\n\n"
	case 1:
		return "func use" + name + "(" + name + " " + name + ".T) {}\n\n"
	case 2:
		return "var _ = func() (" + name + " " + name + ".T) { return }\n\n"
	case 3:
		return "type t" + name + " struct{ " + name + " " + name + ".T }\n\n"
	default:
		return "var _ = " + name + "." + g.pick("Value", "New()", "T{}") + "\n\n"
	}
}

// embed places fragments into a file.
func (g *gen) fileWith(p *pattern, frags []string, pkg string, imports []string) string {
	var sb strings.Builder
	sb.WriteString("package " + pkg + "\n\n")
	// the path of an import may be spelled as a raw string: the same import
	spell := func(spec string) string {
		if g.chance(0.08) && strings.Count(spec, `"`) == 2 && !strings.Contains(spec, "`") {
			return strings.Replace(strings.Replace(spec, `"`, "`", 1), `"`, "`", 1)
		}
		return spec
	}
	switch {
	case len(imports) == 0:
	case len(imports) == 1 && g.chance(0.5):
		sb.WriteString("import " + spell(imports[0]) + "\n\n")
	case g.chance(0.25):
		for _, i := range imports {
			sb.WriteString("import " + spell(i) + "\n")
		}
		sb.WriteString("\n")
	default:
		sb.WriteString("import (\n")
		for k, i := range imports {
			if k > 0 && g.chance(0.2) {
				sb.WriteString("\n")
			}
			sb.WriteString("\t" + spell(i) + "\n")
		}
		sb.WriteString(")\n\n")
	}
	for _, spec := range imports {
		// the only code that refers to an import may be the first declaration after the imports
		if !g.chance(0.15) {
			continue
		}
		name := ""
		if f := strings.Fields(spec); len(f) == 2 {
			name = f[0]
		} else {
			name = baseOf(strings.Trim(spec, `"`))
		}
		if name != "_" && name != "." && name != "" && !strings.HasPrefix(name, "impname") {
			sb.WriteString(g.useOfImport(name))
			break
		}
	}
	nf := 0
	fn := func(body string) {
		nf++
		sb.WriteString(fmt.Sprintf("func fn%d() {\n%s}\n\n", nf, indent(body, "\t")))
	}
	for fi, fr := range frags {
		fr = strings.TrimRight(fr, "\n")
		switch p.kind {
		case kExpr:
			var body string
			body += g.block(1, 2)
			if g.chance(0.3) && !strings.HasPrefix(fr, "func") && !strings.HasPrefix(fr, "&") && !strings.HasPrefix(fr, "-") &&
				!strings.HasPrefix(fr, "!") && !strings.HasPrefix(fr, "*") && !strings.HasPrefix(fr, "<-") && !strings.HasPrefix(fr, "^") &&
				!strings.Contains(fr, " ") {
				// the instance as the leftmost part of a longer expression (same start position)
				fr = fr + g.pick(".Error()", ".Close().Error()", "[0]", "(1)", " + 1", ".x.y", ".Do(fr)", " == nil")
			}
			ctxSel := g.r.Intn(8)
			pc := 0.15
			if t := strings.TrimSpace(p.plus); strings.HasPrefix(t, "mv") && !strings.ContainsAny(t, " (.") {
				pc = 0.6 // the replacement is a bare metavariable: admissibility differs from site to site
			}
			if g.chance(pc) && parses("package p\nfunc _() {\n\tdefer "+fr+"\n}\n") {
				ctxSel = 8 // a slot that holds a call only (*ast.CallExpr), not any expression
			}
			if ctxSel != 8 && g.chance(0.1) {
				ctxSel = 9
			}
			if ctxSel != 8 && g.chance(0.12) {
				ctxSel = 10
			}
			switch ctxSel {
			case 10:
				// two instances in two different lists of one node: both sides of an assignment
				other := strings.TrimRight(frags[(fi+1)%len(frags)], "\n")
				stmt := g.pick(fr+" = "+other, fr+", w0 = "+other+", w1", "w0, "+fr+" = w1, "+other, fr+" += "+other, "w0, "+fr+" := "+other+", w1")
				if parses("package p\nfunc _() {\n" + stmt + "\n}\n") {
					body += stmt + "\n"
				} else {
					body += "_ = " + fr + "\n"
				}
			case 9:
				// inside the body of a range loop (the syntax node with the most fields)
				body += "for _, v := range xs {\n\t_ = v\n\tuse(" + fr + ")\n}\n"
			case 8:
				body += g.pick("defer ", "go ") + fr + "\n"
			case 0:
				body += "_ = " + fr + "\n"
			case 1:
				body += "use(" + fr + ", 1)\n"
			case 2:
				body += "if check(" + fr + ") {\n\treturn\n}\n"
			case 3:
				body += "go func() {\n\tx := []any{" + fr + "}\n\t_ = x\n}()\n"
			case 4:
				body += "for i := range items(" + fr + ") {\n\t_ = i\n}\n"
			case 5:
				body += "switch {\ncase cond:\n\tuse(" + fr + ")\n}\n"
			case 6:
				sb.WriteString("var top" + fmt.Sprint(nf) + " = " + fr + "\n\n")
				continue
			default:
				body += "return " + fr + "\n"
			}
			fn(body)
		case kStmts:
			pre := g.block(1, 2)
			post := g.block(1, 2)
			if g.chance(0.08) && !strings.HasPrefix(strings.TrimSpace(fr), "...") {
				// the instance's first statement carries a label: a labelled statement is another statement
				fr = fmt.Sprintf("lbl%d:\n%s", fi, fr)
			}
			if g.chance(0.3) {
				// a decoy in front: the first statement of a differently filled instance, so that the
				// first section of the pattern matches early and the rest of the pattern does not
				other := strings.SplitN(strings.TrimRight(frags[(fi+1)%len(frags)], "\n"), "\n", 2)[0]
				if !strings.HasSuffix(other, "{") && !strings.HasSuffix(other, "(") && !strings.HasSuffix(other, ",") &&
					!strings.HasPrefix(other, "return") && !strings.HasPrefix(other, "break") && !strings.HasPrefix(other, "continue") &&
					!strings.HasPrefix(other, "goto") && parses("package p\nfunc _() {\n"+other+"\n}\n") {
					pre += other + "\n"
					if g.chance(0.5) {
						pre += g.block(1, 1)
					}
				}
			}
			switch g.r.Intn(7) {
			case 5, 6:
				// an instance and, among the other statements of the same block, a nested block with another one
				shape := g.pick("if cond {\n%s}\n", "for i := 0; i < n; i++ {\n%s}\n", "func() {\n%s}()\n", "switch {\ncase ok:\n%s}\n", "{\n%s}\n")
				nested := fmt.Sprintf(shape, indent(g.block(1, 1)+fr+"\n", "\t"))
				if g.chance(0.5) {
					fn(pre + fr + "\n" + nested + post)
				} else {
					fn(pre + nested + fr + "\n" + post)
				}
			case 0:
				fn(pre + fr + "\n" + post)
			case 1:
				fn("if cond {\n" + indent(pre+fr+"\n"+post, "\t") + "}\n")
			case 2:
				fn("switch x {\ncase 1:\n" + indent(pre+fr+"\n"+post, "\t") + "}\n")
			case 3:
				fn("go func() {\n" + indent(pre+fr+"\n"+post, "\t") + "}()\n")
			default:
				fn(fr + "\n")
			}
		default:
			if p.kind == kGenDecl && g.chance(0.3) {
				fn(fr + "\n")
			} else {
				sb.WriteString(fr + "\n\n")
			}
		}
		if g.chance(0.3) {
			sb.WriteString(g.funcDecl(fmt.Sprintf("other%d", nf), 2) + "\n")
		}
	}
	if p.kind == kGenDecl && g.chance(0.4) {
		// the pattern's instance stays the last declaration of the file
		return sb.String()
	}
	if g.chance(0.5) {
		sb.WriteString(g.genDecl() + "\n")
	}
	for _, spec := range imports {
		// code that refers to the import by its local name (the name given, else the last element of the path)
		if !g.chance(0.4) {
			continue
		}
		name := ""
		if f := strings.Fields(spec); len(f) == 2 {
			name = f[0]
		} else {
			name = baseOf(strings.Trim(spec, `"`))
		}
		if name != "_" && name != "." && name != "" && !strings.HasPrefix(name, "impname") {
			sb.WriteString(g.useOfImport(name))
		}
	}
	if len(imports) > 0 && g.chance(0.35) {
		// a parameter or local variable that shadows the package name of one of the imports
		spec := imports[g.r.Intn(len(imports))]
		name := ""
		if f := strings.Fields(spec); len(f) == 2 {
			name = f[0]
		} else {
			name = baseOf(strings.Trim(spec, `"`))
		}
		if name != "_" && name != "." && name != "" {
			if g.chance(0.5) {
				sb.WriteString("func shadowParam(" + name + " *T) {\n\t" + name + ".Flush()\n}\n\n")
			} else {
				sb.WriteString("func shadowLocal() {\n\t" + name + " := newT()\n\t" + name + ".Close()\n}\n\n")
			}
		}
	}
	return sb.String()
}

type importCase struct {
	patchHead   string // package / import lines of the patch (with diff prefixes)
	meta        string // extra metavariable declarations
	filePkg     string
	fileImports []string // import specs of the file, e.g. `f "fmt"`
	note        string
}

var importPaths = []string{"fmt", "strings", "os", "example.com/pkg", "net/http", "example.com/lib/other", "example.com/api/core/v1", "example.com/foo/v2", "example.com/x/v0"}

func baseOf(path string) string {
	if i := strings.LastIndex(path, "/"); i >= 0 {
		return path[i+1:]
	}
	return path
}

// importClause decides the package/import guards of the patch and the
// import block of the file.
func (g *gen) importClause(p *pattern) importCase {
	ic := importCase{filePkg: g.pick("p", "main", "x")}
	prob := 0.25
	switch g.mode {
	case "c10", "c11":
		prob = 1
	case "c05":
		prob = 0.5
	}
	// unrelated imports of the file
	var others []string
	for _, ip := range importPaths {
		if g.chance(0.3) {
			switch g.r.Intn(6) {
			case 0:
				others = append(others, "x"+baseOf(ip)+` "`+ip+`"`)
			case 1:
				others = append(others, `_ "`+ip+`"`)
			default:
				others = append(others, `"`+ip+`"`)
			}
		}
	}
	if !g.chance(prob) {
		ic.fileImports = others
		return ic
	}
	ic.note = " imports"
	if g.chance(0.3) {
		// package guard
		pk := g.pick("p", "main", "x")
		switch g.r.Intn(3) {
		case 0:
			ic.patchHead += " package " + pk + "\n"
		case 1:
			ic.patchHead += "-package " + pk + "\n+package " + pk + "2\n"
		default:
			ic.patchHead += " package " + pk + "\n"
		}
		if g.chance(0.7) {
			ic.filePkg = pk
		} else if g.chance(0.6) {
			// a package whose name only resembles the one the patch names
			ic.filePkg = g.pick(pk+"_test", pk+"2", "x"+pk, pk+"_", strings.ToUpper(pk[:1])+pk[1:])
		}
	}
	nimp := 1
	if g.chance(0.4) {
		nimp = 2
	}
	usedPaths := map[string]bool{}
	for ii := 0; ii < nimp; ii++ {
		path := g.pick(importPaths...)
		if usedPaths[path] {
			continue
		}
		usedPaths[path] = true
		// remove the unrelated import of the same path, the guard decides about it
		var rest []string
		for _, o := range others {
			if !strings.HasSuffix(o, `"`+path+`"`) {
				rest = append(rest, o)
			}
		}
		others = rest
		mvName := "impname"
		if ii == 1 {
			mvName = "impname2"
		}
		form := func(kind int, pth string) string {
			switch kind {
			case 0:
				return `"` + pth + `"`
			case 1:
				return baseOf(pth) + ` "` + pth + `"`
			case 2:
				return `alias "` + pth + `"`
			case 3:
				return mvName + ` "` + pth + `"` // metavariable
			case 4:
				return `. "` + pth + `"`
			default:
				return `_ "` + pth + `"`
			}
		}
		mk := g.r.Intn(7) // 6 = no minus-side import
		pk := g.r.Intn(7)
		usesMv := false
		sign := g.pick("-", " ", "-")
		if mk < 6 {
			ic.patchHead += sign + "import " + form(mk, path) + "\n"
			usesMv = usesMv || mk == 3
		}
		if sign == "-" || mk == 6 {
			if pk < 6 && g.chance(0.7) {
				np := path
				if g.chance(0.6) {
					np = g.pick(importPaths...)
				}
				if pk == 3 && mk != 3 {
					pk = 0
				}
				ic.patchHead += "+import " + form(pk, np) + "\n"
			}
		}
		if usesMv {
			// the name of an import may be declared as either kind of metavariable: an import name is an identifier and an
			// identifier is an expression
			ic.meta += "var " + mvName + " " + g.pick("identifier", "identifier", "expression") + "\n"
		}
		// file side
		switch g.r.Intn(8) {
		case 0: // absent
		case 1:
			others = append(others, form(0, path))
		case 2:
			others = append(others, form(1, path))
		case 3:
			others = append(others, form(2, path))
		case 4:
			others = append(others, form(4, path))
		case 5:
			others = append(others, form(5, path))
		default:
			if mk < 6 && mk != 3 {
				others = append(others, form(mk, path))
			} else {
				others = append(others, form(g.r.Intn(3), path))
			}
		}
	}
	ic.patchHead += "\n"
	g.r.Shuffle(len(others), func(i, j int) { others[i], others[j] = others[j], others[i] })
	ic.fileImports = others
	return ic
}

var kindFlipRe = regexp.MustCompile(`(?m)^var ([\w, ]+) identifier`)

func parses(src string) bool {
	_, err := parser.ParseFile(token.NewFileSet(), "x.go", src, parser.SkipObjectResolution)
	return err == nil
}

// genEngineCases produces n (patch, file) cases.
func genEngineCases(seed int64, n int, mode string) []Case {
	g := &gen{r: rand.New(rand.NewSource(seed)), mode: mode}
	var cases []Case
	for tries := 0; len(cases) < n && tries < n*20; tries++ {
		p, ok := g.makePattern()
		if !ok {
			continue
		}
		var frags []string
		note := p.kind.String()
		k := 1 + g.r.Intn(3)
		if g.mode == "c05" || g.mode == "c03" {
			k = 2 + g.r.Intn(4)
		}
		for i := 0; i < k; i++ {
			sel := g.r.Intn(5)
			if g.mode == "c02" && g.chance(0.5) {
				sel = 2
			}
			if g.mode == "c01" && g.chance(0.4) {
				sel = 1
			}
			switch sel {
			case 0: // the fragment itself
				frags = append(frags, p.frag)
			case 1: // near miss: token mutation outside holes, or a structural one-token difference
				inst, ok := g.tokenMutate(p.frag, p.holes)
				if g.chance(0.4) {
					if m := g.structMutate(p.frag); m != p.frag {
						inst, ok = m, true
					}
				}
				hasDots := false
				for _, h := range p.holes {
					if h.kind == hDots {
						hasDots = true
					}
				}
				if p.kind == kExpr && hasDots && g.chance(map[string]float64{"c04": 0.5, "c01": 0.3, "c03": 0.3, "c05": 0.4, "c02": 0.2}[g.mode]+0.1) {
					// an instance of a pattern with elisions in which a call spreads its last argument ("f(a, xs...)") or no
					// longer does: the "..." of a call is part of the call, not of the elided run
					if m, ok2 := g.posOnlyCopy(strings.TrimSpace(g.instance(p, 0))); ok2 {
						inst, ok = m+"\n", true
						note += " spread"
					}
				}
				if ok {
					note += " nearmiss"
				}
				frags = append(frags, inst)
			case 2: // inconsistent bindings
				frags = append(frags, g.instance(p, 0.7))
				if g.chance(0.3) {
					// every elision stands for nothing and one explicit element is missing: too short to be an instance
					texts := make([]string, len(p.holes))
					short := false
					for hi, h := range p.holes {
						if h.kind == hDots {
							texts[hi] = emptyRun
						} else if !short && (strings.HasSuffix(p.frag[:h.start], ", ") || strings.HasPrefix(p.frag[h.end:], ", ")) {
							texts[hi] = emptyRun
							short = true
						} else {
							texts[hi] = h.text
						}
					}
					if short {
						hs := make([]hole, len(p.holes))
						copy(hs, p.holes)
						for hi := range hs {
							if texts[hi] == emptyRun && hs[hi].kind != hDots {
								hs[hi].sep = ", "
							}
						}
						if m := fill(p.frag, hs, texts); parses(wrapForParse(p.kind, m)) {
							frags = append(frags, m)
							note += " tooshort"
						}
					}
				}
			default:
				frags = append(frags, g.instance(p, 0))
			}
		}
		if p.kind == kStmts && p.minus != "" && p.plus != "" && p.forceHead == "" &&
			!strings.HasPrefix(strings.TrimSpace(p.minus), "{") && !strings.HasPrefix(strings.TrimSpace(p.plus), "{") &&
			!strings.HasPrefix(strings.TrimSpace(p.minus), "...") && !strings.HasPrefix(strings.TrimSpace(p.plus), "...") &&
			g.chance(map[string]float64{"c05": 0.2, "c04": 0.2, "c03": 0.12, "c01": 0.08, "c09": 0.08, "mix": 0.1}[g.mode]) {
			// one side of the change opens with the "..." of a context line, the other has a statement of its own in front
			// of it: the statement is removed (or inserted) before a run that both sides leave alone
			pre := g.pick("prepare(ctx)\n", "mu.Lock()\n", "start := now()\n", "<-ready\n", "*p = 0\n")
			q := *p
			if g.chance(0.5) {
				q.minus, q.plus = pre+"...\n"+p.minus, "...\n"+p.plus
				note += " opens-with-dots-drop"
			} else {
				q.minus, q.plus = "...\n"+p.minus, pre+"...\n"+p.plus
				note += " opens-with-dots-insert"
			}
			for i := range frags {
				fill := ""
				for j, m := 0, g.r.Intn(3); j < m; j++ {
					fill += g.stmt(1)
				}
				if note[len(note)-4:] == "drop" || g.chance(0.3) {
					frags[i] = pre + fill + frags[i]
				} else {
					frags[i] = fill + frags[i]
				}
			}
			p = &q
		}
		ic := g.importClause(p)
		if p.forceHead != "" {
			ic = importCase{filePkg: "p", patchHead: p.forceHead, fileImports: []string{`"fmt"`, `"time"`}, note: " imports forced-head"}
		}
		src := g.fileWith(p, frags, ic.filePkg, ic.fileImports)
		if p.extraDecl != "" {
			if g.chance(0.5) {
				src += "\n" + p.extraDecl
			} else if i := strings.Index(src, "\nfunc "); i >= 0 {
				src = src[:i+1] + p.extraDecl + "\n" + src[i+1:]
			}
		}
		if !parses(src) {
			continue
		}
		body := lineDiff(p.minus, p.plus)
		header := "@@\n"
		if g.chance(0.2) {
			header = "@ " + g.pick("fix", "rename_it", "Change1") + " @\n"
		}
		desc := ""
		if g.chance(0.45) {
			for i, k := 0, 1+g.r.Intn(3); i < k; i++ {
				desc += g.pick("# ", "#", "#   ") + g.pick("Replace the old call", "second line", "see go/doc: x", "use new API") + "\n"
			}
		}
		patch := desc + header + p.meta + ic.meta + "@@\n" + ic.patchHead + body
		note += ic.note
		patches := []string{patch}
		if g.mode != "c09" && p.meta != "" && g.chance(0.12) {
			// scoping: the metavariables are declared by an earlier change of the same file that matches
			// nothing; in the change that follows their names are ordinary identifiers
			patches = []string{"@@\n" + p.meta + "@@\n-zzzNeverMatches(1)\n+zzz(2)\n\n" + desc + header + ic.meta + "@@\n" + ic.patchHead + body}
			note += " scope"
		}
		if g.mode != "c09" && ic.meta != "" && len(patches) == 1 && patches[0] == patch && g.chance(0.35) {
			// the same import written by two changes of one patch, its name a metavariable in one of them and an ordinary
			// name in the other: what a change declares concerns that change only
			literal := desc + header + p.meta + "@@\n" + ic.patchHead + body
			if g.chance(0.5) {
				patches = []string{literal + "\n" + patch}
				note += " import-name-literal-then-metavar"
			} else {
				next := &pattern{kind: p.kind, frag: p.frag, holes: p.holes, minus: p.plus, meta: p.meta}
				next.plus = g.derivePlus(next)
				if next.plus != next.minus {
					patches = []string{patch + "\n@@\n" + p.meta + "@@\n" + ic.patchHead + lineDiff(next.minus, next.plus)}
					note += " import-name-metavar-then-literal"
				}
			}
		}
		if g.mode != "c09" && len(patches) == 1 && patches[0] == patch && strings.Contains(p.meta, " identifier") &&
			g.chance(map[string]float64{"c02": 0.2, "c05": 0.12, "c01": 0.08, "mix": 0.08, "c03": 0.06}[g.mode]) {
			// an earlier change declares the same names with the other kind and meets, with them, code that is not an
			// identifier: what a name was in one change says nothing about what it is in the next
			if m := kindFlipRe.FindStringSubmatch(p.meta); m != nil {
				name := strings.TrimSpace(strings.Split(m[1], ",")[0])
				flipped := strings.ReplaceAll(p.meta, " identifier", " expression")
				probe := "@@\n" + flipped + "@@\n-zzzProbe(" + name + ", 0)\n+zzzProbed(" + name + ")\n"
				src2 := src + "\nfunc probeSite() {\n\tzzzProbe(h(1), 1)\n\tzzzProbe(h(1), 0)\n\tzzzProbe(a.b, 0)\n\tzzzProbe(c, 0)\n\tzzzProbe(T{}, 0)\n}\n"
				if parses(src2) {
					src = src2
					if g.chance(0.5) {
						patches = []string{probe + "\n" + patch}
					} else {
						patches = []string{probe, patch}
					}
					note += " kind-flip"
				}
			}
		}
		var chain []string
		if g.mode == "c09" && g.chance(0.35) {
			// a concrete chain: change 2 spells out, without metavariables or elisions, the code that
			// change 1 generates for an instance whose elided runs are empty
			bind := map[string]string{}
			for _, h := range p.holes {
				if h.kind != hDots {
					bind[h.name] = h.text
				}
			}
			inst1 := instantiateText(p.minus, bind)
			conc := instantiateText(p.plus, bind)
			conc2 := g.derivePlus(&pattern{kind: p.kind, minus: conc})
			if parses(wrapForParse(p.kind, inst1)) && parses(wrapForParse(p.kind, conc)) && conc2 != conc {
				src = g.fileWith(p, []string{inst1, inst1}, ic.filePkg, ic.fileImports)
				if parses(src) {
					second := "@@\n@@\n" + lineDiff(conc, conc2)
					texts := []string{patch, second}
					if g.chance(0.5) {
						patches = []string{strings.Join(texts, "\n")}
					} else {
						patches = texts
					}
					chain = texts
					note += " concrete-chain"
				}
			}
		} else if g.mode == "c09" {
			// a chain: change k+1 matches only what change k produced
			texts := []string{patch}
			guard := ""
			if ic.patchHead == "" && g.chance(0.4) {
				// the first change adds an import; the later ones are guarded by it (or, rarely, by one nobody adds)
				texts[0] = desc + header + p.meta + ic.meta + "@@\n+import \"example.com/added\"\n\n" + body
				guard = " import \"example.com/added\"\n\n"
				if g.chance(0.2) {
					guard = " import \"example.com/never\"\n\n"
				}
				note += " import-chain"
			}
			cur := p
			for step, n := 0, 1+g.r.Intn(2); step < n; step++ {
				next := &pattern{kind: cur.kind, frag: cur.frag, holes: cur.holes, minus: cur.plus, meta: cur.meta}
				next.plus = g.derivePlus(next)
				if next.plus == next.minus {
					break
				}
				texts = append(texts, "@@\n"+next.meta+"@@\n"+guard+lineDiff(next.minus, next.plus))
				cur = next
			}
			if g.chance(0.3) {
				// a change in the middle that matches nothing
				k := 1 + g.r.Intn(len(texts))
				texts = append(texts[:k], append([]string{"@@\n@@\n-zzzNeverMatches(1)\n+zzz(2)\n"}, texts[k:]...)...)
			}
			if g.chance(0.5) {
				patches = []string{strings.Join(texts, "\n")}
			} else {
				patches = texts
			}
			note += fmt.Sprintf(" chain%d", len(texts))
			chain = texts
		}
		cs := Case{
			ID:      fmt.Sprintf("gen/%d/%d", seed, len(cases)),
			Patches: patches,
			Src:     src,
			Note:    note,
			Chain:   chain,
		}
		if len(patches) == 1 && patches[0] == patch {
			// the single change is exactly the generated one: its sides are known as text
			cs.MinusText, cs.PlusText, cs.FragKind = p.minus, p.plus, p.kind.String()
		}
		cases = append(cases, cs)
	}
	return cases
}
