//go:build verif

package main

func genEngineCases(seed int64, n int) []Case { return nil }
