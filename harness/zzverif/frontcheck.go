//go:build verif

package main

import (
	"os"
	"go/ast"
	"go/parser"
	"go/token"
	"reflect"
	"regexp"
	"strings"

	"golang.org/x/tools/go/ast/astutil"

	"github.com/uber-go/gopatch/internal/parse"
	"github.com/uber-go/gopatch/internal/pgo"
)

// An oracle for the patch front end (sectioning, splitting into '-' and '+'
// versions, the "..." rewriting of pgo/augment, go/parser, augmentAST) that
// does not go through any of it: the generator knows the text of each side of
// the change and where its elisions are.  The text is wrapped into a file by
// hand, every elision that stands where an expression or a statement can
// stand is replaced by a placeholder identifier, the result is parsed with
// go/parser, and the placeholders become pgo.Dots nodes.  The canonical form
// (positions reduced to validity) must equal that of the pattern the
// implementation produced.  Elisions in parameter / field lists and
// for-headers are left to the augment stream.

const dotsPlaceholder = "zzDOTSzz"

var (
	exprDotsRe = regexp.MustCompile(`(\(|, |\{)\.\.\.(,|\)|\})`)
	stmtDotsRe = regexp.MustCompile(`(?m)^(\s*)\.\.\.\s*$`)
)

// expectedNode parses one side of a change independently of the front end; ok=false when this
// oracle does not cover the text.
func expectedNode(kind, text string) (reflect.Value, bool) {
	t := exprDotsRe.ReplaceAllString(text, "${1}"+dotsPlaceholder+"${2}")
	t = exprDotsRe.ReplaceAllString(t, "${1}"+dotsPlaceholder+"${2}") // adjacent elisions share a separator
	t = stmtDotsRe.ReplaceAllString(t, "${1}"+dotsPlaceholder)
	if strings.Contains(t, "...") {
		// an elision somewhere else (parameter list, for header) or a variadic "..." we cannot tell apart by text
		if strings.Contains(strings.ReplaceAll(strings.ReplaceAll(t, "...)", ""), "...", ""), dotsPlaceholder) || true {
			rest := strings.ReplaceAll(t, dotsPlaceholder, "")
			// variadic uses are "x...)" or "...T" in a parameter; anything else is an elision we do not cover
			for _, m := range regexp.MustCompile(`.?\.\.\..?`).FindAllString(rest, -1) {
				if !(strings.HasSuffix(m, ")") && len(m) == 5 && m[0] != ' ' && m[0] != '(' && m[0] != ',') {
					return reflect.Value{}, false
				}
			}
		}
	}
	var src string
	switch kind {
	case "expr":
		src = "package p\n\nvar _ = " + t
	case "stmts":
		if strings.HasPrefix(strings.TrimSpace(t), "{") {
			// a patch that starts with "{" writes the statements as a block: the block is the function body
			src = "package p\n\nfunc _() " + t + "\n"
		} else {
			src = "package p\n\nfunc _() {\n" + t + "}\n"
		}
	default:
		src = "package p\n\n" + t
	}
	f, err := parser.ParseFile(token.NewFileSet(), "e.go", src, parser.SkipObjectResolution)
	if err != nil {
		return reflect.Value{}, false
	}
	astutil.Apply(f, nil, func(c *astutil.Cursor) bool {
		if id, ok := c.Node().(*ast.Ident); ok && id.Name == dotsPlaceholder {
			c.Replace(&pgo.Dots{Dots: id.NamePos})
		}
		return true
	})
	switch kind {
	case "expr":
		gd, ok := f.Decls[0].(*ast.GenDecl)
		if !ok || len(gd.Specs) != 1 {
			return reflect.Value{}, false
		}
		vs := gd.Specs[0].(*ast.ValueSpec)
		if len(vs.Values) != 1 {
			return reflect.Value{}, false
		}
		return reflect.ValueOf(vs.Values[0]), true
	case "stmts":
		fd, ok := f.Decls[0].(*ast.FuncDecl)
		if !ok {
			return reflect.Value{}, false
		}
		return reflect.ValueOf(fd.Body.List), true
	default:
		if len(f.Decls) != 1 {
			return reflect.Value{}, false
		}
		switch d := f.Decls[0].(type) {
		case *ast.GenDecl:
			return reflect.ValueOf(d), true
		case *ast.FuncDecl:
			return reflect.ValueOf(d), true
		}
	}
	return reflect.Value{}, false
}

func implNode(f *pgo.File) (string, reflect.Value, bool) {
	switch n := f.Node.(type) {
	case *pgo.Expr:
		return "expr", reflect.ValueOf(n.Expr), true
	case *pgo.GenDecl:
		return "gendecl", reflect.ValueOf(n.GenDecl), true
	case *pgo.FuncDecl:
		return "funcdecl", reflect.ValueOf(n.FuncDecl), true
	case *pgo.StmtList:
		return "stmts", reflect.ValueOf(n.List), true
	}
	return "", reflect.Value{}, false
}

func canonValue(v reflect.Value) string {
	d := &dumper{canon: true, noObj: true}
	d.val(v)
	return d.sb.String()
}

// frontVerdict: "1" both sides agree with the independent parse, "0" one does not, "?" not covered.
func frontVerdict(fset *token.FileSet, pc *parse.Change, c Case) (res string) {
	defer func() {
		if recover() != nil {
			res = "?"
		}
	}()
	verdict := "1"
	for _, side := range []struct {
		f    *pgo.File
		text string
	}{{pc.Patch.Minus, c.MinusText}, {pc.Patch.Plus, c.PlusText}} {
		kind, got, ok := implNode(side.f)
		if !ok || kind != c.FragKind || side.text == "" {
			return "?"
		}
		want, ok := expectedNode(kind, side.text)
		if !ok {
			return "?"
		}
		if canonValue(got) != canonValue(want) {
			verdict = "0"
			if os.Getenv("VERIF_FRONT_DEBUG") != "" {
				println("FRONT-DIFF", c.ID, "\n  text:", side.text, "\n  got: ", canonValue(got), "\n  want:", canonValue(want))
			}
		}
	}
	return verdict
}
