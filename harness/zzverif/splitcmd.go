//go:build verif

package main

import (
	"bufio"
	"encoding/hex"
	"fmt"
	"go/scanner"
	"go/token"
	"os"
	"path/filepath"
	"reflect"
	"sort"
	"strconv"
	"strings"
	"unicode"

	"github.com/uber-go/gopatch/internal/parse"
	"github.com/uber-go/gopatch/internal/parse/section"
	"github.com/uber-go/gopatch/internal/pgo"
)

// runSplit: for every change of a patch, the two versions splitPatch cuts its body into (bytes and LinePos entries) and,
// when the patch is accepted, the place recorded for every elision of each version.  The model computes the same from
// the bytes of the patch: Sec.split, Sec.splitPatch, the finder and rewriter of the augment stream on go/scanner's
// tokens of each version, posAdjuster, and token.File.Position under the registered LinePos entries.
func runSplit(cases []frontCase, outDir string) {
	cf, _ := os.Create(filepath.Join(outDir, "split.cases"))
	rf, _ := os.Create(filepath.Join(outDir, "split.impl"))
	cw, rw := bufio.NewWriter(cf), bufio.NewWriter(rf)
	defer func() { cw.Flush(); rw.Flush(); cf.Close(); rf.Close() }()
	for _, c := range cases {
		src := []byte(c.Patch)
		fset := token.NewFileSet()
		prog, serr := section.Split(fset, "p.patch", src)
		var uniL, uniD strings.Builder
		seen := map[rune]bool{}
		for _, r := range string(src) {
			if r >= 128 && !seen[r] {
				seen[r] = true
				if unicode.IsLetter(r) {
					uniL.WriteString(" " + strconv.Itoa(int(r)))
				}
				if unicode.IsDigit(r) {
					uniD.WriteString(" " + strconv.Itoa(int(r)))
				}
			}
		}
		var cs, rs strings.Builder
		cs.WriteString("(case " + c.ID + " split (hex \"" + hex.EncodeToString(src) + "\") (uniletters" + uniL.String() + ") (unidigits" + uniD.String() + ") (sides")
		if serr != nil {
			fmt.Fprintln(cw, cs.String()+"))")
			fmt.Fprintln(rw, "(res "+c.ID+" (sectionerr))")
			continue
		}
		unavailable := false
		rs.WriteString("(res " + c.ID + " (split")
		for _, ch := range prog {
			mc, ml, pc, pl, ok := implSplit(ch.Patch)
			if !ok {
				// the tree has no splitPatch of the known shape any more: the versions are cut here, as the model cuts them,
				// and only the places of the elisions are compared
				mc, ml, pc, pl = textSplit(ch.Patch)
				unavailable = true
			}
			cs.WriteString(" (c " + sideToks("m", mc) + " " + sideToks("p", pc) + ")")
			rs.WriteString(" (c " + versionSx(fset, "m", mc, ml) + " " + versionSx(fset, "p", pc, pl) + ")")
		}
		cs.WriteString("))")
		rs.WriteString(") (dots")
		func() {
			defer func() {
				if r := recover(); r != nil {
					rs.WriteString(" panic")
				}
			}()
			fset2 := token.NewFileSet()
			ast, err := parse.Parse(fset2, "p.patch", src)
			if err != nil {
				rs.WriteString(" rejected")
				return
			}
			for _, ch := range ast.Changes {
				rs.WriteString(" (c " + dotsSx(fset2, "m", ch.Patch.Minus) + " " + dotsSx(fset2, "p", ch.Patch.Plus) + ")")
			}
		}()
		rs.WriteString(")")
		if unavailable {
			rs.WriteString(" (splitunavailable)")
		}
		rs.WriteString(")")
		fmt.Fprintln(cw, cs.String())
		fmt.Fprintln(rw, rs.String())
	}
}

// textSplit cuts a body into its two versions by the first character of every line.
func textSplit(sec section.Section) (mc []byte, ml []section.LinePos, pc []byte, pl []section.LinePos) {
	for _, line := range sec {
		text, pos := line.Text, line.StartPos
		toM, toP := true, true
		if len(text) > 0 && text[0] == '-' {
			toP, text, pos = false, text[1:], pos+1
		} else if len(text) > 0 && text[0] == '+' {
			toM, text, pos = false, text[1:], pos+1
		}
		if toM {
			ml = append(ml, section.LinePos{Offset: len(mc), Pos: pos})
			mc = append(append(mc, text...), '\n')
		}
		if toP {
			pl = append(pl, section.LinePos{Offset: len(pc), Pos: pos})
			pc = append(append(pc, text...), '\n')
		}
	}
	return
}

func sideToks(tag string, src []byte) string {
	fset := token.NewFileSet()
	file := fset.AddFile("side.go", -1, len(src))
	var s scanner.Scanner
	nerr := 0
	s.Init(file, src, func(token.Position, string) { nerr++ }, 0)
	var sb strings.Builder
	sb.WriteString("(" + tag + " (toks")
	for {
		p, t, _ := s.Scan()
		sb.WriteString(fmt.Sprintf(" (%s %d %d)", fndKind(t), file.Offset(p), file.Line(p)))
		if t == token.EOF {
			break
		}
	}
	sb.WriteString(")")
	if nerr > 0 {
		sb.WriteString(" (scanerr 1)")
	}
	sb.WriteString(")")
	return sb.String()
}

func versionSx(fset *token.FileSet, tag string, contents []byte, lines []section.LinePos) string {
	var sb strings.Builder
	sb.WriteString("(" + tag + " " + hex.EncodeToString(contents) + " (lines")
	for _, l := range lines {
		p := fset.Position(l.Pos)
		sb.WriteString(fmt.Sprintf(" (%d %d %d)", l.Offset, p.Line, p.Column))
	}
	sb.WriteString("))")
	return sb.String()
}

func dotsSx(fset *token.FileSet, tag string, f *pgo.File) string {
	var dots []token.Pos
	if f != nil {
		collectDotsPos(reflect.ValueOf(f.Node), map[uintptr]bool{}, &dots)
	}
	type lc struct{ l, c int }
	var ps []lc
	for _, d := range dots {
		p := fset.Position(d)
		ps = append(ps, lc{p.Line, p.Column})
	}
	sort.Slice(ps, func(i, j int) bool {
		if ps[i].l != ps[j].l {
			return ps[i].l < ps[j].l
		}
		return ps[i].c < ps[j].c
	})
	var sb strings.Builder
	sb.WriteString("(" + tag)
	for _, p := range ps {
		sb.WriteString(fmt.Sprintf(" (%d %d)", p.l, p.c))
	}
	sb.WriteString(")")
	return sb.String()
}
