//go:build verif

package main

import (
	"bufio"
	"encoding/json"
	"fmt"
	"go/ast"
	"go/parser"
	"go/token"
	"os"
	"reflect"
	"sort"
	"strings"

	"golang.org/x/tools/go/ast/astutil"
)

type ccCase struct {
	ID   string `json:"id"`
	Orig string `json:"orig"`
	Out  string `json:"out"`
	// indices (among non-import declarations) of declarations that contain a rewritten site
	Touched []int `json:"touched"`
}

type ccOut struct {
	ID        string   `json:"id"`
	Skip      string   `json:"skip,omitempty"`
	Problems  []string `json:"problems,omitempty"`
	Untouched int      `json:"untouched"`
	Touched   int      `json:"touched"`
	Comments  int      `json:"comments"`
}

type declInfo struct {
	canon    string
	comments []string
	isImport bool
	paths    []string // import declarations: the paths they import
	doc      []string // import declarations: the text of the doc comment
}

func stripParens(n ast.Node) {
	astutil.Apply(n, nil, func(c *astutil.Cursor) bool {
		if p, ok := c.Node().(*ast.ParenExpr); ok {
			c.Replace(p.X)
		}
		return true
	})
}

// fileInfo extracts, per top-level declaration, its canonical syntax and the
// comments belonging to it (doc group, comments inside it, comments trailing
// it on its last line), plus the header comments (everything before the end
// of the package clause line).
func fileInfo(src string) (decls []declInfo, header []string, all []string, err error) {
	fset := token.NewFileSet()
	f, err := parser.ParseFile(fset, "x.go", src, parser.ParseComments|parser.SkipObjectResolution)
	if err != nil {
		return nil, nil, nil, err
	}
	tf := fset.File(f.Pos())
	pkgLine := tf.Line(f.Name.End())
	used := map[*ast.Comment]bool{}
	// gofmt inserts an empty "//" line between a doc comment and a directive; such
	// empty line comments are layout, not comment text
	for _, g := range f.Comments {
		kept := g.List[:0]
		for _, c := range g.List {
			if strings.TrimSpace(c.Text) != "//" {
				kept = append(kept, c)
			}
		}
		g.List = kept
	}
	for _, g := range f.Comments {
		for _, c := range g.List {
			all = append(all, c.Text)
			if tf.Line(c.Pos()) <= pkgLine {
				header = append(header, c.Text)
				used[c] = true
			}
		}
	}
	for _, d := range f.Decls {
		var di declInfo
		if gd, ok := d.(*ast.GenDecl); ok && gd.Tok == token.IMPORT {
			di.isImport = true
			for _, sp := range gd.Specs {
				if is, ok := sp.(*ast.ImportSpec); ok && is.Path != nil {
					// an import is kept when the file still imports the path under the same name: a change that renames
					// an import (-import . "p" +import _ "p") replaces it (false alarm of the thorough sweep, seed 191)
					nm := ""
					if is.Name != nil {
						nm = is.Name.Name + " "
					}
					di.paths = append(di.paths, nm+is.Path.Value)
				}
			}
			if gd.Doc != nil {
				for _, c := range gd.Doc.List {
					di.doc = append(di.doc, c.Text)
				}
			}
		}
		endLine := tf.Line(d.End())
		var doc *ast.CommentGroup
		switch x := d.(type) {
		case *ast.GenDecl:
			doc = x.Doc
		case *ast.FuncDecl:
			doc = x.Doc
		}
		for _, g := range f.Comments {
			for _, c := range g.List {
				if used[c] {
					continue
				}
				inDoc := doc != nil && g == doc
				inside := c.Pos() >= d.Pos() && c.End() <= d.End()
				trailing := c.Pos() >= d.End() && tf.Line(c.Pos()) == endLine
				if inDoc || inside || trailing {
					di.comments = append(di.comments, c.Text)
					used[c] = true
				}
			}
		}
		decls = append(decls, di)
	}
	// canonical syntax without comments and parentheses
	for i, d := range f.Decls {
		stripParens(d)
		dd := &dumper{canon: true}
		dd.val(reflect.ValueOf(d))
		decls[i].canon = dd.sb.String()
	}
	return decls, header, all, nil
}

func runCommentCheck(path string) {
	f, err := os.Open(path)
	if err != nil {
		fatal(err)
	}
	defer f.Close()
	sc := bufio.NewScanner(f)
	sc.Buffer(make([]byte, 1<<20), 1<<28)
	w := bufio.NewWriter(os.Stdout)
	defer w.Flush()
	for sc.Scan() {
		var c ccCase
		if err := json.Unmarshal(sc.Bytes(), &c); err != nil {
			continue
		}
		o := ccOut{ID: c.ID}
		od, oh, oall, err1 := fileInfo(c.Orig)
		nd, nh, nall, err2 := fileInfo(c.Out)
		switch {
		case err1 != nil:
			o.Skip = "original does not parse"
		case err2 != nil:
			o.Skip = "output does not parse"
		default:
			o.Comments = len(oall)
			// no comment text may be invented or duplicated
			count := map[string]int{}
			for _, t := range oall {
				count[t]++
			}
			for _, t := range nall {
				count[t]--
				if count[t] < 0 {
					o.Problems = append(o.Problems, fmt.Sprintf("comment %q appears more often in the output than in the input", t))
					break
				}
			}
			// comments that trailed a deleted import declaration may end up on the package line: only the
			// original header comments are required, in order
			inOrig := map[string]int{}
			for _, t := range oh {
				inOrig[t]++
			}
			var nhf []string
			for _, t := range nh {
				if inOrig[t] > 0 {
					inOrig[t]--
					nhf = append(nhf, t)
				}
			}
			nh = nhf
			if strings.Join(oh, "\x00") != strings.Join(nh, "\x00") {
				o.Problems = append(o.Problems, fmt.Sprintf("header/package comments changed: %q -> %q", oh, nh))
			}
			// import declarations all of whose imports are still imported: imports.Process may regroup them, so where their
			// comments end up is not prescribed, but each is still in the file; and the comment in front of import "C" is
			// the cgo preamble: it has to stay the doc comment of that declaration
			stillImported := map[string]bool{}
			for _, d := range nd {
				for _, pth := range d.paths {
					stillImported[pth] = true
				}
			}
			inOut := map[string]int{}
			for _, t := range nall {
				inOut[t]++
			}
			for _, d := range od {
				if !d.isImport || len(d.paths) == 0 {
					continue
				}
				kept := true
				for _, pth := range d.paths {
					if !stillImported[pth] {
						kept = false
					}
				}
				if !kept {
					continue
				}
				for _, t := range d.comments {
					if inOut[t] == 0 {
						o.Problems = append(o.Problems, fmt.Sprintf("comment %q of an import declaration whose imports are all kept (%s) is lost", t, strings.Join(d.paths, ", ")))
					} else {
						inOut[t]--
					}
				}
				if len(d.paths) == 1 && d.paths[0] == `"C"` && len(d.doc) > 0 {
					for _, dn := range nd {
						if len(dn.paths) == 1 && dn.paths[0] == `"C"` && strings.Join(dn.doc, "\x00") != strings.Join(d.doc, "\x00") {
							o.Problems = append(o.Problems, fmt.Sprintf("the cgo preamble in front of import \"C\" changed: %q -> %q", d.doc, dn.doc))
						}
					}
				}
			}
			// align the non-import declarations by position
			var a, b []declInfo
			for _, d := range od {
				if !d.isImport {
					a = append(a, d)
				}
			}
			for _, d := range nd {
				if !d.isImport {
					b = append(b, d)
				}
			}
			if len(a) != len(b) {
				o.Skip = "number of declarations changed"
				break
			}
			importComments := map[string]int{}
			for _, d := range od {
				if d.isImport {
					for _, t := range d.comments {
						importComments[t]++
					}
				}
			}
			isTouched := map[int]bool{}
			for _, t := range c.Touched {
				isTouched[t] = true
			}
			// comments of a declaration the patch rewrote may likewise end up next to a neighbour
			for i := range a {
				if i < len(b) && (a[i].canon != b[i].canon || isTouched[i]) {
					for _, t := range a[i].comments {
						importComments[t]++
					}
				}
			}
			for i := range a {
				if a[i].canon != b[i].canon || isTouched[i] {
					o.Touched++
					continue
				}
				o.Untouched++
				// comments of an import declaration the patch edited may end up next to a declaration
				// (they are not lost, invented or duplicated: see above); the declaration's own
				// comments are required exactly, in order
				own := map[string]int{}
				for _, t := range a[i].comments {
					own[t]++
				}
				var kept []string
				for _, t := range b[i].comments {
					if own[t] > 0 {
						own[t]--
						kept = append(kept, t)
					} else if importComments[t] == 0 {
						kept = append(kept, t) // a foreign comment that is not from the import block: reported below
					}
				}
				b[i].comments = kept
				if strings.Join(a[i].comments, "\x00") != strings.Join(b[i].comments, "\x00") {
					o.Problems = append(o.Problems, fmt.Sprintf("declaration %d is syntactically unchanged but its comments changed: %q -> %q", i, a[i].comments, b[i].comments))
				}
			}
		}
		sort.Strings(o.Problems)
		bs, _ := json.Marshal(o)
		w.Write(bs)
		w.WriteByte('\n')
	}
}
