//go:build verif

package main

import (
	"bufio"
	"encoding/hex"
	"fmt"
	"go/scanner"
	"go/token"
	"os"
	"path/filepath"
	"strings"
	"time"

	"github.com/uber-go/gopatch/internal/pgo/augment"
)

func fndKind(t token.Token) string {
	switch t {
	case token.EOF:
		return "eof"
	case token.PACKAGE:
		return "package"
	case token.IMPORT:
		return "import"
	case token.LPAREN:
		return "lparen"
	case token.RPAREN:
		return "rparen"
	case token.PERIOD:
		return "period"
	case token.IDENT:
		return "ident"
	case token.TYPE:
		return "type"
	case token.CONST:
		return "const"
	case token.VAR:
		return "var"
	case token.FUNC:
		return "func"
	case token.LBRACE:
		return "lbrace"
	case token.ELLIPSIS:
		return "ellipsis"
	case token.COMMA:
		return "comma"
	}
	return "other"
}

// runAugment feeds pgo sources (one side of a patch body) to augment.Augment
// and emits the token stream go/scanner produces for the model.
func runAugment(cases []frontCase, outDir string) {
	cf, _ := os.Create(filepath.Join(outDir, "augment.cases"))
	rf, _ := os.Create(filepath.Join(outDir, "augment.impl"))
	cw, rw := bufio.NewWriter(cf), bufio.NewWriter(rf)
	defer func() { cw.Flush(); rw.Flush(); cf.Close(); rf.Close() }()
	hangs := 0
	for _, c := range cases {
		c := c
		src := []byte(c.Patch)
		// tokens
		fset := token.NewFileSet()
		file := fset.AddFile("src.go", -1, len(src))
		var s scanner.Scanner
		nerr := 0
		s.Init(file, src, func(token.Position, string) { nerr++ }, 0)
		var sb strings.Builder
		sb.WriteString("(case " + c.ID + " augment (hex \"" + hex.EncodeToString(src) + "\") (toks")
		for {
			p, t, _ := s.Scan()
			sb.WriteString(fmt.Sprintf(" (%s %d %d)", fndKind(t), file.Offset(p), file.Line(p)))
			if t == token.EOF {
				break
			}
		}
		sb.WriteString(")")
		if nerr > 0 {
			sb.WriteString(" (scanerr 1)")
		}
		sb.WriteString(")")
		fmt.Fprintln(cw, sb.String())

		if hangs >= 2 {
			fmt.Fprintln(rw, "(res "+c.ID+" (skipped))")
			continue
		}
		// implementation, under a watchdog (the scan used to spin on truncated input)
		type result struct{ line string }
		ch := make(chan result, 1)
		go func() {
			defer func() {
				if r := recover(); r != nil {
					ch <- result{"(res " + c.ID + " (panic))"}
				}
			}()
			out, augs, adjs, err := augment.Augment(src)
			if err != nil {
				ch <- result{"(res " + c.ID + " (err))"}
				return
			}
			var rs strings.Builder
			rs.WriteString("(res " + c.ID + " (src " + hex.EncodeToString(out) + ") (augs")
			for _, a := range augs {
				switch a := a.(type) {
				case *augment.FakePackage:
					rs.WriteString(fmt.Sprintf(" (pkg %d)", a.PackageStart))
				case *augment.FakeFunc:
					b := 0
					if a.Braces {
						b = 1
					}
					rs.WriteString(fmt.Sprintf(" (func %d %d)", a.FuncStart, b))
				case *augment.Dots:
					n := 0
					if a.Named {
						n = 1
					}
					rs.WriteString(fmt.Sprintf(" (dots %d %d %d)", a.DotsStart, a.DotsEnd, n))
				}
			}
			rs.WriteString(") (adjs")
			for _, a := range adjs {
				rs.WriteString(fmt.Sprintf(" (%d %d)", a.Offset, a.ReduceBy))
			}
			rs.WriteString("))")
			ch <- result{rs.String()}
		}()
		select {
		case r := <-ch:
			fmt.Fprintln(rw, r.line)
		case <-time.After(5 * time.Second):
			hangs++
			fmt.Fprintln(rw, "(res "+c.ID+" (hang))")
		}
	}
}
