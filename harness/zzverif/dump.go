//go:build verif

package main

import (
	"go/ast"
	"go/parser"
	"go/token"
	"os"
	"reflect"

	"golang.org/x/tools/go/ast/astutil"
	"sort"
	"strconv"
	"strings"
)

// dumper writes reflected go/ast values as S-expressions (see
// /verif/lean/GopatchModel/Sexp.lean for the reader).
type dumper struct {
	sb     strings.Builder
	ids    map[uintptr]int // pointer identity -> id; nil means "no identities" (id 0)
	nextID int
	posKey func(token.Pos) int
	canon  bool // canonical form: no ids, positions reduced to validity
	strip  bool // drop import declarations from File.Decls
	noObj  bool // print every *ast.Object as nil (whether the parser resolved an identifier is not syntax)
	noPos  bool // print every position as valid (only the shape of the tree is compared)
}

var (
	posType          = reflect.TypeOf(token.Pos(0))
	commentGroupType = reflect.TypeOf((*ast.CommentGroup)(nil))
	objectType       = reflect.TypeOf((*ast.Object)(nil))
	scopeType        = reflect.TypeOf((*ast.Scope)(nil))
	fileStructType   = reflect.TypeOf(ast.File{})
)

func esc(s string) string {
	var b strings.Builder
	for _, c := range s {
		switch c {
		case '"':
			b.WriteString(`\"`)
		case '\\':
			b.WriteString(`\\`)
		case '\n':
			b.WriteString(`\n`)
		case '\t':
			b.WriteString(`\t`)
		case '\r':
			b.WriteString(`\r`)
		default:
			b.WriteRune(c)
		}
	}
	return b.String()
}

func (d *dumper) w(s string) { d.sb.WriteString(s) }

func isImportDecl(v reflect.Value) bool {
	if v.Kind() == reflect.Interface && !v.IsNil() {
		if gd, ok := v.Interface().(*ast.GenDecl); ok && gd != nil && gd.Tok == token.IMPORT {
			return true
		}
	}
	return false
}

func (d *dumper) val(v reflect.Value) {
	t := v.Type()
	if t == posType {
		p := token.Pos(v.Int())
		if !p.IsValid() && !d.noPos {
			d.w("(p)")
		} else if d.canon {
			d.w("(P)")
		} else {
			d.w("(P " + strconv.Itoa(d.posKey(p)) + ")")
		}
		return
	}
	switch v.Kind() {
	case reflect.String:
		d.w(`"` + esc(v.String()) + `"`)
	case reflect.Int, reflect.Int8, reflect.Int16, reflect.Int32, reflect.Int64:
		d.w("(I " + strconv.FormatInt(v.Int(), 10) + ")")
	case reflect.Uint, reflect.Uint8, reflect.Uint16, reflect.Uint32, reflect.Uint64:
		d.w("(I " + strconv.FormatUint(v.Uint(), 10) + ")")
	case reflect.Bool:
		if v.Bool() {
			d.w("(B 1)")
		} else {
			d.w("(B 0)")
		}
	case reflect.Ptr:
		et := t.Elem().String()
		switch t {
		case commentGroupType, scopeType:
			d.w("(N " + et + ")")
			return
		case objectType:
			if v.IsNil() || d.noObj {
				d.w("(N " + et + ")")
			} else if d.canon {
				d.w("(S " + et + ")")
			} else {
				d.w("(S " + et + " 0)")
			}
			return
		}
		if v.IsNil() {
			d.w("(N " + et + ")")
			return
		}
		d.w("(S " + et)
		if !d.canon {
			id := 0
			if d.ids != nil {
				p := v.Pointer()
				var ok bool
				if id, ok = d.ids[p]; !ok {
					d.nextID++
					id = d.nextID
					d.ids[p] = id
				}
			}
			d.w(" " + strconv.Itoa(id))
		}
		s := v.Elem()
		if s.Kind() != reflect.Struct {
			d.w(" ")
			d.val(s)
			d.w(")")
			return
		}
		st := s.Type()
		for i := 0; i < s.NumField(); i++ {
			d.w(" ")
			f := s.Field(i)
			if st == fileStructType {
				switch st.Field(i).Name {
				case "Imports", "Unresolved", "Comments":
					d.w("(NL " + f.Type().Elem().String() + ")")
					continue
				case "Decls":
					if d.strip {
						d.w("(L " + f.Type().Elem().String())
						for j := 0; j < f.Len(); j++ {
							if isImportDecl(f.Index(j)) {
								continue
							}
							d.w(" ")
							d.val(f.Index(j))
						}
						d.w(")")
						continue
					}
				}
			}
			d.val(f)
		}
		d.w(")")
	case reflect.Interface:
		it := t.String()
		if v.IsNil() {
			d.w("(NI " + it + ")")
			return
		}
		d.w("(F " + it + " ")
		d.val(v.Elem())
		d.w(")")
	case reflect.Slice:
		et := t.Elem().String()
		if v.IsNil() {
			d.w("(NL " + et + ")")
			return
		}
		d.w("(L " + et)
		for i := 0; i < v.Len(); i++ {
			d.w(" ")
			d.val(v.Index(i))
		}
		d.w(")")
	default:
		d.w(`"<unsupported ` + t.String() + `>"`)
	}
}

func dumpImports(imps []*ast.ImportSpec, sorted bool) string {
	var items []string
	for _, s := range imps {
		name := ""
		if s.Name != nil {
			name = s.Name.Name
		}
		path, err := strconv.Unquote(s.Path.Value)
		if err != nil {
			path = s.Path.Value
		}
		items = append(items, `(imp "`+esc(name)+`" "`+esc(path)+`")`)
	}
	if sorted {
		sort.Strings(items)
	}
	if len(items) == 0 {
		return "(imports)"
	}
	return "(imports " + strings.Join(items, " ") + ")"
}

// canonFile prints the canonical observation of a file: package name, sorted
// import multiset, tree without import declarations.
func canonFile(f *ast.File) string {
	d := &dumper{canon: true, strip: true}
	d.val(reflect.ValueOf(f))
	return `(pkg "` + esc(f.Name.Name) + `") ` + dumpImports(f.Imports, true) + " (tree " + d.sb.String() + ")"
}

func canonFileNoObj(f *ast.File) string {
	d := &dumper{canon: true, strip: true, noObj: true}
	d.val(reflect.ValueOf(f))
	return `(pkg "` + esc(f.Name.Name) + `") ` + dumpImports(f.Imports, true) + " (tree " + d.sb.String() + ")"
}

// canonFileShape is canonFileNoObj without the validity of positions: the shape of the tree only.
func canonFileShape(f *ast.File) string {
	d := &dumper{canon: true, strip: true, noObj: true, noPos: true}
	d.val(reflect.ValueOf(f))
	return `(pkg "` + esc(f.Name.Name) + `") ` + dumpImports(f.Imports, true) + " (tree " + d.sb.String() + ")"
}

// canonOfFile parses a Go file and prints its canonical tree with redundant
// parentheses removed (go/printer adds them where precedence requires).
func canonOfFile(path string) string {
	bs, err := os.ReadFile(path)
	if err != nil {
		return "ERR read"
	}
	fset := token.NewFileSet()
	f, err := parser.ParseFile(fset, path, bs, parser.SkipObjectResolution)
	if err != nil {
		return "ERR parse"
	}
	astutil.Apply(f, nil, func(c *astutil.Cursor) bool {
		if p, ok := c.Node().(*ast.ParenExpr); ok {
			c.Replace(p.X)
		}
		return true
	})
	return canonFile(f)
}
