//go:build verif

package main

import (
	"fmt"
	"go/ast"
	"go/token"
	"os"
	"reflect"
	"regexp"
	"strconv"
	"strings"

	"github.com/uber-go/gopatch/internal/parse"
	"github.com/uber-go/gopatch/internal/pgo"
)

// A second, text-only oracle for the front end, for patches of any origin (corpora, tables, several changes): the patch
// is cut into changes and sides here, by lines and first characters only; for every change and side
//   - the package clause and the imports the text names must be those of the compiled side,
//   - the code pattern must be the independent parse of the side's text (expectedNode), when this oracle covers it,
//   - every elision of the compiled side must stand where the text has a "..." - on a line of this change and of this
//     side - and two elisions never at the same place.
// "1" all agree, "0" something does not, "?" nothing could be checked.

type sideText struct {
	lines []string // code lines of this side, package and import clauses removed
	nums  []int    // their line numbers in the patch file
	pkg   string
	imps  [][2]string // (name or "", path)
	inGroup bool
	all   map[int]string // every line of this side by number (for the position check)
	pre   map[int]int    // how many characters of the patch line precede that text (the '-', '+' or ' ')
}

type changeText struct {
	minus, plus sideText
	ok          bool
}

var (
	pkgLineRe = regexp.MustCompile(`^\s*package\s+(\w+)\s*$`)
	impOpenRe = regexp.MustCompile(`^\s*import\s*\(\s*$`)
	impSpecRe = regexp.MustCompile(`^\s*(?:([\w.]+)\s+)?("[^"]*")\s*;?\s*$`)
	impLineRe = regexp.MustCompile(`^\s*import\s+(?:([\w.]+)\s+)?("[^"]*"|` + "`[^`]*`" + `)\s*$`)
)

func splitChangesText(patch string) []changeText {
	lines := strings.Split(patch, "\n")
	var out []changeText
	i := 0
	for i < len(lines) {
		if !strings.HasPrefix(lines[i], "@") {
			i++
			continue
		}
		// header at i; the metavariable section ends at the next line that is exactly "@@"
		j := i + 1
		if lines[i] != "@@" || true {
			for j < len(lines) && strings.TrimRight(lines[j], " \t\r") != "@@" {
				j++
			}
		}
		if j >= len(lines) {
			break
		}
		k := j + 1
		for k < len(lines) && !strings.HasPrefix(lines[k], "@") {
			k++
		}
		ct := changeText{ok: true}
		ct.minus.all, ct.plus.all = map[int]string{}, map[int]string{}
		ct.minus.pre, ct.plus.pre = map[int]int{}, map[int]int{}
		for n := j + 1; n < k; n++ {
			l := lines[n]
			if strings.HasPrefix(strings.TrimLeft(l, " \t"), "#") {
				continue
			}
			if strings.ContainsAny(l, "`") {
				ct.ok = false // raw strings may span lines and hold anything
			}
			add := func(s *sideText, text string) {
				s.all[n+1] = text
				s.pre[n+1] = len(l) - len(text)
				if m := pkgLineRe.FindStringSubmatch(text); m != nil && len(s.lines) == 0 {
					s.pkg = m[1]
					return
				}
				if m := impLineRe.FindStringSubmatch(text); m != nil && len(s.lines) == 0 {
					p, err := strconv.Unquote(m[2])
					if err != nil {
						ct.ok = false
					}
					s.imps = append(s.imps, [2]string{m[1], p})
					return
				}
				if len(s.lines) == 0 && !s.inGroup && impOpenRe.MatchString(text) {
					s.inGroup = true
					return
				}
				if s.inGroup {
					t := strings.TrimSpace(text)
					if t == ")" {
						s.inGroup = false
						return
					}
					if t == "" {
						return
					}
					if m := impSpecRe.FindStringSubmatch(text); m != nil {
						p, err := strconv.Unquote(m[2])
						if err != nil {
							ct.ok = false
						}
						s.imps = append(s.imps, [2]string{m[1], p})
						return
					}
					ct.ok = false
					return
				}
				if strings.TrimSpace(text) == "" && len(s.lines) == 0 {
					return
				}
				s.lines = append(s.lines, text)
				s.nums = append(s.nums, n+1)
			}
			switch {
			case strings.HasPrefix(l, "-"):
				add(&ct.minus, l[1:])
			case strings.HasPrefix(l, "+"):
				add(&ct.plus, l[1:])
			case strings.HasPrefix(l, " "):
				add(&ct.minus, l[1:])
				add(&ct.plus, l[1:])
			default:
				add(&ct.minus, l)
				add(&ct.plus, l)
			}
		}
		out = append(out, ct)
		i = k
	}
	return out
}

func collectDotsPos(v reflect.Value, seen map[uintptr]bool, out *[]token.Pos) {
	switch v.Kind() {
	case reflect.Ptr:
		if v.IsNil() {
			return
		}
		if d, ok := v.Interface().(*pgo.Dots); ok {
			*out = append(*out, d.Dots)
			return
		}
		if _, ok := v.Interface().(*ast.Object); ok {
			return
		}
		if seen[v.Pointer()] {
			return
		}
		seen[v.Pointer()] = true
		collectDotsPos(v.Elem(), seen, out)
	case reflect.Interface:
		if !v.IsNil() {
			collectDotsPos(v.Elem(), seen, out)
		}
	case reflect.Slice:
		for i := 0; i < v.Len(); i++ {
			collectDotsPos(v.Index(i), seen, out)
		}
	case reflect.Struct:
		for i := 0; i < v.NumField(); i++ {
			collectDotsPos(v.Field(i), seen, out)
		}
	}
}

func frontGeneral(fset *token.FileSet, id string, patch string, pcs []*parse.Change) (res string) {
	defer func() {
		if recover() != nil {
			res = "?"
		}
	}()
	dbg := os.Getenv("VERIF_FRONT_DEBUG") != ""
	cts := splitChangesText(patch)
	if len(cts) != len(pcs) {
		return "?"
	}
	checked := false
	verdict := "1"
	fail := func(why string) {
		verdict = "0"
		if dbg {
			println("FRONTG-DIFF", id, why)
		}
	}
	for ci, pc := range pcs {
		ct := cts[ci]
		if !ct.ok {
			continue
		}
		for si, side := range []struct {
			f *pgo.File
			t sideText
		}{{pc.Patch.Minus, ct.minus}, {pc.Patch.Plus, ct.plus}} {
			if side.f == nil {
				continue
			}
			// package clause and imports
			if side.f.Package != side.t.pkg {
				fail(fmt.Sprintf("change %d side %d: package %q, text says %q", ci, si, side.f.Package, side.t.pkg))
			}
			var got [][2]string
			for _, is := range side.f.Imports {
				name := ""
				if is.Name != nil {
					name = is.Name.Name
				}
				p, _ := strconv.Unquote(is.Path.Value)
				got = append(got, [2]string{name, p})
			}
			if fmt.Sprint(got) != fmt.Sprint(side.t.imps) {
				fail(fmt.Sprintf("change %d side %d: imports %v, text says %v", ci, si, got, side.t.imps))
			}
			checked = true
			// where the elisions stand
			var dots []token.Pos
			collectDotsPos(reflect.ValueOf(side.f.Node), map[uintptr]bool{}, &dots)
			seenAt := map[string]bool{}
			for _, p := range dots {
				pos := fset.Position(p)
				line, okl := side.t.all[pos.Line]
				key := fmt.Sprint(pos.Line, ":", pos.Column)
				// the column counts from the first character of the patch line, the '-', '+' or ' ' included
				col := pos.Column - 1 - side.t.pre[pos.Line]
				if !okl || col < 0 || col+3 > len(line) || line[col:col+3] != "..." {
					fail(fmt.Sprintf("change %d side %d: an elision is recorded at %s, where this side of this change has no \"...\"", ci, si, key))
				}
				if seenAt[key] {
					fail(fmt.Sprintf("change %d side %d: two elisions recorded at %s", ci, si, key))
				}
				seenAt[key] = true
			}
			// a line that is nothing but "..." (or "...,") is an elision whatever surrounds it: one must be recorded there
			lineHas := map[int]bool{}
			for _, p := range dots {
				lineHas[fset.Position(p).Line] = true
			}
			for _, n := range side.t.nums {
				t := strings.TrimSpace(side.t.all[n])
				if (t == "..." || t == "...,") && !lineHas[n] {
					fail(fmt.Sprintf("change %d side %d: line %d of the patch is an elision, the compiled side has none there", ci, si, n))
				}
			}
			// the code pattern
			kind, gotNode, ok := implNode(side.f)
			if !ok || len(side.t.lines) == 0 {
				continue
			}
			want, ok := expectedNode(kind, strings.Join(side.t.lines, "\n")+"\n")
			if !ok {
				// the text is not what the compiled side is a kind of; if it is well-formed as something else (a statement
				// list where the compiled side is a single expression, say), part of the text never reached the pattern
				for _, other := range []string{"stmts", "expr", "decl"} {
					if other == kind || (other == "decl" && (kind == "gendecl" || kind == "funcdecl")) {
						continue
					}
					if w2, ok2 := expectedNode(other, strings.Join(side.t.lines, "\n")+"\n"); ok2 && !(kind == "stmts" && other == "expr") {
						if kind == "expr" && other == "stmts" && w2.Kind() == reflect.Slice && w2.Len() == 1 {
							if _, isExpr := w2.Index(0).Interface().(*ast.ExprStmt); isExpr {
								continue // a statement list of one expression statement (written in braces, say) is an expression pattern
							}
						}
						fail(fmt.Sprintf("change %d side %d: the text is a %s, the compiled side is a %s", ci, si, other, kind))
						break
					}
				}
				continue
			}
			if canonValue(gotNode) != canonValue(want) {
				fail(fmt.Sprintf("change %d side %d: pattern differs from the parse of its text\n  got:  %s\n  want: %s", ci, si, canonValue(gotNode), canonValue(want)))
			}
		}
	}
	if !checked {
		return "?"
	}
	return verdict
}

// rejectedForAnElision: the front end refused the patch with a syntax complaint about a "..." (go/parser's "found
// '...'"), while, by the text alone, every "..." of every side stands where an elision may stand (a line of its own in
// a statement list or field list, or a whole argument / element) and the side is well-formed Go once they are replaced
// by a name.  Such a patch has to be accepted.
func rejectedForAnElision(patch string, err error) (res bool) {
	defer func() {
		if recover() != nil {
			res = false
		}
	}()
	if err == nil || !strings.Contains(err.Error(), "found '...'") {
		return false
	}
	cts := splitChangesText(patch)
	if len(cts) == 0 {
		return false
	}
	for _, ct := range cts {
		if !ct.ok {
			return false
		}
		for _, s := range []sideText{ct.minus, ct.plus} {
			if len(s.lines) == 0 {
				continue
			}
			text := strings.Join(s.lines, "\n") + "\n"
			good := false
			for _, kind := range []string{"stmts", "expr", "decl"} {
				if _, ok := expectedNode(kind, text); ok {
					good = true
					break
				}
			}
			if !good {
				return false
			}
		}
	}
	return true
}
