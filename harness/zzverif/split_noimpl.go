//go:build verif && nosplit

package main

import "github.com/uber-go/gopatch/internal/parse/section"

// implSplit: built against a tree whose package parse has no splitPatch of the known shape (the overlay file did not
// compile): nothing to observe.
func implSplit(sec section.Section) (mc []byte, ml []section.LinePos, pc []byte, pl []section.LinePos, ok bool) {
	return nil, nil, nil, nil, false
}
