//go:build verif && !nosplit

package main

import (
	"github.com/uber-go/gopatch/internal/parse"
	"github.com/uber-go/gopatch/internal/parse/section"
)

// implSplit: the implementation's splitPatch, through the file that the overlay adds to package parse.
func implSplit(sec section.Section) (mc []byte, ml []section.LinePos, pc []byte, pl []section.LinePos, ok bool) {
	mc, ml, pc, pl = parse.VerifSplitPatch(sec)
	return mc, ml, pc, pl, true
}
