//go:build verif

package main

import (
	"fmt"
	"go/ast"
	"go/parser"
	"go/token"
	"reflect"
	"sort"
	"strconv"
	"strings"

	"github.com/uber-go/gopatch/internal/engine"
	"github.com/uber-go/gopatch/internal/parse"
	"github.com/uber-go/gopatch/internal/pgo"
)

// Case is one (patches, file) input.
type Case struct {
	ID      string   `json:"id"`
	Patches []string `json:"patches"`
	Src     string   `json:"src"`
	Note    string   `json:"note,omitempty"`
	Chain   []string `json:"chain,omitempty"` // the individual changes, in order
	// what the generator meant the single change of Patches[0] to be: the text of each side with "..." for
	// elisions, and the kind of fragment (expr | stmts | funcdecl | gendecl); empty when not applicable
	MinusText string `json:"minus_text,omitempty"`
	PlusText  string `json:"plus_text,omitempty"`
	FragKind  string `json:"frag_kind,omitempty"`
}

func lcKey(fset *token.FileSet) func(token.Pos) int {
	return func(p token.Pos) int {
		pos := fset.Position(p)
		return pos.Line<<20 | (pos.Column & 0xfffff)
	}
}

func dumpPFile(fset *token.FileSet, f *pgo.File) (string, bool) {
	d := &dumper{posKey: lcKey(fset)}
	kind := ""
	switch n := f.Node.(type) {
	case *pgo.Expr:
		kind = "expr"
		d.val(reflect.ValueOf(n.Expr))
	case *pgo.GenDecl:
		kind = "gendecl"
		d.val(reflect.ValueOf(n.GenDecl))
	case *pgo.FuncDecl:
		kind = "funcdecl"
		d.val(reflect.ValueOf(n.FuncDecl))
	case *pgo.StmtList:
		kind = "stmts"
		d.val(reflect.ValueOf(n.List))
	default:
		return "", false
	}
	return fmt.Sprintf(`(pkg "%s") %s (kind %s) (node %s)`, esc(f.Package), dumpImports(f.Imports, false), kind, d.sb.String()), true
}

// dumpMeta writes the metavariables a change declares, as the parsed patch
// states them (not the engine's compiled table, which is under test).
func dumpMeta(m *parse.Meta) string {
	kinds := map[string]string{}
	var names []string
	if m != nil {
		for _, d := range m.Vars {
			k := "e"
			if d.Type != nil && d.Type.Name == "identifier" {
				k = "i"
			}
			for _, n := range d.Names {
				if n.Name == "_" {
					// as in a Go var declaration, the blank identifier declares nothing: a "_" in the patch is
					// ordinary code and matches only "_"
					continue
				}
				if _, dup := kinds[n.Name]; !dup {
					names = append(names, n.Name)
				}
				kinds[n.Name] = k
			}
		}
	}
	sort.Strings(names)
	var sb strings.Builder
	sb.WriteString("(meta")
	for _, n := range names {
		sb.WriteString(` ("` + esc(n) + `" ` + kinds[n] + ")")
	}
	sb.WriteString(")")
	return sb.String()
}

// siteCount digs the number of recorded match sites out of the match data, if
// the (unexported) record still has an exported field called Matches.
func siteCount(d interface {
	Keys() []any
	Value(any) any
}) string {
	defer func() { _ = recover() }()
	for _, k := range d.Keys() {
		v := reflect.ValueOf(d.Value(k))
		if v.Kind() == reflect.Struct {
			if m := v.FieldByName("Matches"); m.IsValid() && m.Kind() == reflect.Slice {
				return strconv.Itoa(m.Len())
			}
		}
	}
	return "?"
}

type engineOut struct {
	caseLine string // for the model; empty if the case cannot be expressed
	resLine  string // implementation observation
	origLine string // canonical form of the input file
	skip     string // why the case was skipped, if it was
	matched  bool
	failed   bool
	nchanges int
}

// runEngineCase parses and compiles the patches, dumps everything the model
// needs, then runs the real engine (Match/Replace per change, in order, on the
// same *ast.File, exactly as main.go's patchRunner.Apply does).
func runEngineCase(c Case) (out engineOut) {
	defer func() {
		// a panic outside the guarded Match/Replace loop (parsing or compiling the patch)
		if r := recover(); r != nil {
			out = engineOut{skip: "panic: " + fmt.Sprint(r)}
		}
	}()
	fset := token.NewFileSet()
	var changes []*engine.Change
	var pchanges []*parse.Change
	for i, p := range c.Patches {
		name := fmt.Sprintf("p%d.patch", i)
		prog, err := parse.Parse(fset, name, []byte(p))
		if err != nil {
			out.skip = "patch-parse: " + err.Error()
			if rejectedForAnElision(p, err) {
				out.skip = "front-reject: " + err.Error()
			}
			return
		}
		eprog, err := engine.Compile(fset, prog)
		if err != nil {
			out.skip = "patch-compile: " + err.Error()
			return
		}
		changes = append(changes, eprog.Changes...)
		pchanges = append(pchanges, prog.Changes...)
	}
	f, err := parser.ParseFile(fset, "a.go", c.Src, parser.AllErrors|parser.ParseComments)
	if err != nil {
		out.skip = "src-parse: " + err.Error()
		return
	}
	out.nchanges = len(changes)
	front := "?"
	if c.FragKind != "" && len(pchanges) == 1 {
		front = frontVerdict(fset, pchanges[0], c)
	}
	// the text-only oracle, for patches of any origin: one patch file per entry of c.Patches
	if front != "0" {
		off := 0
		for _, ptxt := range c.Patches {
			n := len(splitChangesText(ptxt))
			if off+n > len(pchanges) {
				break
			}
			switch frontGeneral(fset, c.ID, ptxt, pchanges[off:off+n]) {
			case "0":
				front = "0"
			case "1":
				if front == "?" {
					front = "1"
				}
			}
			off += n
		}
	}

	var sb strings.Builder
	sb.WriteString("(case " + c.ID + " engine (changes")
	key := lcKey(fset)
	for _, pc := range pchanges {
		minus, ok1 := dumpPFile(fset, pc.Patch.Minus)
		plus, ok2 := dumpPFile(fset, pc.Patch.Plus)
		if !ok1 || !ok2 {
			out.skip = "unknown pgo node"
			return
		}
		sb.WriteString(" (change " + dumpMeta(pc.Meta) + " (minus " + minus + ") (plus " + plus + ")" +
			" (start " + strconv.Itoa(key(implicitStart(pc.Patch.Pos()))) + ") (end " + strconv.Itoa(key(pc.Patch.End())) + "))")
	}
	fd := &dumper{ids: map[uintptr]int{}, posKey: func(p token.Pos) int { return int(p) }}
	fd.val(reflect.ValueOf(f))
	sb.WriteString(`) (file (pkg "` + esc(f.Name.Name) + `") ` + dumpImports(f.Imports, false) +
		" (tree " + fd.sb.String() + ") (next " + strconv.Itoa(fd.nextID+1) + ")))")
	out.caseLine = sb.String()
	out.origLine = "(orig " + c.ID + " " + canonFile(f) + ")"

	// implementation side
	var trace []string
	res := func() (s string) {
		defer func() {
			if r := recover(); r != nil {
				// patchRunner.Apply and patch.File.Apply recover panics raised while a file is
				// being patched and report them as an error for that file
				trace = append(trace, "e")
				out.failed = true
				s = `(err "recovered panic: ` + esc(fmt.Sprint(r)) + `")`
			}
		}()
		for _, ch := range changes {
			d, ok := ch.Match(f)
			if !ok {
				trace = append(trace, "n")
				continue
			}
			cl := engine.NewChangelog()
			fout, err := ch.Replace(d, cl)
			if err != nil {
				trace = append(trace, "e")
				out.failed = true
				return `(err "` + esc(err.Error()) + `")`
			}
			out.matched = true
			trace = append(trace, "k"+siteCount(d))
			f = fout
		}
		return "(ok) " + canonFile(f)
	}()
	out.resLine = "(res " + c.ID + " (trace " + strings.Join(trace, " ") + ") (front " + front + ") " + res + ")"
	return
}

// implicitStart is the position the engine gives the "..." implied in front of the statements of a patch:
// the position before the patch body starts (see implicitDotsPos in internal/engine/stmt_list.go).
func implicitStart(p token.Pos) token.Pos {
	if p > 1 {
		return p - 1
	}
	return p
}

var _ = ast.Inspect
