//go:build verif

// Command zzverif is the implementation-side driver of the /verif
// correspondence checks. It is injected into the gopatch module with
// `go build -tags verif -overlay` and is never committed to /repo.
package main

import (
	"bufio"
	"encoding/json"
	"flag"
	"fmt"
	"os"
	"path/filepath"
	"sort"
	"strings"
	"time"
)

func fatal(err error) {
	fmt.Fprintln(os.Stderr, "zzverif:", err)
	os.Exit(2)
}

// readTxtar splits a testdata file into its named sections.
func readTxtar(path string) (map[string]string, []string, error) {
	bs, err := os.ReadFile(path)
	if err != nil {
		return nil, nil, err
	}
	files := map[string]string{}
	var order []string
	var cur string
	var sb strings.Builder
	flush := func() {
		if cur != "" {
			files[cur] = sb.String()
		}
		sb.Reset()
	}
	for _, line := range strings.SplitAfter(string(bs), "\n") {
		t := strings.TrimSpace(line)
		if strings.HasPrefix(t, "-- ") && strings.HasSuffix(t, " --") {
			flush()
			cur = strings.TrimSpace(t[3 : len(t)-3])
			order = append(order, cur)
			continue
		}
		if cur != "" {
			sb.WriteString(line)
		}
	}
	flush()
	return files, order, nil
}

// goldenCases builds engine cases from /repo/testdata.
func goldenCases(repo string) []Case {
	var cases []Case
	entries, _ := os.ReadDir(filepath.Join(repo, "testdata"))
	for _, e := range entries {
		if e.IsDir() || strings.HasSuffix(e.Name(), ".md") {
			continue
		}
		files, order, err := readTxtar(filepath.Join(repo, "testdata", e.Name()))
		if err != nil {
			continue
		}
		var patches []string
		for _, n := range order {
			if strings.HasSuffix(n, ".patch") {
				body := files[n]
				if t := strings.TrimSpace(body); strings.HasPrefix(t, "=>") {
					bs, err := os.ReadFile(filepath.Join(repo, strings.TrimSpace(t[2:])))
					if err != nil {
						continue
					}
					body = string(bs)
				}
				patches = append(patches, body)
			}
		}
		for _, n := range order {
			if strings.HasSuffix(n, ".in.go") {
				cases = append(cases, Case{
					ID:      "golden/" + e.Name() + "/" + strings.TrimSuffix(n, ".in.go"),
					Patches: patches,
					Src:     files[n],
				})
			}
		}
	}
	sort.Slice(cases, func(i, j int) bool { return cases[i].ID < cases[j].ID })
	return cases
}

func main() {
	if len(os.Args) < 2 {
		fatal(fmt.Errorf("usage: zzverif <cmd> [flags]"))
	}
	cmd := os.Args[1]
	fs := flag.NewFlagSet(cmd, flag.ExitOnError)
	repo := fs.String("repo", "/repo", "path of the gopatch checkout")
	outDir := fs.String("out", ".", "output directory")
	seed := fs.Int64("seed", 1, "PRNG seed")
	n := fs.Int("n", 100, "number of generated cases")
	inputs := fs.String("inputs", "", "JSONL file of cases to run instead of generating")
	mode := fs.String("mode", "mix", "generator mode")
	rep := fs.Int("rep", 2, "api: sequential repetitions")
	conc := fs.Int("conc", 0, "api: concurrent calls")
	golden := fs.Bool("golden", true, "include the cases of /repo/testdata")
	_ = fs.Parse(os.Args[2:])

	switch cmd {
	case "engine":
		var cases []Case
		if *inputs != "" {
			cases = readCases(*inputs)
		} else {
			if *golden {
				cases = append(cases, goldenCases(*repo)...)
			}
			cases = append(cases, genEngineCases(*seed, *n, *mode)...)
		}
		runEngine(cases, *outDir)
	case "gen":
		var cases []Case
		if *golden {
			cases = append(cases, goldenCases(*repo)...)
		}
		cases = append(cases, genEngineCases(*seed, *n, *mode)...)
		w := bufio.NewWriter(os.Stdout)
		for _, c := range cases {
			bs, _ := json.Marshal(c)
			w.Write(bs)
			w.WriteByte('\n')
		}
		w.Flush()
	case "augment":
		runAugment(readFrontCases(*inputs), *outDir)
	case "front":
		runFront(readFrontCases(*inputs), *outDir)
	case "split":
		runSplit(readFrontCases(*inputs), *outDir)
	case "comments":
		// file names on stdin -> (case ID generated (groups ...) (doc ...)) lines
		sc := bufio.NewScanner(os.Stdin)
		for sc.Scan() {
			fmt.Println(commentCase(sc.Text()))
		}
	case "api":
		runAPI(readCases(*inputs), *rep, *conc)
	case "intervals":
		runIntervals(readCases(*inputs), *outDir)
	case "apiseq":
		runAPISeq(*inputs)
	case "astdiff":
		runAstdiff(readCases(*inputs), *outDir)
	case "commentcheck":
		runCommentCheck(*inputs)
	case "canon":
		// file names on stdin -> canonical tree (parentheses elided) or ERR
		sc := bufio.NewScanner(os.Stdin)
		for sc.Scan() {
			fmt.Println(canonOfFile(sc.Text()))
		}
	case "parses":
		// reads file names from stdin, prints 1/0 per line
		sc := bufio.NewScanner(os.Stdin)
		for sc.Scan() {
			bs, err := os.ReadFile(sc.Text())
			if err == nil && parses(string(bs)) {
				fmt.Println("1")
			} else {
				fmt.Println("0")
			}
		}
	case "schema":
		runSchema()
	case "stable":
		runStable(readCases(*inputs))
	default:
		fatal(fmt.Errorf("unknown command %q", cmd))
	}
}

func readCases(path string) []Case {
	f, err := os.Open(path)
	if err != nil {
		fatal(err)
	}
	defer f.Close()
	var cases []Case
	sc := bufio.NewScanner(f)
	sc.Buffer(make([]byte, 1<<20), 1<<28)
	for sc.Scan() {
		if len(strings.TrimSpace(sc.Text())) == 0 {
			continue
		}
		var c Case
		if err := json.Unmarshal(sc.Bytes(), &c); err != nil {
			fatal(err)
		}
		cases = append(cases, c)
	}
	return cases
}

func runEngine(cases []Case, outDir string) {
	cf, err := os.Create(filepath.Join(outDir, "engine.cases"))
	if err != nil {
		fatal(err)
	}
	rf, _ := os.Create(filepath.Join(outDir, "engine.impl"))
	jf, _ := os.Create(filepath.Join(outDir, "engine.inputs.jsonl"))
	of, _ := os.Create(filepath.Join(outDir, "engine.orig"))
	cw, rw, jw, ow := bufio.NewWriter(cf), bufio.NewWriter(rf), bufio.NewWriter(jf), bufio.NewWriter(of)
	stats := map[string]int{}
	hangs := 0
	for _, c := range cases {
		var out engineOut
		if hangs >= 2 {
			out.skip = "not-run: earlier cases did not terminate"
		} else {
			done := make(chan engineOut, 1)
			go func(c Case) { done <- runEngineCase(c) }(c)
			select {
			case out = <-done:
			case <-time.After(10 * time.Second):
				hangs++
				stats["hang"]++
				out.skip = "hang: the case did not terminate within 10 s"
			}
		}
		if out.skip != "" {
			stats["skipped"]++
			stats["skip:"+strings.SplitN(out.skip, ":", 2)[0]]++
			if strings.HasPrefix(out.skip, "panic:") {
				stats["panic"]++
			}
			c.Note += " skipped: " + out.skip
		} else {
			stats["run"]++
			if out.matched {
				stats["matched"]++
			}
			if out.failed {
				stats["failed"]++
			}
			fmt.Fprintln(cw, out.caseLine)
			fmt.Fprintln(rw, out.resLine)
			fmt.Fprintln(ow, out.origLine)
		}
		bs, _ := json.Marshal(c)
		jw.Write(bs)
		jw.WriteByte('\n')
	}
	cw.Flush()
	rw.Flush()
	jw.Flush()
	ow.Flush()
	of.Close()
	cf.Close()
	rf.Close()
	jf.Close()
	bs, _ := json.Marshal(stats)
	fmt.Println(string(bs))
}
