//go:build verif

package main

import (
	"go/parser"
	"go/token"
	"os"
	"path/filepath"
	"strings"
)

// commentCase extracts the comment structure that decides generated-ness.
func commentCase(path string) string {
	id := strings.TrimSuffix(filepath.Base(path), ".go")
	bs, err := os.ReadFile(path)
	if err != nil {
		return "(case " + id + " generated (groups))"
	}
	fset := token.NewFileSet()
	f, err := parser.ParseFile(fset, path, bs, parser.ParseComments)
	if err != nil {
		return "(case " + id + " generated (groups))"
	}
	var sb strings.Builder
	sb.WriteString("(case " + id + " generated (groups")
	for _, g := range f.Comments {
		sb.WriteString(" (")
		for i, c := range g.List {
			if i > 0 {
				sb.WriteString(" ")
			}
			before := "0"
			if c.Pos() <= f.Package {
				before = "1"
			}
			// ast.IsGenerated looks at the individual lines of // comments only
			sb.WriteString(`(c "` + esc(c.Text) + `" ` + before + ")")
		}
		sb.WriteString(")")
	}
	sb.WriteString(")")
	if f.Doc != nil {
		sb.WriteString(" (doc")
		for _, c := range f.Doc.List {
			sb.WriteString(` (c "` + esc(c.Text) + `" 1)`)
		}
		sb.WriteString(")")
	}
	sb.WriteString(")")
	return sb.String()
}
