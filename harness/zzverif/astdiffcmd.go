//go:build verif

package main

import (
	"bufio"
	"fmt"
	"go/ast"
	"go/parser"
	"go/token"
	"os"
	"path/filepath"
	"sort"
	"strings"

	"github.com/uber-go/gopatch/internal/astdiff"
	"github.com/uber-go/gopatch/internal/engine"
	"github.com/uber-go/gopatch/internal/parse"
)

// recChangelog records the calls astdiff makes.
type recChangelog struct{ calls [][2]int }

func (r *recChangelog) Changed(pos, end token.Pos) {
	r.calls = append(r.calls, [2]int{int(pos), int(end)})
}

// verifCleanup is cleanupFilePos of main.go without the line merging: the
// comments inside the changed intervals leave their groups, emptied groups
// leave the file. The snapshots of the following change see that state.
func verifCleanup(cl engine.Changelog, comments []*ast.CommentGroup) []*ast.CommentGroup {
	for _, dr := range cl.ChangedIntervals() {
		if dr.Start == token.NoPos {
			continue
		}
		for _, cg := range comments {
			var list []*ast.Comment
			for _, c := range cg.List {
				if c.Pos() >= dr.Start && c.End() <= dr.End {
					continue
				}
				list = append(list, c)
			}
			cg.List = list
		}
	}
	kept := comments[:0]
	for _, cg := range comments {
		if len(cg.List) > 0 {
			kept = append(kept, cg)
		}
	}
	return kept
}

// runAstdiff replays the loop of patchRunner.Apply and, for every change that
// applies, hands the model the snapshot before the change, the snapshot
// Snapshot.Diff returns, and records the Changed calls Diff made.
func runAstdiff(cases []Case, outDir string) {
	cf, _ := os.Create(filepath.Join(outDir, "astdiff.cases"))
	rf, _ := os.Create(filepath.Join(outDir, "astdiff.impl"))
	lf, _ := os.Create(filepath.Join(outDir, "changelog.cases"))
	cw, rw, lw := bufio.NewWriterSize(cf, 1<<20), bufio.NewWriterSize(rf, 1<<20), bufio.NewWriterSize(lf, 1<<20)
	defer func() { cw.Flush(); rw.Flush(); lw.Flush(); cf.Close(); rf.Close(); lf.Close() }()
	for _, c := range cases {
		if len(c.Patches) == 0 || len(c.Src) > 6000 {
			continue
		}
		func() {
			defer func() { _ = recover() }()
			fset := token.NewFileSet()
			var changes []*engine.Change
			for k, p := range c.Patches {
				prog, err := parse.Parse(fset, fmt.Sprintf("p%d.patch", k), []byte(p))
				if err != nil {
					return
				}
				eprog, err := engine.Compile(fset, prog)
				if err != nil {
					return
				}
				changes = append(changes, eprog.Changes...)
			}
			f, err := parser.ParseFile(fset, "a.go", c.Src, parser.AllErrors|parser.ParseComments)
			if err != nil {
				return
			}
			snap := astdiff.Before(f, ast.NewCommentMap(fset, f, f.Comments))
			step := 0
			for _, ch := range changes {
				d, ok := ch.Match(f)
				if !ok {
					continue
				}
				cl := engine.NewChangelog()
				fout, err := ch.Replace(d, cl)
				if err != nil {
					return
				}
				var from, to strings.Builder
				snap.VerifDump(&from)
				rec := &recChangelog{}
				next := snap.Diff(fout, rec)
				next.VerifDump(&to)
				id := fmt.Sprintf("%s.%d", c.ID, step)
				groups := ""
				if step == 0 {
					// every comment group of the file is handed to astdiff.Before through the comment map: the first
					// snapshot must hold each of them at some node
					var gb strings.Builder
					gb.WriteString(" (groups")
					for _, g := range f.Comments {
						if len(g.List) > 0 {
							fmt.Fprintf(&gb, " %d", int(g.Pos()))
						}
					}
					gb.WriteString(")")
					groups = gb.String()
				}
				fmt.Fprintf(cw, "(case %s astdiff (from %s) (to %s)%s)\n", id, from.String(), to.String(), groups)
				calls := rec.calls
				sort.SliceStable(calls, func(i, j int) bool { return calls[i][0] < calls[j][0] })
				var sb strings.Builder
				for _, x := range calls {
					fmt.Fprintf(&sb, " (%d %d)", x[0], x[1])
				}
				fmt.Fprintf(rw, "(res %s (changed%s))\n", id, sb.String())
				// what the real loop does next: the calls reach the changelog, the comments
				// inside the changed intervals are dropped
				_, minus := cl.VerifSets() // what Replace recorded as unchanged
				for _, x := range rec.calls {
					cl.Changed(token.Pos(x[0]), token.Pos(x[1]))
				}
				var cb strings.Builder
				fmt.Fprintf(&cb, "(case %s changelog (plus%s) (minus", id, sb.String())
				for _, x := range minus {
					fmt.Fprintf(&cb, " (%d %d)", x[0], x[1])
				}
				cb.WriteString(") (out")
				for _, iv := range cl.ChangedIntervals() {
					fmt.Fprintf(&cb, " (%d %d)", int(iv.Start), int(iv.End))
				}
				// where the file node begins (the "package" keyword): the comments above it end before it
				fmt.Fprintf(&cb, ") (filepos %d))", int(f.Package))
				fmt.Fprintln(lw, cb.String())
				snap = next
				f = fout
				f.Comments = verifCleanup(cl, f.Comments)
				step++
			}
		}()
	}
}
