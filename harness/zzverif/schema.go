//go:build verif

package main

import (
	"fmt"
	"go/ast"
	"go/token"
	"reflect"
	"sort"
	"strings"

	"github.com/uber-go/gopatch/internal/pgo"
)

// runSchema prints the static structure of go/ast (and pgo.Dots) as the
// reflection engine sees it: for every struct type reachable from *ast.File
// the static type of each field, and for every slice type the static type of
// its elements.  The Lean driver checks every dumped tree against it (wtv).
//
//	(schema (struct "ast.CallExpr" (iface "ast.Expr") pos (slice "ast.Expr") pos pos) ... (elem "ast.Expr" (iface "ast.Expr")) ...)
func runSchema() {
	structs := map[string][]string{}
	elems := map[string]string{}
	var visit func(t reflect.Type)
	tag := func(t reflect.Type) string {
		if t == reflect.TypeOf(token.Pos(0)) {
			return "pos"
		}
		switch t.Kind() {
		case reflect.String:
			return "str"
		case reflect.Bool:
			return "bool"
		case reflect.Int, reflect.Int8, reflect.Int16, reflect.Int32, reflect.Int64,
			reflect.Uint, reflect.Uint8, reflect.Uint16, reflect.Uint32, reflect.Uint64:
			return "int"
		case reflect.Ptr:
			return fmt.Sprintf("(ptr %q)", t.Elem().String())
		case reflect.Interface:
			return fmt.Sprintf("(iface %q)", t.String())
		case reflect.Slice:
			return fmt.Sprintf("(slice %q)", t.Elem().String())
		}
		return "str"
	}
	opaque := map[reflect.Type]bool{
		reflect.TypeOf(ast.CommentGroup{}): true, reflect.TypeOf(ast.Object{}): true, reflect.TypeOf(ast.Scope{}): true,
	}
	visit = func(t reflect.Type) {
		switch t.Kind() {
		case reflect.Ptr:
			visit(t.Elem())
		case reflect.Slice:
			if _, ok := elems[t.Elem().String()]; !ok {
				elems[t.Elem().String()] = tag(t.Elem())
				visit(t.Elem())
			}
		case reflect.Struct:
			name := t.String()
			if _, ok := structs[name]; ok || opaque[t] {
				return
			}
			var fs []string
			for i := 0; i < t.NumField(); i++ {
				fs = append(fs, tag(t.Field(i).Type))
			}
			structs[name] = fs
			for i := 0; i < t.NumField(); i++ {
				visit(t.Field(i).Type)
			}
		}
	}
	// every concrete node type: the interfaces Expr, Stmt, Decl, Spec are closed over these
	roots := []any{
		&ast.File{}, &pgo.Dots{}, &ast.Comment{},
		&ast.BadExpr{}, &ast.Ident{}, &ast.Ellipsis{}, &ast.BasicLit{}, &ast.FuncLit{}, &ast.CompositeLit{}, &ast.ParenExpr{},
		&ast.SelectorExpr{}, &ast.IndexExpr{}, &ast.IndexListExpr{}, &ast.SliceExpr{}, &ast.TypeAssertExpr{}, &ast.CallExpr{},
		&ast.StarExpr{}, &ast.UnaryExpr{}, &ast.BinaryExpr{}, &ast.KeyValueExpr{}, &ast.ArrayType{}, &ast.StructType{},
		&ast.FuncType{}, &ast.InterfaceType{}, &ast.MapType{}, &ast.ChanType{},
		&ast.BadStmt{}, &ast.DeclStmt{}, &ast.EmptyStmt{}, &ast.LabeledStmt{}, &ast.ExprStmt{}, &ast.SendStmt{}, &ast.IncDecStmt{},
		&ast.AssignStmt{}, &ast.GoStmt{}, &ast.DeferStmt{}, &ast.ReturnStmt{}, &ast.BranchStmt{}, &ast.BlockStmt{}, &ast.IfStmt{},
		&ast.CaseClause{}, &ast.SwitchStmt{}, &ast.TypeSwitchStmt{}, &ast.CommClause{}, &ast.SelectStmt{}, &ast.ForStmt{}, &ast.RangeStmt{},
		&ast.BadDecl{}, &ast.GenDecl{}, &ast.FuncDecl{}, &ast.ImportSpec{}, &ast.ValueSpec{}, &ast.TypeSpec{},
		&ast.Field{}, &ast.FieldList{},
	}
	for _, r := range roots {
		visit(reflect.TypeOf(r))
	}
	var sb strings.Builder
	sb.WriteString("(schema")
	var names []string
	for n := range structs {
		names = append(names, n)
	}
	sort.Strings(names)
	for _, n := range names {
		fmt.Fprintf(&sb, " (struct %q %s)", n, strings.Join(structs[n], " "))
	}
	names = names[:0]
	for n := range elems {
		names = append(names, n)
	}
	sort.Strings(names)
	for _, n := range names {
		fmt.Fprintf(&sb, " (elem %q %s)", n, elems[n])
	}
	sb.WriteString(")")
	fmt.Println(sb.String())
}
