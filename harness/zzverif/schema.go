//go:build verif

package main

func runSchema() {}
