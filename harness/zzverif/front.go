//go:build verif

package main

import (
	"strconv"
	"unicode"
	"bufio"
	"encoding/hex"
	"encoding/json"
	"fmt"
	"go/scanner"
	"go/token"
	"os"
	"path/filepath"
	"regexp"
	"strings"

	"github.com/uber-go/gopatch/internal/engine"
	"github.com/uber-go/gopatch/internal/parse"
	"github.com/uber-go/gopatch/internal/parse/section"
	"github.com/uber-go/gopatch/patch"
)

type frontCase struct {
	ID    string `json:"id"`
	Patch string `json:"patch"`
}

var posRe = regexp.MustCompile(`p\.patch:(\d+):(\d+): `)
var dupRe = regexp.MustCompile(`defined at p\.patch:(\d+):(\d+)`)

func classifyMsg(msg string) string {
	switch {
	case strings.Contains(msg, "invalid name"):
		return "badname"
	case strings.Contains(msg, `expected "@@" or "@ change_name @"`):
		return "badheader"
	case strings.Contains(msg, `unexpected EOF, expected "@@"`):
		return "eofmeta"
	case strings.Contains(msg, "at least one change"):
		return "nochange"
	case strings.Contains(msg, `expected "var"`):
		return "expectedVar"
	case strings.Contains(msg, "expected an identifier"):
		return "expectedIdent"
	case strings.Contains(msg, `expected ";" or a newline`):
		return "expectedSemi"
	case strings.Contains(msg, "unknown metavariable type"):
		return "unknownType"
	case strings.Contains(msg, "cannot define metavariable"):
		return "duplicate"
	case strings.Contains(msg, "patch cannot be empty"):
		return "emptypatch"
	}
	return "other"
}

func diagOf(err error) string {
	if err == nil {
		return ""
	}
	var sb strings.Builder
	text := err.Error()
	locs := posRe.FindAllStringSubmatchIndex(text, -1)
	for i, m := range locs {
		end := len(text)
		if i+1 < len(locs) {
			end = locs[i+1][0]
		}
		msg := text[m[1]:end]
		line, col := text[m[2]:m[3]], text[m[4]:m[5]]
		kind := classifyMsg(msg)
		sb.WriteString(" (" + line + " " + col + " " + kind)
		if kind == "duplicate" {
			if d := dupRe.FindStringSubmatch(msg); d != nil {
				sb.WriteString(" " + d[1] + " " + d[2])
			}
		}
		sb.WriteString(")")
	}
	return sb.String()
}

func lcOf(fset *token.FileSet, p token.Pos) string {
	if !p.IsValid() {
		return "none"
	}
	pos := fset.Position(p)
	return fmt.Sprintf("%d %d", pos.Line, pos.Column)
}

func tokKind(t token.Token) string {
	switch t {
	case token.VAR:
		return "var"
	case token.IDENT:
		return "ident"
	case token.COMMA:
		return ","
	case token.SEMICOLON:
		return ";"
	case token.EOF:
		return "eof"
	}
	return "other"
}

func runFront(cases []frontCase, outDir string) {
	cf, _ := os.Create(filepath.Join(outDir, "front.cases"))
	rf, _ := os.Create(filepath.Join(outDir, "front.impl"))
	cw, rw := bufio.NewWriter(cf), bufio.NewWriter(rf)
	defer func() { cw.Flush(); rw.Flush(); cf.Close(); rf.Close() }()
	for _, c := range cases {
		src := []byte(c.Patch)
		fset := token.NewFileSet()
		prog, serr := section.Split(fset, "p.patch", src)

		var cs strings.Builder
		// Go's Unicode tables for the runes outside ASCII that occur in the patch: a parameter of the model
		var uniL, uniD strings.Builder
		seen := map[rune]bool{}
		for _, r := range string(src) {
			if r >= 128 && !seen[r] {
				seen[r] = true
				if unicode.IsLetter(r) {
					uniL.WriteString(" " + strconv.Itoa(int(r)))
				}
				if unicode.IsDigit(r) {
					uniD.WriteString(" " + strconv.Itoa(int(r)))
				}
			}
		}
		cs.WriteString("(case " + c.ID + " front (hex \"" + hex.EncodeToString(src) + "\") (uniletters" + uniL.String() + ") (unidigits" + uniD.String() + ") (metas")
		var rs strings.Builder
		rs.WriteString("(res " + c.ID + " (serr" + diagOf(serr) + ") (changes")
		for _, ch := range prog {
			rs.WriteString(" (ch (hdr " + lcOf(fset, ch.HeaderPos) + `) "` + esc(ch.Name) + `" (meta`)
			for _, l := range ch.Meta {
				rs.WriteString(" (" + lcOf(fset, l.Pos()) + ` "` + esc(string(l.Text)) + `")`)
			}
			rs.WriteString(") (at " + lcOf(fset, ch.AtPos) + ") (patch")
			for _, l := range ch.Patch {
				rs.WriteString(" (" + lcOf(fset, l.Pos()) + ` "` + esc(string(l.Text)) + `")`)
			}
			rs.WriteString(") (comments")
			for _, cm := range ch.Comments {
				rs.WriteString(` "` + esc(cm) + `"`)
			}
			rs.WriteString("))")

			// tokens of the metavariable section, as go/scanner sees the scratch buffer
			contents, _ := section.ToBytes(ch.Meta)
			sf := token.NewFileSet()
			file := sf.AddFile("meta", -1, len(contents))
			var pending []int
			var s scanner.Scanner
			s.Init(file, contents, func(pos token.Position, msg string) { pending = append(pending, pos.Offset) }, 0)
			cs.WriteString(" (m")
			for {
				p, t, lit := s.Scan()
				cs.WriteString(fmt.Sprintf(` (t %d %s "%s"`, file.Offset(p), tokKind(t), esc(lit)))
				for _, o := range pending {
					cs.WriteString(fmt.Sprintf(" %d", o))
				}
				pending = nil
				cs.WriteString(")")
				if t == token.EOF {
					break
				}
			}
			cs.WriteString(")")
		}
		cs.WriteString("))")
		rs.WriteString(")")

		// full front end: which stage rejects the patch, and where
		stage, diag := "ok", ""
		fset2 := token.NewFileSet()
		func() {
			defer func() {
				if r := recover(); r != nil {
					stage, diag = "panic", ""
				}
			}()
			ast, perr := parse.Parse(fset2, "p.patch", src)
			if perr != nil {
				diag = diagOf(perr)
				switch {
				case serr != nil:
					stage = "section"
				case diag != "" && !strings.Contains(diag, "emptypatch"):
					stage = "meta"
				default:
					stage = "body"
				}
				if stage == "body" {
					diag = ""
				}
				return
			}
			if _, cerr := engine.Compile(fset2, ast); cerr != nil {
				stage, diag = "compile", diagOf(cerr)
			}
		}()
		rs.WriteString(" (diag " + stage + diag + ")")
		// library API: does the error name the patch file?
		named := "ok"
		func() {
			defer func() {
				if r := recover(); r != nil {
					named = "panic"
				}
			}()
			if _, err := patch.Parse("p.patch", src); err != nil {
				if strings.Contains(err.Error(), "p.patch") {
					named = "named"
				} else {
					named = "unnamed"
				}
				// the positions the library reports: they must be those of the front end itself
				for _, m := range apiPosRe.FindAllStringSubmatch(err.Error(), -1) {
					named += " (" + m[1] + " " + m[2] + ")"
				}
			}
		}()
		rs.WriteString(" (api " + named + "))")
		fmt.Fprintln(cw, cs.String())
		fmt.Fprintln(rw, rs.String())
	}
}

var apiPosRe = regexp.MustCompile(`p\.patch:(\d+):(\d+)`)

func readFrontCases(path string) []frontCase {
	f, err := os.Open(path)
	if err != nil {
		fatal(err)
	}
	defer f.Close()
	var cases []frontCase
	sc := bufio.NewScanner(f)
	sc.Buffer(make([]byte, 1<<20), 1<<28)
	for sc.Scan() {
		var c frontCase
		if err := json.Unmarshal(sc.Bytes(), &c); err != nil {
			fatal(err)
		}
		cases = append(cases, c)
	}
	return cases
}
