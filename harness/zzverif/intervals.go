//go:build verif

package main

import (
	"bufio"
	"fmt"
	"go/ast"
	"go/parser"
	"go/token"
	"os"
	"path/filepath"
	"sort"
	"strings"

	"github.com/uber-go/gopatch/internal/astdiff"
	"github.com/uber-go/gopatch/internal/engine"
	"github.com/uber-go/gopatch/internal/parse"
	"github.com/uber-go/gopatch/patch"
)

// runIntervals replays the Apply loop with the exported pieces (Match,
// Replace, astdiff, Changelog) to learn the changed intervals of every
// change, and runs the real patch.File.Apply to learn which comments are in
// the output. The model predicts the surviving comments from the intervals.
func runIntervals(cases []Case, outDir string) {
	cf, _ := os.Create(filepath.Join(outDir, "intervals.cases"))
	rf, _ := os.Create(filepath.Join(outDir, "intervals.impl"))
	cw, rw := bufio.NewWriter(cf), bufio.NewWriter(rf)
	defer func() { cw.Flush(); rw.Flush(); cf.Close(); rf.Close() }()
	for _, c := range cases {
		if len(c.Patches) != 1 {
			continue
		}
		func() {
			defer func() { _ = recover() }()
			fset := token.NewFileSet()
			prog, err := parse.Parse(fset, "p.patch", []byte(c.Patches[0]))
			if err != nil {
				return
			}
			eprog, err := engine.Compile(fset, prog)
			if err != nil {
				return
			}
			f, err := parser.ParseFile(fset, "a.go", c.Src, parser.AllErrors|parser.ParseComments)
			if err != nil {
				return
			}
			type cm struct {
				pos, end int
				text     string
			}
			var comments []cm
			for _, g := range f.Comments {
				for _, x := range g.List {
					if strings.TrimSpace(x.Text) != "//" {
						comments = append(comments, cm{int(x.Pos()), int(x.End()), x.Text})
					}
				}
			}
			// the extent of every top-level declaration of the input: from its doc comment (or its
			// first token) to the end of the comments trailing it on its last line
			declExtents := ""
			tf := fset.File(f.Pos())
			for _, d := range f.Decls {
				lo, hi := int(d.Pos()), int(d.End())
				var doc *ast.CommentGroup
				imp := 0
				switch x := d.(type) {
				case *ast.GenDecl:
					doc = x.Doc
					if x.Tok == token.IMPORT {
						imp = 1
					}
				case *ast.FuncDecl:
					doc = x.Doc
				}
				if doc != nil && len(doc.List) > 0 && int(doc.Pos()) < lo {
					lo = int(doc.Pos())
				}
				endLine := tf.Line(d.End())
				for _, g := range f.Comments {
					for _, x := range g.List {
						if x.Pos() >= d.End() && tf.Line(x.Pos()) == endLine && int(x.End()) > hi {
							hi = int(x.End())
						}
					}
				}
				declExtents += fmt.Sprintf(" (%d %d %d)", lo, hi, imp)
			}
			snap := astdiff.Before(f, ast.NewCommentMap(fset, f, f.Comments))
			var sb strings.Builder
			sb.WriteString("(case " + c.ID + " comments (changes")
			matched := false
			for _, ch := range eprog.Changes {
				d, ok := ch.Match(f)
				if !ok {
					continue
				}
				cl := engine.NewChangelog()
				fout, err := ch.Replace(d, cl)
				if err != nil {
					return
				}
				matched = true
				snap = snap.Diff(fout, cl)
				sb.WriteString(" (ivs")
				for _, iv := range cl.ChangedIntervals() {
					sb.WriteString(fmt.Sprintf(" (%d %d)", int(iv.Start), int(iv.End)))
				}
				sb.WriteString(")")
				// what cleanupFilePos does to the comment list (deleting comments inside the
				// intervals) is left to the real Apply below
			}
			if !matched {
				return
			}
			sb.WriteString(") (comments")
			for _, x := range comments {
				sb.WriteString(fmt.Sprintf(` (%d %d "%s")`, x.pos, x.end, esc(x.text)))
			}
			sb.WriteString(") (decls" + declExtents + "))")

			pf, err := patch.Parse("p.patch", []byte(c.Patches[0]))
			if err != nil {
				return
			}
			out, err := pf.Apply("a.go", []byte(c.Src))
			if err != nil {
				return
			}
			of, err := parser.ParseFile(token.NewFileSet(), "o.go", out, parser.ParseComments)
			if err != nil {
				return
			}
			var texts []string
			for _, g := range of.Comments {
				for _, x := range g.List {
					if strings.TrimSpace(x.Text) != "//" { // inserted by gofmt before directives
						texts = append(texts, x.Text)
					}
				}
			}
			sort.Strings(texts)
			var rs strings.Builder
			rs.WriteString("(res " + c.ID + " (survivors")
			for _, t := range texts {
				rs.WriteString(` "` + esc(t) + `"`)
			}
			rs.WriteString("))")
			fmt.Fprintln(cw, sb.String())
			fmt.Fprintln(rw, rs.String())
		}()
	}
}
