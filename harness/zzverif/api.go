//go:build verif

package main

import (
	"bufio"
	"encoding/json"
	"fmt"
	"os"
	"sync"
	"time"

	"github.com/uber-go/gopatch/patch"
)

type apiOut struct {
	ID         string `json:"id"`
	ParseErr   string `json:"parse_err,omitempty"`
	Err        string `json:"err,omitempty"`
	Out        string `json:"out"`
	RepeatSame bool   `json:"repeat_same"`
	ConcSame   bool   `json:"conc_same"`
	HeldSame   bool   `json:"held_same"`
	Panic      string `json:"panic,omitempty"`
	Hang       bool   `json:"hang,omitempty"`
	Skipped    bool   `json:"skipped,omitempty"`
}

func applyOnce(f *patch.File, name string, src []byte) (out string, errs string, pan string) {
	defer func() {
		if r := recover(); r != nil {
			pan = fmt.Sprint(r)
		}
	}()
	bs, err := f.Apply(name, src)
	if err != nil {
		return "", err.Error(), ""
	}
	return string(bs), "", ""
}

// runAPI exercises the library API: one Parse, then Apply once, `rep` more
// times sequentially, and `conc` times concurrently (interleaved with Apply
// calls on the other sources of the batch sharing the same parsed patch).
func runAPI(cases []Case, rep, conc int) {
	w := bufio.NewWriter(os.Stdout)
	defer w.Flush()
	hangs := 0
	for _, c := range cases {
		c := c
		o := apiOut{ID: c.ID, RepeatSame: true, ConcSame: true, HeldSame: true}
		if hangs >= 2 {
			o.Skipped = true
			bs, _ := json.Marshal(o)
			w.Write(bs)
			w.WriteByte('\n')
			continue
		}
		done := make(chan apiOut, 1)
		go func() {
			o := o
			func() {
				defer func() {
					if r := recover(); r != nil {
						o.Panic = fmt.Sprint(r)
					}
				}()
				if len(c.Patches) != 1 {
					o.ParseErr = "api stream uses single-patch cases"
					return
				}
				f, err := patch.Parse("p.patch", []byte(c.Patches[0]))
				if err != nil {
					o.ParseErr = err.Error()
					return
				}
				out, e, p := applyOnce(f, "a.go", []byte(c.Src))
				o.Out, o.Err, o.Panic = out, e, p
				// a caller may keep the bytes Apply returned while it goes on applying the same parsed patch to other
				// sources (with and without imports, matching and not): what it holds must not change under it
				var held []byte
				func() {
					defer func() { _ = recover() }()
					held, _ = f.Apply("a.go", []byte(c.Src))
				}()
				heldCopy := string(held)
				for _, other := range []string{
					"package q\n\nfunc zz() { foo(1); bar(2) }\n",
					"package q\n\nimport \"fmt\"\n\nfunc zz() { fmt.Println(foo(1)) }\n",
					c.Src + "\n// tail\n",
					"package q\n",
				} {
					applyOnce(f, "b.go", []byte(other))
				}
				if string(held) != heldCopy {
					o.HeldSame = false
				}
				for i := 0; i < rep; i++ {
					out2, e2, _ := applyOnce(f, "a.go", []byte(c.Src))
					if out2 != out || (e2 == "") != (e == "") {
						o.RepeatSame = false
					}
				}
				if conc > 0 {
					var wg sync.WaitGroup
					var mu sync.Mutex
					for i := 0; i < conc; i++ {
						wg.Add(1)
						go func(i int) {
							defer wg.Done()
							src := c.Src
							if i%3 == 2 {
								// an unrelated file processed concurrently
								src = "package other\n\nfunc unrelated() { _ = 1 }\n"
								applyOnce(f, fmt.Sprintf("o%d.go", i), []byte(src))
								return
							}
							out2, e2, _ := applyOnce(f, "a.go", []byte(src))
							if out2 != out || (e2 == "") != (e == "") {
								mu.Lock()
								o.ConcSame = false
								mu.Unlock()
							}
						}(i)
					}
					wg.Wait()
				}
			}()
			done <- o
		}()
		select {
		case o = <-done:
		case <-time.After(8 * time.Second):
			o.Hang = true
			hangs++
		}
		bs, _ := json.Marshal(o)
		w.Write(bs)
		w.WriteByte('\n')
	}
}
