//go:build verif

package engine

import "github.com/google/go-intervals/intervalset"

// VerifSets returns the intervals recorded as changed and as unchanged, as
// the two interval sets hold them (injected with -overlay by /verif; not
// part of the repository).
func (c Changelog) VerifSets() (plus, minus [][2]int) {
	c.plus.Intervals(func(i intervalset.Interval) bool {
		s := i.(*span)
		plus = append(plus, [2]int{int(s.Start), int(s.End)})
		return true
	})
	c.minus.Intervals(func(i intervalset.Interval) bool {
		s := i.(*span)
		minus = append(minus, [2]int{int(s.Start), int(s.End)})
		return true
	})
	return plus, minus
}
