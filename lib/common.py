"""Shared machinery for /verif/check: building, locking, running streams,
S-expression handling, evidence and verdict reporting."""
import fcntl, hashlib, json, os, re, shutil, subprocess, sys, time, glob
import sys as _sys, threading as _threading
_sys.setrecursionlimit(200000)      # trees of sources that nest hundreds of levels deep are walked recursively
_threading.stack_size(512 * 1024 * 1024)

VERIF = os.path.dirname(os.path.dirname(os.path.abspath(__file__)))
REPO = os.environ.get("VERIF_REPO", "/repo")
BUILD = os.path.join(VERIF, ".build")
if os.path.realpath(REPO) != "/repo":
    # a scratch tree (seeded change, refactoring): its binaries live apart so that runs do not clobber each other
    BUILD = os.path.join(VERIF, ".build", "alt-" + hashlib.sha256(os.path.realpath(REPO).encode()).hexdigest()[:10])
LOCKDIR = os.path.join(VERIF, ".build")
LEAN = os.path.join(VERIF, "lean")
DRIVER = os.path.join(LEAN, ".lake", "build", "bin", "modeldriver")
GOENV = dict(os.environ, GOFLAGS="-mod=mod", GOPROXY="off", GOSUMDB="off", GOTOOLCHAIN="local",
             CGO_ENABLED="0")

class Lock:
    def __init__(self, name):
        os.makedirs(LOCKDIR, exist_ok=True)
        self.path = os.path.join(LOCKDIR if name == "lean" else BUILD, name + ".lock")
        os.makedirs(os.path.dirname(self.path), exist_ok=True)
    def __enter__(self):
        self.f = open(self.path, "w")
        fcntl.flock(self.f, fcntl.LOCK_EX)
        return self
    def __exit__(self, *a):
        fcntl.flock(self.f, fcntl.LOCK_UN)
        self.f.close()

def run(cmd, **kw):
    kw.setdefault("stdout", subprocess.PIPE)
    kw.setdefault("stderr", subprocess.PIPE)
    kw.setdefault("text", True)
    kw.setdefault("timeout", 2400)       # nothing the checks start is meant to run longer; a step that hangs must not hang the check
    try:
        return subprocess.run(cmd, **kw)
    except subprocess.TimeoutExpired as e:
        # a step that does not end is a failed step for every caller (they all look at the return code)
        out = e.stdout if isinstance(e.stdout, str) else (e.stdout or b"").decode("utf-8", "replace") if kw.get("text") else (e.stdout or b"")
        return subprocess.CompletedProcess(cmd, 124, out, f"did not terminate within {kw.get('timeout')} s: {' '.join(map(str, cmd))[:300]}")

def tree_hash(paths):
    h = hashlib.sha256()
    for p in sorted(paths):
        h.update(p.encode())
        try:
            with open(p, "rb") as f:
                h.update(f.read())
        except OSError:
            pass
    return h.hexdigest()

def repo_sources():
    out = []
    for root, dirs, files in os.walk(REPO):
        dirs[:] = [d for d in dirs if d not in (".git",)]
        for f in files:
            if f.endswith(".go") or f in ("go.mod", "go.sum"):
                out.append(os.path.join(root, f))
    return out

class BuildError(Exception):
    pass

def build_go():
    """Build the gopatch binary and the harness from /repo's working tree.
    Cached by a hash of the Go sources of /repo and of the harness."""
    os.makedirs(BUILD, exist_ok=True)
    hsrc = sorted(glob.glob(os.path.join(VERIF, "harness", "zzverif", "*.go"))) + sorted(glob.glob(os.path.join(VERIF, "harness", "astdiff", "*.go"))) + \
           sorted(glob.glob(os.path.join(VERIF, "harness", "engine", "*.go"))) + sorted(glob.glob(os.path.join(VERIF, "harness", "parse", "*.go")))
    with Lock("go"):
        key = tree_hash(repo_sources() + hsrc)
        stamp = os.path.join(BUILD, "go.stamp")
        binp, harn = os.path.join(BUILD, "gopatch"), os.path.join(BUILD, "zzverif")
        if os.path.exists(stamp) and open(stamp).read() == key and os.path.exists(binp) and os.path.exists(harn) and \
                os.path.exists(os.path.join(BUILD, "schema.sx")):
            os.environ["VERIF_SCHEMA"] = os.path.join(BUILD, "schema.sx")
            return binp, harn
        for p in (binp, harn, stamp):
            if os.path.exists(p):
                os.remove(p)
        # the harness is a package of its own; harness/astdiff adds one file to package internal/astdiff (a dump of its
        # unexported snapshot values for the model) - all through -overlay, nothing is written to the tree
        ov = {"Replace": {os.path.join(REPO, "internal", os.path.basename(os.path.dirname(p)), os.path.basename(p)): p for p in hsrc}}
        ovp = os.path.join(BUILD, "overlay.json")
        with open(ovp, "w") as f:
            json.dump(ov, f)
        r = run(["go", "build", "-o", binp, "."], cwd=REPO, env=GOENV)
        if r.returncode != 0:
            raise BuildError("gopatch does not build:\n" + r.stderr)
        r = run(["go", "build", "-tags", "verif", "-overlay", ovp, "-o", harn, "./internal/zzverif"], cwd=REPO, env=GOENV)
        if r.returncode != 0 and "zz_verif_split.go" in r.stderr:
            # package parse has no splitPatch of the shape the overlay file calls (renamed, other signature): build without
            # that file; the split stream then cuts the versions itself and compares only where the elisions are recorded
            ov2 = {"Replace": {k: v for k, v in ov["Replace"].items() if not k.endswith("zz_verif_split.go")}}
            with open(ovp, "w") as f:
                json.dump(ov2, f)
            r = run(["go", "build", "-tags", "verif,nosplit", "-overlay", ovp, "-o", harn, "./internal/zzverif"], cwd=REPO, env=GOENV)
        if r.returncode != 0:
            raise BuildError("harness does not build against the tree:\n" + r.stderr)
        # the structure of go/ast as reflection shows it, for the driver's typing check (VERIF_SCHEMA)
        r = run([harn, "schema"])
        if r.returncode != 0 or not r.stdout.startswith("(schema"):
            raise BuildError("harness schema command failed:\n" + r.stderr[-1000:])
        with open(os.path.join(BUILD, "schema.sx"), "w") as f:
            f.write(r.stdout)
        with open(stamp, "w") as f:
            f.write(key)
        os.environ["VERIF_SCHEMA"] = os.path.join(BUILD, "schema.sx")
        return binp, harn

def build_race_harness():
    """The harness built with the race detector (cgo needed), cached like the other binaries; None if it cannot be built."""
    hsrc = sorted(glob.glob(os.path.join(VERIF, "harness", "zzverif", "*.go"))) + sorted(glob.glob(os.path.join(VERIF, "harness", "astdiff", "*.go"))) + \
           sorted(glob.glob(os.path.join(VERIF, "harness", "engine", "*.go"))) + sorted(glob.glob(os.path.join(VERIF, "harness", "parse", "*.go")))
    with Lock("go"):
        key = tree_hash(repo_sources() + hsrc)
        stamp = os.path.join(BUILD, "race.stamp")
        out = os.path.join(BUILD, "zzverif-race")
        if os.path.exists(stamp) and open(stamp).read() == key and os.path.exists(out):
            return out
        for p in (out, stamp):
            if os.path.exists(p):
                os.remove(p)
        ovp = os.path.join(BUILD, "overlay.json")
        r = run(["go", "build", "-race", "-tags", "verif", "-overlay", ovp, "-o", out, "./internal/zzverif"], cwd=REPO,
                env=dict(GOENV, CGO_ENABLED="1"))
        if r.returncode != 0:
            return None
        with open(stamp, "w") as f:
            f.write(key)
        return out

def build_lean(targets=()):
    """lake build of the model, the driver and the requested proof modules."""
    with Lock("lean"):
        r = run(["lake", "build", "GopatchModel", "modeldriver"] + list(targets), cwd=LEAN)
        if r.returncode != 0:
            raise BuildError("lake build failed:\n" + r.stdout[-4000:] + r.stderr[-2000:])
    return DRIVER

FORBIDDEN = re.compile(r"\b(sorry|admit|native_decide|bv_decide|implemented_by|unsafe)\b|^axiom |maxHeartbeats 0", re.M)
ALLOWED_AXIOMS = {"propext", "Classical.choice", "Quot.sound"}

def strip_lean_comments(src):
    src = re.sub(r"/-.*?-/", "", src, flags=re.S)
    src = re.sub(r"--.*", "", src)
    return src

def audit_proofs(pid):
    """Build Props/<pid>.lean, list its theorems, run #print axioms on each.
    Returns (obligations, discharged, details, problems)."""
    mod = f"GopatchModel.Props.{pid}"
    path = os.path.join(LEAN, "GopatchModel", "Props", pid + ".lean")
    problems = []
    if not os.path.exists(path):
        return 0, 0, [], [f"no proof module for {pid}"]
    try:
        build_lean([mod])
    except BuildError as e:
        return 0, 0, [], [str(e)]
    # forbidden constructs anywhere in the library
    for p in glob.glob(os.path.join(LEAN, "GopatchModel", "**", "*.lean"), recursive=True):
        m = FORBIDDEN.search(strip_lean_comments(open(p).read()))
        if m:
            problems.append(f"forbidden construct {m.group(0)!r} in {os.path.relpath(p, LEAN)}")
    src = strip_lean_comments(open(path).read())
    names = re.findall(r"^theorem\s+([A-Za-z0-9_.'?!]+)", src, re.M)
    ns = re.search(r"^namespace\s+(\S+)", src, re.M)
    prefix = (ns.group(1) + ".") if ns else ""
    audit = os.path.join(BUILD, f"audit_{pid}_{os.getpid()}.lean")
    with open(audit, "w") as f:
        f.write(f"import {mod}\n")
        for n in names:
            f.write(f"#print axioms {prefix}{n}\n")
    r = run(["lake", "env", "lean", audit], cwd=LEAN)
    os.remove(audit)
    details = []
    discharged = 0
    out = r.stdout + r.stderr
    for n in names:
        full = prefix + n
        m = re.search(r"'" + re.escape(full) + r"' (does not depend on any axioms|depends on axioms: \[([^\]]*)\])", out)
        if not m:
            problems.append(f"axiom audit failed for {full}")
            continue
        axs = set(a.strip() for a in (m.group(2) or "").split(",") if a.strip())
        bad = axs - ALLOWED_AXIOMS
        if bad:
            problems.append(f"{full} depends on unexpected axioms {sorted(bad)}")
            continue
        discharged += 1
        details.append({"theorem": full, "axioms": sorted(axs)})
    return len(names), discharged, details, problems

# ---------------------------------------------------------------------------
# S-expressions (canonical trees printed by both sides)

TOKEN = re.compile(r'\(|\)|"(?:[^"\\]|\\.)*"|[^\s()"]+')

def parse_sx(s):
    stack = [[]]
    for m in TOKEN.finditer(s):
        t = m.group(0)
        if t == "(":
            stack.append([])
        elif t == ")":
            x = stack.pop()
            stack[-1].append(x)
        else:
            stack[-1].append(t)
    return stack[0][0] if stack[0] else None

def sx_field(xs, key):
    for x in xs:
        if isinstance(x, list) and x and x[0] == key:
            return x[1:]
    return None

def tree_diff(a, b, path=()):
    """Top-most paths at which canonical trees a and b differ."""
    if a == b:
        return []
    if isinstance(a, list) and isinstance(b, list) and a and b and a[0] == b[0] and len(a) == len(b):
        tag = a[0]
        if tag == "S" and a[1] == b[1]:
            out = []
            for i in range(2, len(a)):
                out += tree_diff(a[i], b[i], path + (i - 2,))
            return out
        if tag == "F" and a[1] == b[1]:
            return tree_diff(a[2], b[2], path)
        if tag == "L" and a[1] == b[1]:
            out = []
            for i in range(2, len(a)):
                out += tree_diff(a[i], b[i], path + (i - 2,))
            return out
    return [path]

def subtree(a, path):
    for i in path:
        if isinstance(a, list) and a and a[0] == "F":
            a = a[2]
        if not isinstance(a, list) or i + 2 >= len(a):
            return None
        a = a[i + 2]
    return a

def covered(path, paths):
    return any(path[:len(p)] == p for p in paths)

# ---------------------------------------------------------------------------
# verdicts / evidence

def write_evidence(pid, tier, seed, level, coverage, assumptions, wall, violations):
    evdir = os.path.join(VERIF, "evidence")
    if os.path.realpath(REPO) != "/repo":
        evdir = os.path.join(BUILD, "evidence")   # runs against a scratch tree never touch the committed evidence
    os.makedirs(evdir, exist_ok=True)
    ev = {"property_id": pid, "tier": tier, "seed": seed, "level": level, "coverage": coverage,
          "assumptions": assumptions, "wall_s": round(wall, 2), "violations": violations}
    tmp = os.path.join(evdir, f".{pid}.{os.getpid()}.tmp")
    with open(tmp, "w") as f:
        json.dump(ev, f, indent=1)
    os.replace(tmp, os.path.join(evdir, pid + ".json"))

def write_replay(pid, payload):
    d = os.path.join(VERIF, "replays")
    os.makedirs(d, exist_ok=True)
    h = hashlib.sha256(json.dumps(payload, sort_keys=True).encode()).hexdigest()[:12]
    p = os.path.join(d, f"{pid}-{h}.json")
    with open(p, "w") as f:
        json.dump(payload, f, indent=1)
    return p

def load_known():
    p = os.path.join(VERIF, "known_findings.json")
    if not os.path.exists(p):
        return []
    return json.load(open(p))["findings"]

import itertools, threading
_scratch_counter = itertools.count()
_scratch_lock = threading.Lock()

def scratch(prefix):
    base = "/var/tmp" if os.path.isdir("/var/tmp") else "/tmp"
    with _scratch_lock:
        n = next(_scratch_counter)
    d = os.path.join(base, f"verif-{prefix}-{os.getpid()}-{n}")
    if os.path.exists(d):
        shutil.rmtree(d, ignore_errors=True)
    os.makedirs(d)
    return d
