#!/bin/sh
# usage: lib/sweep.sh <tier> <seed>...   -- runs every check on the current /repo tree; prints one line per check
cd "$(dirname "$0")/.." || exit 2
TIER="$1"; shift
./setup.sh >/dev/null 2>&1
for SEED in "$@"; do
  for P in C01 C02 C03 C04 C05 C06 C07 C08 C09 C10 C11 C12 C13 C14 C15 C16 C17 C18 C19; do
    OUT=$(./check $P --tier "$TIER" --seed "$SEED" 2>&1)
    echo "seed=$SEED $(echo "$OUT" | tail -1)"
    echo "$OUT" | grep '^VIOLATION' | while read -r L; do
      echo "   $L"
      F=$(echo "$L" | sed 's/.*replay=\([^ ]*\).*/\1/')
      [ -f "$F" ] && python3 -c "import json,sys; d=json.load(open('$F')); print('      ', str(d.get('what'))[:400]); print('      ', json.dumps(d.get('input', d.get('broken')))[:1500])"
    done
  done
done
