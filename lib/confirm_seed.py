#!/usr/bin/env python3
"""confirm_seed.py <src_dir> <property> [name]
Independently confirms a seeded change (patch.diff + demo) in a fresh scratch worktree of /repo:
builds, runs the unedited test suite, runs the demonstration with and without the change.
On success copies it to /verif/seeded/<name>/ with a 'confirmed' section in meta.json."""
import json, os, shutil, subprocess, sys, tempfile

ENV = dict(os.environ, GOFLAGS="-mod=mod", GOPROXY="off", GOSUMDB="off", GOTOOLCHAIN="local")

def sh(cmd, cwd, timeout=900):
    r = subprocess.run(cmd, cwd=cwd, shell=True, env=ENV, stdout=subprocess.PIPE, stderr=subprocess.STDOUT, text=True, timeout=timeout)
    return r.returncode, r.stdout

def run_demo(src, wt, meta):
    if os.path.exists(os.path.join(src, "demo.sh")):
        rc, out = sh("go build -o /var/tmp/seed-gopatch . ", wt)
        if rc != 0:
            return None, "build failed: " + out[-500:]
        first = open(os.path.join(src, "demo.sh")).readline()
        shell = "bash" if "bash" in first else "sh"
        rc, out = sh(f"{shell} {os.path.join(src, 'demo.sh')} /var/tmp/seed-gopatch", wt, timeout=300)
        return rc == 0, out[-800:]
    tests = [f for f in os.listdir(src) if f.endswith("_test.go")]
    if tests:
        d = "."
        dm = json.dumps(meta.get("demo", ""))
        for cand in ("internal/engine", "patch", "internal/parse", "internal/pgo", "internal/parse/section", "internal/pgo/augment", "internal/astdiff"):
            if cand in dm:
                d = cand
        import re as _re
        m = _re.search(r"(?m)^package (\w+)", open(os.path.join(src, tests[0])).read())
        pkgdirs = {"main": ".", "patch": "patch", "patch_test": "patch", "engine": "internal/engine", "section": "internal/parse/section",
                   "parse": "internal/parse", "pgo": "internal/pgo", "augment": "internal/pgo/augment", "astdiff": "internal/astdiff"}
        if m and m.group(1) in pkgdirs:
            d = pkgdirs[m.group(1)]
        dst = os.path.join(wt, d, "zz_seeded_demo_test.go")
        shutil.copy(os.path.join(src, tests[0]), dst)
        rc, out = sh(f"go test -count=1 -run TestSeededDemo ./{d}", wt, timeout=600)
        os.remove(dst)
        return rc == 0, out[-800:]
    return None, "no demo found"

def main():
    src, pid = sys.argv[1], sys.argv[2]
    name = sys.argv[3] if len(sys.argv) > 3 else pid
    meta = json.load(open(os.path.join(src, "meta.json")))
    wt = tempfile.mkdtemp(prefix="seedwt-", dir="/var/tmp")
    os.rmdir(wt)
    rc, out = sh(f"git worktree add -q --detach {wt} HEAD", "/repo")
    res = {}
    try:
        ok0, o0 = run_demo(src, wt, meta)
        res["demo_without_change"] = "passes" if ok0 else f"FAILS: {o0}"
        rc, out = sh(f"git apply {os.path.join(src, 'patch.diff')}", wt)
        if rc != 0:
            res["apply"] = "patch does not apply: " + out
            print(json.dumps(res, indent=1)); return 1
        rc, out = sh("go build ./...", wt)
        res["build"] = "ok" if rc == 0 else out[-400:]
        rc, out = sh("go test -count=1 ./... 2>&1 | grep -v 'no test files'", wt)
        res["tests"] = "ok" if "FAIL" not in out and "ok" in out else out[-600:]
        ok1, o1 = run_demo(src, wt, meta)
        res["demo_with_change"] = "fails (as required)" if ok1 is False else f"does not fail: {o1}"
        good = ok0 is True and ok1 is False and res["build"] == "ok" and res["tests"] == "ok"
        res["confirmed"] = good
        print(json.dumps(res, indent=1))
        if good:
            dst = os.path.join("/verif/seeded", name)
            os.makedirs(dst, exist_ok=True)
            for f in os.listdir(src):
                if f in ("patch.diff", "demo.sh", "meta.json") or f.endswith("_test.go"):
                    shutil.copy(os.path.join(src, f), os.path.join(dst, f))
            meta["confirmed_independently"] = res
            json.dump(meta, open(os.path.join(dst, "meta.json"), "w"), indent=1)
        return 0 if good else 1
    finally:
        sh(f"git worktree remove --force {wt}", "/repo")
        if os.path.exists("/var/tmp/seed-gopatch"):
            os.remove("/var/tmp/seed-gopatch")

if __name__ == "__main__":
    sys.exit(main())
