#!/usr/bin/env python3
"""Turns the inputs of the seeded changes' demonstrations into regression cases: every (patch, Go file) pair a demo.sh writes
becomes one case of corpus/<property>/seeded_demos.jsonl (engine stream) and, for C17, of corpus/C17/seeded_demos.json.
The generators remain the main source of cases; these make the detection of known mutants independent of PRNG drift."""
import json, os, re, glob, sys
V = os.path.dirname(os.path.dirname(os.path.abspath(__file__)))
ENGINE = {"C01", "C02", "C03", "C04", "C05", "C09", "C10", "C11", "C13"}
_HEREDOC = re.compile(r"cat\s*>+\s*(\S+)\s*<<-?\s*'?\"?(\w+)'?\"?\s*\n(.*?)\n\2\s*$", re.S | re.M)
PRINTF = re.compile(r"""printf\s+'((?:[^'\\]|\\.)*)'\s*>+\s*"?([^\s"]+)"?""")

class _M:
    def __init__(self, path, body):
        self._p, self._b = path, body
    def group(self, k):
        return {1: self._p, 2: "EOF", 3: self._b}[k]

def demo_files(text):
    """(path, content) of every file a demo.sh writes with a here-document or a plain printf"""
    res = [_M(m.group(1), m.group(3)) for m in _HEREDOC.finditer(text)]
    for m in PRINTF.finditer(text):
        fmt_, path = m.group(1), m.group(2)
        if "%" in fmt_.replace("%%", ""):
            continue
        body = fmt_.replace("%%", "%").replace("\\n", "\n").replace("\\t", "\t").replace("\\\\", "\\")
        if body.endswith("\n"):
            body = body[:-1]
        res.append(_M(path, body))
    return res

class _H:
    def finditer(self, text):
        return demo_files(text)

HEREDOC = _H()
out = {}
for d in sorted(glob.glob(os.path.join(V, "seeded", "C*"))):
    name = os.path.basename(d)
    meta = json.load(open(os.path.join(d, "meta.json")))
    pid = meta["property"]
    demo = os.path.join(d, "demo.sh")
    if not os.path.exists(demo):
        continue
    text = open(demo).read()
    patches, gos = [], []
    for m in HEREDOC.finditer(text):
        path, body = m.group(1).strip('"'), m.group(3) + "\n"
        base = os.path.basename(path.replace('"', ""))
        if base.endswith(".patch") or base.endswith(".gopatch"):
            patches.append((base, body))
        elif base.endswith(".go") and not re.match(r"(want|expect|exp_|golden|ref)", base):
            if body.lstrip().startswith(("package", "//", "/*")):
                gos.append((base, body))
    for pi, (pn, pb) in enumerate(patches):
        for gi, (gn, gb) in enumerate(gos):
            out.setdefault(pid, []).append({"id": f"seed/{name}/{pi}.{pn}/{gi}.{gn}", "patches": [pb], "src": gb})
# C09: a demonstration with several patch files (or one file with several changes) is a chain, in order of appearance
import json as _j
chains = []
for d in sorted(glob.glob(os.path.join(V, "seeded", "C*"))):
    meta = json.load(open(os.path.join(d, "meta.json")))
    demo = os.path.join(d, "demo.sh")
    if meta["property"] not in ("C09", "C10") or not os.path.exists(demo):
        continue
    text = open(demo).read()
    patches, gos = [], []
    for m in HEREDOC.finditer(text):
        base, body = os.path.basename(m.group(1).strip('"')), m.group(3) + "\n"
        if base.endswith(".patch"):
            patches.append(body)
        elif base.endswith(".go") and not re.match(r"(want|expect|exp_|golden|ref)", base) and body.lstrip().startswith(("package", "//", "/*")):
            gos.append((base, body))
    changes = []
    for ptxt in patches:
        cur, nat = [], 0
        for l in ptxt.split("\n"):
            if l.startswith("@"):
                nat += 1
                if nat % 2 == 1 and any(x.startswith("@") for x in cur):
                    changes.append("\n".join(cur) + "\n"); cur = []
            cur.append(l)
        if any(x.startswith("@") for x in cur):
            changes.append("\n".join(cur))
    # all changes in order, and every ordered pair: a demo often holds several scenarios
    combos = [changes] + [[a, b] for i, a in enumerate(changes) for b in changes[i + 1:]] if len(changes) >= 2 else []
    for gn, gb in gos:
        for ci, ch in enumerate(combos[:12]):
            chains.append({"id": f"seed/{os.path.basename(d)}/{gos.index((gn, gb))}.{gn}/{ci}", "chain": ch, "src": gb, "how": ["flags", "one-file"][ci % 2]})
if chains:
    json.dump(chains, open(os.path.join(V, "corpus", "C09", "seeded_chains.json"), "w"), indent=1)
    print("C09 chains", len(chains))

# CLI-level properties: one scenario per demonstration (all its Go files together, as the demonstration runs them),
# with each of its patches in turn
CLI = {"C06", "C07", "C12", "C14", "C16", "C18"}
scen = {}
for d in sorted(glob.glob(os.path.join(V, "seeded", "C*"))):
    meta = json.load(open(os.path.join(d, "meta.json")))
    demo = os.path.join(d, "demo.sh")
    if meta["property"] not in CLI or not os.path.exists(demo):
        continue
    text = open(demo).read()
    patches, files = [], {}
    for m in HEREDOC.finditer(text):
        path, body = m.group(1).strip('"'), m.group(3) + "\n"
        base = os.path.basename(path)
        if base.endswith(".patch"):
            patches.append(body)
        elif base.endswith(".go") and not re.match(r"(want|expect|exp_|golden|ref)", base):
            rel = re.sub(r"^\$\{?\w+\}?/", "", path)          # "$T/sub/a.go" -> "sub/a.go"
            rel = re.sub(r"[^A-Za-z0-9_./-]", "_", rel).lstrip("/")
            if ".." not in rel:
                files[rel or base] = body
    for pi, ptxt in enumerate(patches):
        if files:
            scen.setdefault(meta["property"], []).append({"id": f"seed/{os.path.basename(d)}/{pi}", "patches": [ptxt], "files": files})
for pid, ss in scen.items():
    os.makedirs(os.path.join(V, "corpus", pid), exist_ok=True)
    json.dump(ss, open(os.path.join(V, "corpus", pid, "seeded_scenarios.json"), "w"), indent=1)
    print(pid, "scenarios", len(ss))

for pid, cases in out.items():
    os.makedirs(os.path.join(V, "corpus", pid), exist_ok=True)
    if pid in ENGINE:
        with open(os.path.join(V, "corpus", pid, "seeded_demos.jsonl"), "w") as f:
            for c in cases:
                f.write(json.dumps(c) + "\n")
    if pid == "C17":
        json.dump(cases, open(os.path.join(V, "corpus", pid, "seeded_demos.json"), "w"), indent=1)
    print(pid, len(cases))
