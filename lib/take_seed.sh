#!/bin/sh
# usage: lib/take_seed.sh <property> <name> <out-dir> [worktree-to-remove]
# confirms a sub-agent's seeded change independently, stores it under seeded/<name>, runs the property's check against it
cd "$(dirname "$0")/.." || exit 2
P="$1"; N="$2"; OUT="$3"; WT="${4:-}"
python3 lib/confirm_seed.py "$OUT" "$P" "$N" 2>&1 | grep -E '"confirmed"|demo_|"build"|"tests"|rror'
[ -d "seeded/$N" ] && lib/seed_matrix.sh quick "seeded/$N"
# the scratch worktree and the deliverables go only when the change was confirmed and stored
[ -d "seeded/$N" ] && [ -n "$WT" ] && git -C /repo worktree remove --force "$WT" && rm -rf "$OUT"
