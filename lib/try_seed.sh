#!/bin/sh
# usage: lib/try_seed.sh <patch.diff> <property> [tier]   -- applies the diff to /repo, runs the check, reverts
set -u
P="$1"; ID="$2"; TIER="${3:-quick}"
cd /repo || exit 2
git diff --quiet || { echo "/repo is dirty"; exit 2; }
git apply "$P" || { echo "patch does not apply"; exit 2; }
cd /verif && ./check "$ID" --tier "$TIER" | tail -4
RC=$?
cd /repo && git checkout -- . && git status --short
exit $RC
