#!/usr/bin/env python3
"""Prompts for a round of seeded changes: one text file per property, holding only the property text,
the scratch worktree to use and the ideas already taken (one line each) - nothing else from /verif.
usage: mkprompts.py <round dir, e.g. /tmp/mut6> <kind text> [property ids...]"""
import json, os, sys, glob

VERIF = os.path.dirname(os.path.dirname(os.path.abspath(__file__)))
root, kind, ids = sys.argv[1], sys.argv[2], sys.argv[3:]
props = {}
for l in open(os.path.join(VERIF, "properties.jsonl")):
    d = json.loads(l)
    props[d["id"]] = d
os.makedirs(os.path.join(root, "prompts"), exist_ok=True)
for pid in ids or sorted(props):
    p = props[pid]
    taken = []
    for m in sorted(glob.glob(os.path.join(VERIF, "seeded", pid + "*", "meta.json"))):
        try:
            taken.append(json.load(open(m)).get("summary", "")[:200].replace("\n", " "))
        except Exception:
            pass
    wt, out = f"{root}/{pid}", f"{root}/{pid}-out"
    text = f"""You are helping to test a verification tool by mutation: your job is to write ONE realistic, subtle change to the Go project uber-go/gopatch (a refactoring tool driven by a unified-diff-style patch language with metavariables and '...' elision) that BREAKS the semantic property below, while the project still compiles and its existing, unedited test suite still passes.

Your scratch git worktree (work ONLY here; never touch /repo or /verif, and do not read anything under /verif): {wt}
Put your deliverables in: {out}

Every shell needs: export GOFLAGS=-mod=mod GOPROXY=off GOSUMDB=off GOTOOLCHAIN=local   (no network; `go build ./...` ~5 s, `go test -count=1 ./...` ~10 s)

PROPERTY {pid}: {p['title']}
{p['statement']}

Code the property is anchored in: {', '.join(p['anchors']['files'])}

Requirements for the change:
- It must look like something a maintainer could plausibly commit (a refactor, a "performance optimisation", a feature tweak, a fix gone wrong), not sabotage; keep it small (typically < 40 changed lines), in non-test .go files only. Do not edit, add or delete tests or testdata.
- `go build ./...` and `go test -count=1 ./...` must both pass WITH the change.
- It must need something SPECIFIC to manifest; ordinary use (the README examples, a simple -foo(x)/+bar(x) patch on one file) must behave exactly as before.
- The KIND of defect wanted this time — {kind}
- It must be a NEW idea. These were already done for this property; use a different mechanism and a different code location (helper packages such as internal/data, internal/goast, internal/text, internal/diff, internal/astdiff, internal/parse/section, internal/pgo/augment, loader.go, patch/gopatch.go are all fair game), and if the property has several clauses, a clause these did not break:
""" + "".join(f"  * {t}\n" for t in taken) + f"""
Deliverables in {out}:
1. patch.diff — `git -C {wt} diff` of your change (must apply cleanly to the clean HEAD with `git apply`; if you add a new file, run `git add -N` on it first so that it is in the diff). Leave the worktree with the change applied but uncommitted.
2. demo.sh — a POSIX shell script taking the path of a built gopatch binary as $1 (build with `cd {wt} && go build -o <somewhere> .`), creating its inputs in a fresh temp dir (mktemp -d; clean up) with here-documents (cat > file <<'EOF'), exiting 0 when the property HOLDS on its scenario and 1 when it is VIOLATED. It must exit 1 with your change and 0 on the unchanged code. If the property concerns the library API (package patch) and cannot be shown via the CLI, deliver instead a Go test file demo_test.go with a single test function named TestSeededDemo (state in meta.json which package directory it belongs in); it must fail with the change and pass without.
3. meta.json — {{"property": "{pid}", "summary": "<what the change does and why it breaks the property>", "needs": "<exactly what is needed for the breakage to manifest, and what still behaves as before>", "files_changed": [...], "demo": "<how to run>", "verified": ["<each command you ran and its outcome, with and without the change>"]}}

Verify everything yourself before finishing: build + full test suite with the change; demo fails (exit 1) with the change; save your diff to a file, undo the change with `git checkout -- .` (do NOT use `git stash`: all scratch worktrees share one stash), rebuild, demo passes (exit 0); restore the change with `git apply`. If an idea fails the existing tests, drop it and try another. Remove any binaries you built outside the worktree when done. Final answer: a 5-line summary (what, where, what it needs, demo result with/without).
"""
    open(os.path.join(root, "prompts", pid + ".txt"), "w").write(text)
    print(pid, len(taken), "earlier ideas")
