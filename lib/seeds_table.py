#!/usr/bin/env python3
"""Writes seeded/README.md: one line per seeded change (property, what it does, what it needs), and whether the quick tier
of the check of its property caught it in the matrix run given as argument (output of lib/seed_matrix.sh)."""
import json, glob, os, re, sys
V = os.path.dirname(os.path.dirname(os.path.abspath(__file__)))
caught = {}
if len(sys.argv) > 1 and os.path.exists(sys.argv[1]):
    for l in open(sys.argv[1]):
        m = re.match(r"(\S+) \((C\d+)\): (?:violations=(\d+)|(patch does not apply))", l)
        if m:
            caught[m.group(1)] = ("yes (%s)" % m.group(3)) if m.group(3) and m.group(3) != "0" else ("NO" if m.group(3) == "0" else "patch does not apply")
rows = []
for d in sorted(glob.glob(os.path.join(V, "seeded", "C*"))):
    name = os.path.basename(d)
    m = json.load(open(os.path.join(d, "meta.json")))
    cell = lambda s: re.sub(r"\s+", " ", str(s)).replace("|", "\\|")
    rows.append(f"| {name} | {m['property']} | {cell(m.get('summary', ''))[:330]} | {cell(m.get('needs', ''))[:260]} | {caught.get(name, '?')} |")
with open(os.path.join(V, "seeded", "README.md"), "w") as f:
    f.write("# Seeded changes (mutation self-test)\n\nEach directory holds a change to uber-go/gopatch written by a sub-agent that saw only the text of one property "
            "and its own scratch worktree: `patch.diff`, a demonstration (`demo.sh` / `demo_test.go`) and `meta.json`. Every change compiles, passes the "
            "unedited test suite, and was confirmed independently (`lib/confirm_seed.py`). `lib/seed_matrix.sh` applies each to a scratch worktree and runs the "
            "check of its property against it (`VERIF_REPO`); the last column is from the most recent full run (number of VIOLATION lines, quick tier, seed 1). "
            "`harmless/` and `harmless2/` hold behaviour-preserving refactorings on which every check must stay silent.\n\n"
            "| seed | property | change | needs | caught |\n|---|---|---|---|---|\n" + "\n".join(rows) + "\n")
print(len(rows), "rows")
