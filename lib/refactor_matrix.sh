#!/bin/sh
# usage: lib/refactor_matrix.sh <worktree>...  -- runs every check against a (behaviour-preserving) refactored tree: no check may raise an alarm
cd "$(dirname "$0")/.." || exit 2
for WT in "$@"; do
  for P in C01 C02 C03 C04 C05 C06 C07 C08 C09 C10 C11 C12 C13 C14 C15 C16 C17 C18 C19; do
    OUT=$(VERIF_REPO="$WT" ./check $P 2>&1)
    V=$(echo "$OUT" | grep -c '^VIOLATION')
    echo "$(basename $WT) $P violations=$V $(echo "$OUT" | tail -1 | cut -c1-110)"
    [ "$V" != "0" ] && echo "$OUT" | grep '^VIOLATION' | head -2
  done
done
