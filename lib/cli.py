"""Black-box CLI stream: scenarios on disk, runs of the real gopatch binary,
and the Lean model's prediction (runFiles) from per-file solo observations."""
import json, os, random, shutil, subprocess, stat, re
import common
from common import run, parse_sx

def write_tree(root, files):
    for rel, data in files.items():
        p = os.path.join(root, rel)
        os.makedirs(os.path.dirname(p), exist_ok=True)
        with open(p, "wb") as f:
            f.write(data if isinstance(data, bytes) else data.encode())

def digest(root):
    out = {}
    for d, dirs, files in os.walk(root):
        for n in files + dirs:
            p = os.path.join(d, n)
            st = os.lstat(p)
            rel = os.path.relpath(p, root)
            if stat.S_ISREG(st.st_mode):
                with open(p, "rb") as f:
                    data = f.read()
            elif stat.S_ISLNK(st.st_mode):
                data = ("-> " + os.readlink(p)).encode()
            else:
                data = b"<dir>"
            out[rel] = (data, st.st_mode, st.st_mtime_ns, st.st_ino)
    return out

def gopatch(binary, cwd, args, stdin=None, timeout=180, prefix=None):
    # (180 s: a run of the binary on the small inputs used here takes milliseconds; the limit only has to tell a run that hangs
    # from a machine that is busy many times over - a run killed half way through an in-place write looks like a defect)
    cmd = (prefix or []) + [binary] + args
    try:
        r = subprocess.run(cmd, cwd=cwd, input=stdin if stdin is not None else b"", stdout=subprocess.PIPE,
                           stderr=subprocess.PIPE, timeout=timeout)
        return r.returncode, r.stdout, r.stderr
    except subprocess.TimeoutExpired as e:
        return "timeout", e.stdout or b"", e.stderr or b""

def sx_quote(s):
    if isinstance(s, bytes):
        s = s.decode("utf-8", "surrogateescape")
    return '"' + s.replace("\\", "\\\\").replace('"', '\\"').replace("\n", "\\n").replace("\t", "\\t").replace("\r", "\\r") + '"'

def sx_unquote(t):
    assert t[0] == '"'
    out, i, t = [], 0, t[1:-1]
    while i < len(t):
        c = t[i]
        if c == "\\":
            n = t[i + 1]
            out.append({"n": "\n", "t": "\t", "r": "\r"}.get(n, n))
            i += 2
        else:
            out.append(c)
            i += 1
    return "".join(out)

LOG_RE = re.compile(rb"^(generated file )?(/[^\n]*?): (skipped|patched|failed[^\n]*)\n", re.M)

def classify(binary, root, patch_args, rel, flags):
    """Solo observation of one file in --print-only -v mode -> model FileIn fields."""
    absf = os.path.join(root, rel)
    content = open(absf, "rb").read()
    code, out, err = gopatch(binary, root, patch_args + ["--print-only", "-v"] + flags + [rel])
    info = {"abs": absf, "provided": rel, "content": content, "parses": True, "generated": False,
            "solo": {"exit": code, "stderr": err.decode("utf-8", "replace")}}
    errs = err.decode("utf-8", "replace")
    if code == "timeout":
        # a busy machine, or a hang: C08 looks for hangs with longer limits; here the file just cannot be classified
        info["apply"] = ("unknown", "the solo run did not end within the time limit")
        return info
    # the log line is the last line of stdout
    logs = list(LOG_RE.finditer(out))
    if not logs:
        # a file that does not end in a newline is echoed without one: its log line then starts in the middle of a line
        logs = list(re.finditer(rb"(generated file )?(" + re.escape(absf.encode()) + rb"): (skipped|patched|failed[^\n]*)\n", out))
    if "could not parse" in errs:
        info["parses"] = False
        info["apply"] = ("nomatch",)
        return info
    if "could not read" in errs:
        info["content"] = None
        info["apply"] = ("nomatch",)
        return info
    if not logs:
        if code == 1 and not out and errs.startswith("reformat ") and errs.count("\n") <= 1:
            # the result was refused when it was re-read (imports.Process): the one failure -v does not log
            info["apply"] = ("formaterr", errs.strip())
            return info
        info["apply"] = ("unknown", errs)
        return info
    last = logs[-1]
    body = out[:last.start()] + out[last.end():]
    kind = last.group(3)
    if last.group(1):
        info["generated"] = True
        info["apply"] = ("nomatch",)
        info["needs_unflagged"] = True
    elif kind == b"patched":
        lines = [l for l in errs.splitlines() if l]
        comments = [l[len(rel) + 1:] for l in lines if l.startswith(rel + ":")]
        info["apply"] = ("ok", body, comments)
    elif kind == b"skipped":
        if code == 0:
            info["apply"] = ("nomatch",)
        else:
            info["apply"] = ("replaceerr", errs.strip())
    else:
        info["apply"] = ("formaterr", errs.strip())
    return info

def filein_sx(info):
    a = info["apply"]
    if a[0] == "ok":
        ap = "(ok " + sx_quote(a[1]) + "".join(" " + sx_quote(c) for c in a[2]) + ")"
    elif a[0] == "replaceerr":
        ap = "(replaceerr " + sx_quote(a[1]) + ")"
    elif a[0] == "formaterr":
        ap = "(formaterr " + sx_quote(a[1]) + ")"
    else:
        ap = "(nomatch)"
    c = "(unreadable)" if info["content"] is None else sx_quote(info["content"])
    return f'(file {sx_quote(info["abs"])} {sx_quote(info["provided"])} {c} {1 if info["parses"] else 0} {1 if info["generated"] else 0} {ap})'

def model_predict(driver, cases):
    """cases: list of (id, opts list, [info...]) -> {id: {"exit": n, "outs": [(tag, args...)]}}"""
    lines = []
    for cid, opts, infos in cases:
        lines.append(f'(case {cid} cli (opts {" ".join(opts)}) (files {" ".join(filein_sx(i) for i in infos)}))')
    r = subprocess.run([driver], input=("\n".join(lines) + "\n").encode("utf-8", "surrogateescape"),
                       stdout=subprocess.PIPE, stderr=subprocess.PIPE, timeout=600)
    res = {}
    for l in r.stdout.decode("utf-8", "surrogateescape").split("\n"):
        sx = parse_sx(l)
        if not sx or sx[0] != "res":
            continue
        outs = []
        for o in (common.sx_field(sx[2:], "outs") or []):
            outs.append((o[0],) + tuple(sx_unquote(x) for x in o[1:]))
        res[sx[1]] = {"exit": int(common.sx_field(sx[2:], "exit")[0]), "outs": outs}
    return res

def apply_unified_diff(orig, diff_text):
    """Apply a unified diff (as printed by pkg/diff) to orig (str) -> str or None."""
    lines = orig.split("\n")
    # keep line terminators knowledge: pkg/diff works on lines split at \n
    out = []
    src = orig.split("\n")
    if src and src[-1] == "":
        src = src[:-1]
        trailing = True
    else:
        trailing = False
    pos = 0
    dl = diff_text.split("\n")
    i = 0
    no_newline_new = False
    while i < len(dl):
        l = dl[i]
        m = re.match(r"^@@ -(\d+)(?:,(\d+))? \+(\d+)(?:,(\d+))? @@", l)
        if not m:
            i += 1
            continue
        start = int(m.group(1))
        cnt = int(m.group(2)) if m.group(2) is not None else 1
        if cnt == 0:
            start += 1
        while pos < start - 1:
            out.append(src[pos]); pos += 1
        i += 1
        while i < len(dl) and not dl[i].startswith("@@ "):
            h = dl[i]
            if h.startswith("--- ") or h.startswith("+++ "):
                break
            if h.startswith(" "):
                if pos >= len(src) or src[pos] != h[1:]:
                    return None
                out.append(src[pos]); pos += 1
            elif h.startswith("-"):
                if pos >= len(src) or src[pos] != h[1:]:
                    return None
                pos += 1
            elif h.startswith("+"):
                out.append(h[1:])
            elif h.startswith("\\"):
                pass
            elif h == "":
                pass
            i += 1
    while pos < len(src):
        out.append(src[pos]); pos += 1
    return "\n".join(out) + ("\n" if out else "")
