#!/usr/bin/env python3
"""Regenerates /verif/MANIFEST.json from the table below and the registry of
implemented checks (lib/props.py). Properties without a check are listed under
not_applicable with the reason given here."""
import json, os, sys
sys.path.insert(0, os.path.dirname(os.path.abspath(__file__)))
import props

V = os.path.dirname(os.path.dirname(os.path.abspath(__file__)))

TEXT = {
 "C01": ("Lean theorems over the engine model: the matcher accepts only instances (soundness against the inductive instance relation), every node is tried; a reference matcher that explores every run of every elision decides 'is an instance' exactly on well-typed trees (isInstance_iff) and contains the engine's matcher; for elision-free patterns (repeated metavariables included) the engine's matcher is complete; a concrete instance the engine misses (nested elision, known finding F22) is a theorem. Tie: the real engine in-process and the built binary (--print-only) against the model on generated (patch, file) pairs, projection: which locations are rewritten; the reference matcher as oracle for the converse on every node; typing hypotheses evaluated on every tree under the schema of go/ast dumped by reflection on every run; the compiled pattern against an independent parse of the generator's text.",
         "6 C01", "Lean 4 proof over hand-written model + differential correspondence (locations projection)"),
 "C02": ("Lean theorems: metavariable kind test, consistency of repeated occurrences, no leakage between attempts (site list is a function of matcher, node and the incoming data); 'stands for identical code' (order-free) agrees with 'compare with the first occurrence' on well-typed trees (eqvM is Euclidean there; counterexample on ill-typed values). Tie: in-process engine and built binary against the model on patterns with repeated metavariables and identical / almost identical (incl. respelled literals) / different fillers, wide patterns, non-identifier fillers for identifier metavariables.",
         "6 C02", "Lean 4 proof over hand-written model + differential correspondence (match decisions and locations)"),
 "C03": ("Lean theorems: the rewrite rule (the matched code is an instance of the '-' pattern and the generated code an instance of the '+' pattern under one substitution, the site's bindings, for every pattern and every tree); fresh copies of the captures; unbound metavariable is an error; the only silent skip is non-assignability. Tie: replaced subtrees of the in-process engine and of the built binary against the model; a site both sides matched and only the model rewrote is a violation; a change the model cannot generate must make the binary fail and leave the file alone; a table of '+' sides whose tokens must arrive byte for byte, with hand-written expected files.",
         "6 C03", "Lean 4 proof over hand-written model + differential correspondence (content at rewritten sites)"),
 "C04": ("Lean theorems: the list matcher with elision succeeds iff some choice of runs exists (sound and complete against the inductive spec) and picks the leftmost-shortest solution; runs are reproduced unchanged; the run recorded for an elision is still there when the whole pattern has matched, provided elisions have distinct patch positions (evaluated per case; counterexample = repaired defect F24). From the bytes of the patch: a context line is reported at one place in both versions of a change, every byte of a version at its line and column in the patch file (for every patch file, through the model of sectioning and splitPatch), and rewrite's adjustments take every elision back to its '...' (under AugsOK, evaluated on every version). Tie: stream split (splitPatch and the recorded place of every elision, implementation vs the model's chain from the patch bytes); in-process engine and built binary against the model on patterns with 1..3 elisions (also at the top level of statement patterns, adjacent, with a shared metavariable) and empty/non-empty runs.",
         "6 C04", "Lean 4 proof over hand-written model + differential correspondence (decision, locations, content)"),
 "C05": ("Lean frame theorems: with the slots of the matched sites blanked the tree after the replacement loop, and after the new nodes were given identities, is the tree before it (for every list of sites, values and orders); slot updates leave every subtree not containing the parent untouched; correspondence (in-process engine and built binary) checks that every change of the implementation lies inside a site and that the neighbours of a rewritten run are the original elements.",
         "6 C05", "Lean 4 proof over hand-written model + differential correspondence (changes outside sites)"),
}

CLI_NOTE = " The loop model is parametric in the per-file outcome; the tie feeds it outcomes observed in solo --print-only runs of the real binary and compares its prediction with the grouped run in every mode (disk digest, stdout, stderr, exit)."
TEXT.update({
 "C06": ("Lean theorems on the CLI loop model: an unmatched file yields no write, no diff, no description, echo iff --print-only; all unmatched => exit 0; API returns input." + CLI_NOTE,
         "6 C06", "Lean 4 proof over CLI loop model + black-box correspondence with the built binary"),
 "C07": ("Lean theorems: the formatting tail (format, imports.Process or re-parse) returns success only for text that parses, in every flag combination; only checked bytes are emitted." + CLI_NOTE + " Every emitted content is additionally parsed with go/parser.",
         "6 C07", "Lean 4 proof over CLI loop model + black-box correspondence + go/parser oracle on emitted content"),
 "C12": ("Lean theorems: --diff/--print-only imply no write for all inputs; written = printed = diff-applied bytes; descriptions only for patched files." + CLI_NOTE,
         "6 C12", "Lean 4 proof over CLI loop model + black-box correspondence (disk digest, mode agreement)"),
 "C14": ("Lean theorems: effects of a run are the concatenation of per-file effects (file independence), API is a function of (patch, bytes)." + CLI_NOTE + " Arguments are permuted/repeated and named in several forms (relative, absolute, through excluded directories); site-dependent rewrite errors before files where the change applies; API repeated and concurrent Apply compared, and run under the Go race detector; a batch of (patch, file) pairs is run several times in fresh processes and must print the same bytes (found F26); two packages in one directory under package-guarded patches. Partial: real preemption is not modelled.",
         "6 C14", "Lean 4 proof over CLI loop model + black-box grouped-vs-solo correspondence + API repetition"),
 "C16": ("Lean theorems: every failing file contributes an error and exit 1 wherever it sits; exit 0 implies all files processed; the temp-file+rename write is atomic at every fault/crash point (and the former in-place write is refuted)." + CLI_NOTE + " Faults enumerated: unparseable source, rewrite error, unparseable result, missing path/patch (also after a covering directory), unreadable target, temporary file that cannot be created (250-byte name, read-only directory) with a shrinking patch, RLIMIT_FSIZE at several byte counts.",
         "6 C16", "Lean 4 proof over CLI loop + write model + fault enumeration against the built binary"),
 "C18": ("Lean theorems: with the flag a generated file has no effect; non-generated files and flag-off runs are unaffected; marker predicate (line split, prefix/suffix, before package) with near-miss spellings decided in Lean." + CLI_NOTE + " The header-shape table is enumerated exhaustively.",
         "6 C18", "Lean 4 proof over CLI loop + generated-marker predicate + exhaustive header table against the binary"),
})

TEXT["C15"] = ("Lean theorems over an abstract file system: membership in the walk result characterised exactly (regular file, .go suffix, reached only through non-excluded directories including the named one), symlinks/other never, each path once (sortUniq membership) ; the README literals vendor/testdata/./_ are decided in Lean. Tie: trees created on disk, processed list read from the binary's -v lines vs the model findFiles.",
         "6 C15", "Lean 4 proof over file-system walk model + black-box correspondence on generated directory trees")

TEXT["C08"] = ("Lean theorems: the replacers never produce a panic outcome (every failure is an error value), the '...' scanner is defined by well-founded recursion on the remaining tokens (termination checked by the kernel) and the pre-fix loop is refuted for every fuel; sectioning and metavariable parsing are total by construction. Tie: truncated / byte-mutated / ill-typed patches through patch.Parse+Apply under watchdogs, the CLI under timeout, augment.Augment vs the Lean finder+rewrite on every prefix of patch bodies, engine outcome class vs the model. Partial: go/scanner, go/parser, go/printer, imports.Process, intervalset and memory use are not modelled.",
         "6 C08", "Lean 4 proof (totality / no-panic / well-founded scanner) + differential and watchdog streams on malformed input")
TEXT["C13"] = ("Lean theorems: '#' lines never reach the section state machine and descriptions are exactly the run above the header; names are only stored; the association of '...' depends on patch positions only through their order (connectDots commutes with every order-preserving relabelling). An unchanged line as a '-'/'+' pair or once with a blank gives each version the same bytes up to that blank (splitPatch model, stream split). Tie: layout transformations of generated patches must leave the real engine's canonical result unchanged; descriptions via section.Split vs model. Partial: go/scanner+go/parser layout-insensitivity is assumed.",
         "6 C13", "Lean 4 proof (section model, relabelling invariance) + metamorphic layout stream on the real engine")
TEXT["C19"] = ("Lean theorems: a patch source that does not load is the first that fails, everything before it loaded, and no program is handed over (model of the loader; stream load: exit status, the diagnostic names the source, nothing rewritten); a rejected change name is reported at the byte that is the offending character of that header line; junk where a header is expected at column 1 of its line; the metavariable scratch buffer is the patch lines byte for byte (offset mapping). Tie: section.Split, parse.Parse, engine.Compile and patch.Parse on multi-change patches with one injected fault vs the Lean model (Sec.split, parseMeta over go/scanner's tokens, compileMetaErrs, mapPos) and vs the injection point; CLI exit/stderr/no rewrite.",
         "6 C19", "Lean 4 proof over section/meta model + differential front stream with injected faults")

TEXT["C09"] = ("Lean theorems: running a ++ b is running a then b on a's result (sequential composition), a non-matching change is a no-op, a failing step is reported; the loader (model of loader.go/loadPatches): the run is the whole plan in order - stdin if no flag, -p files, then the non-empty lines of the -P file - and a -P list of paths loads exactly what the same paths load as -p flags (stream load: the binary on random command lines and list files against the model). Tie: per-change decisions of the real engine vs the model on chains where change k+1 matches only the output of change k; through the CLI the combined run equals the chain of single-change runs (canonical trees, redundant parentheses removed) for every way of supplying the patches. Theorem combined_eq_chain: the chain equals the combined run whenever every intermediate tree is a fixed point of print + re-parse; the harness evaluates that hypothesis on the real trees, and where it fails the known finding F7 applies (F25: comment placement in a printed intermediate file). Partial: go/printer and go/parser are parameters.",
         "6 C09", "Lean 4 proof (sequential composition of changes) + differential decisions + CLI combined-vs-chain metamorphic check")
TEXT["C10"] = ("Lean theorems: package guard, import table rows (unnamed / literal name incl. dot and blank / identifier-metavariable name), any import of the path may satisfy the guard, all listed imports required, failed guard = no-op. Tie: exhaustive cross product of patch-side x file-side import forms x package clause x layout against the README table, the real engine and the model.",
         "6 C10", "Lean 4 proof over import/package guard model + exhaustive cross-product tie")
TEXT["C11"] = ("Lean theorems over the import list: adding never removes, adds only the requested path; the clean-up deletes only imports of matched paths, keeps a matched import that is still referred to and not replaced by name, deletes one that is no longer referred to; unrelated imports survive. Tie: import multiset of the real engine vs the model on generated patches that add/delete/rename/match imports. astutil.AddNamedImport/DeleteNamedImport and imports.Process are assumed to have set semantics (validated differentially).",
         "6 C11", "Lean 4 proof over import-list model + differential import-multiset tie")

TEXT["C17"] = ("Lean theorems: after any number of changes the comment list is a sublist of the input's (nothing invented, duplicated or reordered); a comment survives unless wholly inside a changed interval; NoPos intervals never remove comments (header/package comments are out of reach); metavariable copies carry no comments. Tie: (i) end-to-end oracle on the real binary: declarations with unchanged canonical syntax keep exactly their comments, header comments unchanged, no text more often than in the input; (ii) Lean filterComments on the intervals of the real engine vs the comments present in patch.File.Apply's output; (iii) the invariant astdiff owes the filter — no changed interval reaches into a declaration in which the engine model rewrote nothing (Lean predicate respects, theorem untouched_declaration_keeps_comments) — evaluated on the real engine's intervals of every case; (iv) internal/astdiff and internal/diff are modelled in Lean one to one and tied per applied change to the real Snapshot.Diff (regions reported, comment associations of the new snapshot), Changelog.ChangedIntervals as a set of positions tied per step to the real changelog. Theorems about that model, for trees and lists of every size: reported regions are made of positions of the old snapshot only; unchanged syntax reports nothing; the script of diff.Difference consumes both lists exactly and has its identities on equal cells; declarations that were not rewritten are paired with themselves (no twins, fewer than 64 rewritten in a row), also when the list changes its length; their neighbours' regions keep clear of them; so do the intervals the changelog returns. Partial: ast.NewCommentMap and go/printer's comment placement are external (end-to-end oracle only).",
         "6 C17", "Lean 4 proof over comment-filter, astdiff, list-diff and changelog models + per-change differential ties + end-to-end comment oracle")

REASONS = {}

def main():
    checks, na = [], []
    ids = [json.loads(l)["id"] for l in open(os.path.join(V, "properties.jsonl"))]
    for pid in ids:
        if pid in props.REGISTRY and pid in TEXT:
            text, ref, tech = TEXT[pid]
            checks.append({
                "property_id": pid,
                "quick_cmd": f"./check {pid} --tier quick",
                "thorough_cmd": f"./check {pid} --tier thorough",
                "evidence_file": f"/verif/evidence/{pid}.json",
                "replay_cmd_template": f"./check {pid} --replay {{path}}",
                "engine": "lean-model+go-harness",
                "level_claimed": {"category": "proof", "text": text, "design_ref": "DESIGN.md section " + ref},
                "level_note": "Trusted: Lean kernel; axioms propext, Classical.choice, Quot.sound only; the hand-written model is tied to /repo by the correspondence run on every invocation (testing, not proof); go/parser, go/printer, imports.Process, astutil, the OS are parameters (DESIGN.md section 8).",
                "technique": tech,
            })
        else:
            na.append({"property_id": pid, "reason": REASONS.get(pid, "check under construction in this round; not claimed yet")})
    m = {
        "version": 1,
        "setup_cmd": "cd /verif && ./setup.sh",
        "hooks": {"guard": "verif", "enable": "go build -tags verif -overlay /verif/.build/overlay.json ./internal/zzverif (harness sources live in /verif/harness and are injected at build time: /verif/harness/zzverif as package internal/zzverif, /verif/harness/astdiff/zz_verif_dump.go as one added file of package internal/astdiff that prints its snapshot values, /verif/harness/engine/zz_verif_changelog.go as one added file of package internal/engine that lists the two interval sets of a Changelog, /verif/harness/parse/zz_verif_split.go as one added file of package internal/parse that calls the unexported splitPatch; nothing is committed to /repo)",
                  "baseline_off_cmd": "cd /repo && GOFLAGS=-mod=mod go test -vet=off -count=1 ./...", "source_commits": [], "add_only": True},
        "engines": [{"name": "lean-model+go-harness", "path": "/verif/lean, /verif/harness, /verif/lib",
                     "serves_properties": [c["property_id"] for c in checks],
                     "kind_free_text": "Lean 4 model + theorems; Go harness injected with -overlay; Python orchestration"}],
        "checks": checks,
        "not_applicable": na,
        "notes": "See DESIGN.md. ./check <id> [--tier quick|thorough] [--seed N] [--replay file].",
    }
    with open(os.path.join(V, "MANIFEST.json"), "w") as f:
        json.dump(m, f, indent=1)
    print(f"{len(checks)} checks, {len(na)} not claimed")

if __name__ == "__main__":
    main()
